from util import *
import physt, json
from physt.types import Histogram1D, Histogram2D
from physt.io import parse_json
h = Histogram2D([[0,1,2],[0,1,2]], [[1.5,2],[3,4]], axis_names=["a","b"], title="T", foo=[1,2,{"z":None}])
a = json.loads(h.to_json()); b = json.loads(parse_json(h.to_json()).to_json())
for k in a:
    if a[k]!=b[k]: print(k, a[k], b[k])
print(a==b)
print(h.to_json()); print(parse_json(h.to_json()).to_json())
