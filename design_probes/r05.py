from util import *
import physt, itertools
from physt import h1, h
from physt.types import Histogram1D
rng=np.random.default_rng(5)
bad={}
def rec(k, ok, ex=None):
    s=bad.setdefault(k,[0,0,[]]); s[0]+=1
    if not ok:
        s[1]+=1
        if len(s[2])<2: s[2].append(ex)
def imap(hh):
    b=hh.bins; return {(float(l),float(r)):(float(f),float(e)) for (l,r),f,e in zip(b,hh.frequencies,hh.errors2) if f or e}
for trial in range(400):
    w=float(rng.choice([1.0,0.5,2.5,0.25]))
    n=int(rng.integers(3,40))
    data=rng.integers(-40,40,size=n)*w*rng.choice([1,0.5])+rng.choice([0,0.25*w])
    wts=rng.integers(1,9,size=n)/8 if rng.random()<0.5 else None
    cuts=sorted(rng.choice(np.arange(1,n),size=min(n-1,int(rng.integers(1,4))),replace=False))
    chunks=np.split(np.arange(n),cuts)
    kw=dict(bin_width=w, adaptive=True)
    if rng.random()<0.3: kw["bin_shift"]=0.25*w
    try:
        parts=[h1(data[c],"fixed_width",weights=None if wts is None else wts[c],**kw) for c in chunks]
        direct=h1(data,"fixed_width",weights=wts,**kw)
    except Exception as ex:
        rec("construct exc", False, repr(ex)[:100]); continue
    if direct.underflow or direct.overflow or any(p.underflow or p.overflow for p in parts):
        rec("lossy construct (C04)", True); continue
    snaps=[(p.frequencies.copy(), p.bins.copy()) for p in parts]
    order=rng.permutation(len(parts))
    try:
        tot=sum(parts[i] for i in order)
        rec("sum==direct map", imap(tot)==imap(direct), (data.tolist(), w, kw, imap(tot), imap(direct)))
        rec("sum bins==direct", np.array_equal(tot.bins, direct.bins), (tot.bins[[0,-1]].tolist(), direct.bins[[0,-1]].tolist(), w, kw))
        rec("operands unchanged", all(np.array_equal(p.frequencies,s[0]) and np.array_equal(p.bins,s[1]) for p,s in zip(parts,snaps)))
        rec("dtype", tot.dtype==direct.dtype, (tot.dtype,direct.dtype))
        rec("stats weight", abs(tot.statistics.weight-direct.statistics.weight)<1e-9)
        rec("no missed", not tot.underflow and not tot.overflow)
    except Exception as ex:
        rec("sum exc", False, (repr(ex)[:100], w, kw, [p.bins[[0,-1]].tolist() for p in parts]))
for k,v in bad.items(): print(f"{k:24s} n={v[0]:4d} bad={v[1]:4d} {v[2] if v[1] else ''}")
