import sys, time, numpy as np, warnings
warnings.simplefilter("ignore")
import physt
from physt import h1
from physt import _construction, binnings
mon = sys.monitoring
TOOL = 3
mon.use_tool_id(TOOL, "pvm")
hits = {}
targets = {_construction.calculate_1d_frequencies.__code__, binnings.FixedWidthBinning._force_bin_existence_single.__code__}
def on_line(code, line):
    hits.setdefault(code.co_name, set()).add(line)
    return mon.DISABLE
mon.register_callback(TOOL, mon.events.LINE, on_line)
for c in targets:
    mon.set_local_events(TOOL, c, mon.events.LINE)
t=time.time()
for i in range(2000):
    h = h1(np.arange(10.)*0.37, "fixed_width", bin_width=0.5, adaptive=True); h.fill(100.0); h.fill(-3.0)
print("time", time.time()-t)
import dis
for c in targets:
    lines = {l for _,_,l in c.co_lines() if l}
    print(c.co_name, len(hits.get(c.co_name,())), "/", len(lines), sorted(lines - hits.get(c.co_name,set())))
