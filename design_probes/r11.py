from util import *
import physt, itertools
from physt.types import Histogram1D, HistogramND
rng=np.random.default_rng(3)
bad={}
def rec(k, ok, ex=None):
    s=bad.setdefault(k,[0,0,[]]); s[0]+=1
    if not ok:
        s[1]+=1
        if len(s[2])<3: s[2].append(ex)
for n in range(1,7):
    e=np.cumsum(rng.integers(1,4,size=n+1)).astype(float); f=rng.integers(0,6,size=n); e2=rng.integers(0,6,size=n)
    a=Histogram1D(e,f,errors2=e2,underflow=2,overflow=3)
    tot=a.total+a.underflow+a.overflow
    for st,sp in itertools.product([None]+list(range(-n-1,n+2)), repeat=2):
        sl=slice(st,sp)
        try: r=a[sl]
        except Exception as ex: rec("slice exc", False, (n,st,sp,repr(ex)[:60])); continue
        rec("bins", np.array_equal(r.bins, a.bins[sl])); rec("freq", np.array_equal(r.frequencies, f[sl])); rec("e2", np.array_equal(r.errors2, e2[sl]))
        if len(f[sl])>0:
            rec("conservation nonempty", r.total+r.underflow+r.overflow==tot, (n,st,sp,int(r.total),int(r.underflow),int(r.overflow),int(tot)))
        rec("source same", np.array_equal(a.frequencies,f) and a.underflow==2 and a.overflow==3)
    # ND
for trial in range(200):
    d=int(rng.integers(2,5)); shape=tuple(int(x) for x in rng.integers(1,5,size=d))
    F=rng.integers(0,9,size=shape); E=rng.integers(0,9,size=shape)
    n=HistogramND([np.arange(s+1.)*(i+1) for i,s in enumerate(shape)], F, errors2=E, axis_names=[f"a{i}" for i in range(d)])
    idx=[]
    for s in shape[:int(rng.integers(1,d+1))]:
        r=rng.random()
        if r<0.4: idx.append(int(rng.integers(-s,s)))
        elif r<0.9: idx.append(slice(*[None if rng.random()<0.3 else int(x) for x in rng.integers(-s-1,s+2,size=2)]))
        else: idx.append(slice(None,None,2))
    idx=tuple(idx)
    try: r=n[idx]
    except Exception as ex: rec("nd exc", False, (shape,idx,repr(ex)[:80])); continue
    if isinstance(r, tuple):
        rec("nd scalar", r[1]==F[idx] and all(tuple(n.bins[i][j])==r[0][i] for i,j in enumerate(idx)), (shape,idx,r)); continue
    rec("nd freq", np.array_equal(r.frequencies, F[idx]), (shape,idx,r.frequencies.shape,F[idx].shape))
    rec("nd e2", np.array_equal(r.errors2, E[idx]))
    kept=[i for i in range(d) if i>=len(idx) or not isinstance(idx[i],int)]
    rec("nd names", tuple(r.axis_names)==tuple(f"a{i}" for i in kept), (idx, r.axis_names))
    exp_bins=[n.bins[i][idx[i]] if i<len(idx) else n.bins[i] for i in kept]
    rb = r.bins if r.ndim>1 else [r.bins]
    rec("nd bins", all(np.array_equal(x,y) for x,y in zip(rb,exp_bins)), (idx,))
    rec("nd source same", np.array_equal(n.frequencies,F))
for k,v in bad.items(): print(f"{k:24s} n={v[0]:5d} bad={v[1]:4d} {v[2] if v[1] else ''}")
