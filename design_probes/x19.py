"""Feasibility: does thread/task stress with injected yields expose a global-variable config?"""
import sys, time, threading, asyncio, random, contextlib, itertools, os
import numpy as np, warnings
warnings.simplefilter("ignore")
import physt
from physt import config as cfgmod
from physt.config import config
from physt import h1

MUTANT = os.environ.get("MUTANT")
if MUTANT == "global":
    # emulate: ContextVar replaced by plain attribute
    class FakeVar:
        def __init__(s, v): s.v = v
        def get(s): return s.v
        def set(s, v): old = s.v; s.v = v; return old
        def reset(s, tok): s.v = tok
    config._free_arithmetics = FakeVar(False)
elif MUTANT == "noreset":
    @contextlib.contextmanager
    def _change_value(self, name, value):
        getattr(self, name).set(value)
        try: yield
        finally: getattr(self, name).set(False)
    type(config)._change_value = _change_value

mon = sys.monitoring; TOOL = 4; mon.use_tool_id(TOOL, "inj")
inj = itertools.count()
def on_line(code, line):
    next(inj); time.sleep(0)
mon.register_callback(TOOL, mon.events.LINE, on_line)
for f in (type(config)._change_value.__wrapped__ if hasattr(type(config)._change_value, "__wrapped__") else None, type(config)._get_value, type(config)._set_value):
    if f is not None: mon.set_local_events(TOOL, f.__code__, mon.events.LINE)
sys.setswitchinterval(1e-6)
seq = itertools.count()
viol = []; events = []
a = h1([.5,1.5],[0,1,2])
def probe(expected, who, log):
    got = config.free_arithmetics
    log.append((next(seq), who, expected, got))
    if got != expected: viol.append((who, expected, got)); return
    try:
        a + [1,1]; acc = True
    except TypeError: acc = False
    if acc != expected and config.free_arithmetics == expected: viol.append((who, "arith", expected, acc))
def program(rng, who, log, depth=0, stack=None, ayield=None):
    stack = stack or [False]
    for _ in range(rng.randint(1,4)):
        r = rng.random()
        if r < 0.5 and depth < 4:
            v = rng.random() < 0.5
            try:
                with config.enable_free_arithmetics(v):
                    stack.append(v); probe(v, who, log)
                    program(rng, who, log, depth+1, stack)
                    probe(v, who, log)
                    if rng.random() < 0.3: raise KeyError
            except KeyError: pass
            finally: stack.pop()
            probe(stack[-1], who, log)
        else:
            probe(stack[-1], who, log)
def thread_main(i, n):
    rng = random.Random(i); log = []
    for _ in range(n): program(rng, f"t{i}", log)
    events.extend(log)
t0=time.time()
ths=[threading.Thread(target=thread_main,args=(i,60)) for i in range(8)]
[t.start() for t in ths]; [t.join() for t in ths]
events.sort()
switches = sum(1 for x,y in zip(events, events[1:]) if x[1]!=y[1])
# conflicting overlaps: consecutive events from different workers with different expectation
confl = sum(1 for x,y in zip(events, events[1:]) if x[1]!=y[1] and x[2]!=y[2])
print(f"MUTANT={MUTANT} events={len(events)} switches={switches} conflicting={confl} injections={next(inj)} violations={len(viol)} time={time.time()-t0:.2f}s", viol[:3])
