from util import *
import physt
from physt import h, h1, h2, h3
from physt.types import Histogram1D, Histogram2D, HistogramND
from physt.binnings import StaticBinning, NumpyBinning, FixedWidthBinning
def s1(h): return dict(f=h.frequencies.tolist(), e2=h.errors2.tolist(), u=h.underflow, o=h.overflow, im=h.inner_missed, dt=str(h.dtype))
def sn(h): return dict(f=h.frequencies.tolist(), e2=h.errors2.tolist(), m=h.missed, dt=str(h.dtype))
edges=[0,1,2,3]
vals=[-1,0,0.5,1,2.999,3,3.0000001,7, 2]
def byfill(keep=True, bins=edges, w=None):
    hh = Histogram1D(bins, keep_missed=keep); r=[]
    for i,v in enumerate(vals):
        r.append(hh.fill(v) if w is None else hh.fill(v, w[i]))
    return s1(hh), r
T("1d fill", byfill)
T("1d fill_n", lambda: (lambda hh: (hh.fill_n(vals), s1(hh))[1])(Histogram1D(edges)))
T("1d construct", lambda: s1(h1(vals, edges)))
T("1d fill nokeep", lambda: byfill(False))
T("1d fill_n nokeep", lambda: (lambda hh: (hh.fill_n(vals), s1(hh), hh._missed.tolist())[1:])(Histogram1D(edges, keep_missed=False)))
T("1d fill gap", lambda: byfill(True, [[0,1],[2,3]]))
T("1d fill gap (value 1.5)", lambda: (lambda hh: (hh.fill(1.5), s1(hh)))(Histogram1D([[0,1],[2,3]])))
T("1d fill gap float (value 1.5)", lambda: (lambda hh: (hh.fill(1.5), s1(hh)))(Histogram1D([[0,1],[2,3]], dtype=float)))
T("1d fill_n gap", lambda: (lambda hh: (hh.fill_n(vals), s1(hh))[1])(Histogram1D([[0,1],[2,3]])))
T("1d fill weights float", lambda: byfill(True, edges, [0.5]*9))
T("1d fill_n weights", lambda: (lambda hh: (hh.fill_n(vals, weights=[0.5]*9), s1(hh))[1])(Histogram1D(edges)))
T("1d fill nan", lambda: (lambda hh: (hh.fill(np.nan), s1(hh)))(Histogram1D(edges)))
T("1d fill_n nan+weights", lambda: (lambda hh: (hh.fill_n([0.5,np.nan,1.5], weights=[1,10,100]), s1(hh))[1])(Histogram1D(edges)))
T("1d fill_n empty", lambda: (lambda hh: (hh.fill_n([]), s1(hh))[1])(Histogram1D(edges)))
T("1d fill_n empty on filled", lambda: (lambda hh: (hh.fill_n([]), s1(hh), hh.statistics)[1:])(h1(vals, edges)))
T("1d find_bin", lambda: [Histogram1D(edges).find_bin(v) for v in vals])
T("1d find_bin gap", lambda: [Histogram1D([[0,1],[2,3]]).find_bin(v) for v in [-1,0,.5,1,1.5,2,3,4]])
T("1d lshift", lambda: (lambda hh: (hh << 1.5, s1(hh)))(Histogram1D(edges)))
# ND
b2=[[0,1,2],[0,1,2,3]]
pts=[[0,0],[1,1],[2,3],[2,2.5],[0.5,3],[-1,0],[5,5],[1.999,2.9999],[2,1]]
def ndfill(keep=True, cls=Histogram2D):
    hh=cls(b2, keep_missed=keep); r=[hh.fill(p) for p in pts]; return sn(hh), r
T("nd fill", ndfill)
T("nd fill nokeep", lambda: ndfill(False))
T("nd fill_n", lambda: (lambda hh: (hh.fill_n(pts), sn(hh))[1])(Histogram2D(b2)))
T("nd fill_n nokeep", lambda: (lambda hh: (hh.fill_n(pts), sn(hh))[1])(Histogram2D(b2, keep_missed=False)))
T("nd construct", lambda: sn(h(np.array(pts,float), b2)))
T("nd find_bin", lambda: [Histogram2D(b2).find_bin(p) for p in pts])
T("nd fill_n weights", lambda: (lambda hh: (hh.fill_n(pts, weights=np.ones(9)*.5), sn(hh))[1])(Histogram2D(b2)))
T("nd fill_n int weights", lambda: (lambda hh: (hh.fill_n(pts, weights=np.arange(9)), sn(hh))[1])(Histogram2D(b2)))
T("nd fill weight", lambda: (lambda hh: ([hh.fill(p, 0.5) for p in pts], sn(hh))[1])(Histogram2D(b2)))
T("nd fill_n weights wrong len", lambda: (lambda hh: (hh.fill_n(pts, weights=np.ones(3)*.5), sn(hh))[1])(Histogram2D(b2)))
T("nd fill_n nan + weights", lambda: (lambda hh: (hh.fill_n([[0.5,0.5],[np.nan,1],[1.5,1.5]], weights=[1,10,100]), sn(hh))[1])(Histogram2D(b2)))
T("nd fill_n columns", lambda: (lambda hh: (hh.fill_n(np.array(pts).T, columns=True), sn(hh))[1])(Histogram2D(b2)))
T("nd fill_n empty", lambda: (lambda hh: (hh.fill_n(np.zeros((0,2))), sn(hh))[1])(Histogram2D(b2)))
# ND with non-right-inclusive static
b2n=[StaticBinning([0,1,2], includes_right_edge=False), StaticBinning([0,1,2,3], includes_right_edge=False)]
T("nd noright fill", lambda: (lambda hh: ([hh.fill(p) for p in pts], sn(hh)))(Histogram2D(b2n)))
T("nd noright fill_n", lambda: (lambda hh: (hh.fill_n(pts), sn(hh))[1])(Histogram2D(b2n)))
# fixed width non adaptive ND (includes_right_edge False)
T("nd fw fill vs fill_n", lambda: ((lambda hh: ([hh.fill(p) for p in pts], sn(hh)))(h(None, "fixed_width", bin_width=1, range=(0,3), dim=2)), (lambda hh: (hh.fill_n(pts), sn(hh))[1])(h(None, "fixed_width", bin_width=1, range=(0,3), dim=2))))
