from util import *
import physt
from physt import h, h1, h2, h3
from physt.types import Histogram1D, Histogram2D, HistogramND, HistogramCollection
def snap(h):
    return dict(shape=h.shape, bins=[np.asarray(b).tolist() for b in (h.bins if h.ndim>1 else [h.bins])], f=h.frequencies.tolist(), e2=h.errors2.tolist(), missed=np.asarray(h._missed).tolist(), dt=str(h.dtype), fdt=str(h.frequencies.dtype))
e=[0,1,2,3]; d=[0.5,1.5,1.6,2.5,7]
def failing(mk, label, op):
    x = mk(); before = snap(x)
    try:
        op(x); print(f"[no-exc] {label}: changed={snap(x)!=before}")
    except Exception as ex:
        after = snap(x)
        same = repr(after)==repr(before)
        diff = [k for k in before if repr(before[k])!=repr(after[k])]
        print(f"[{'ok ' if same else 'CHG'}] {label}: {type(ex).__name__}: {str(ex)[:70]} diff={diff}")
mk = lambda: h1(d,e)
mkf = lambda: h1(d,e,weights=[.5]*5)
ops1 = {
 "iadd other bins": lambda x: x.__iadd__(h1(d,[0,1,2,4])),
 "iadd int": lambda x: x.__iadd__(3),
 "iadd array": lambda x: x.__iadd__(np.array([1,1,1])),
 "iadd 2d": lambda x: x.__iadd__(h(np.zeros((3,2)),2,range=(0,1))),
 "isub other bins": lambda x: x.__isub__(h1(d,[0,1,2,4])),
 "isub more than there": lambda x: x.__isub__(h1(d+d,e)),
 "isub float": lambda x: x.__isub__(h1(d,e,dtype=float)),
 "isub array": lambda x: x.__isub__(np.array([1,1,1])),
 "imul neg": lambda x: x.__imul__(-1),
 "imul hist": lambda x: x.__imul__(x),
 "imul array": lambda x: x.__imul__(np.array([1,2,3])),
 "imul str": lambda x: x.__imul__("a"),
 "imul None": lambda x: x.__imul__(None),
 "imul complex": lambda x: x.__imul__(1j),
 "itruediv 0": lambda x: x.__itruediv__(0),
 "itruediv 0.0": lambda x: x.__itruediv__(0.0),
 "itruediv neg": lambda x: x.__itruediv__(-2),
 "itruediv hist": lambda x: x.__itruediv__(x),
 "itruediv array": lambda x: x.__itruediv__(np.array([1,2,3])),
 "itruediv str": lambda x: x.__itruediv__("a"),
 "fill_n weights wrong shape": lambda x: x.fill_n([.5,1.5], weights=[1,2,3]),
 "fill_n float weights into... (ok)": lambda x: x.fill_n([.5,1.5], weights=[.5,.5]),
 "fill_n str": lambda x: x.fill_n(["a","b"]),
 "fill_n scalar": lambda x: x.fill_n(3.0),
 "fill array value": lambda x: x.fill([1,2]),
 "fill str": lambda x: x.fill("a"),
 "fill weight str": lambda x: x.fill(0.5, "a"),
 "fill weight neg": lambda x: x.fill(0.5, -5),
 "fill_n weights neg": lambda x: x.fill_n([.5], weights=[-5]),
 "fill weight None": lambda x: x.fill(0.5, None),
 "fill weight array": lambda x: x.fill(0.5, np.array([1,2])),
 "fill_n dropna False nan": lambda x: x.fill_n([.5,np.nan], dropna=False),
 "set dtype bad": lambda x: x.set_dtype("U3"),
 "set dtype int16 overflow": lambda x: (x.__imul__(100000), x.set_dtype("int16")),
 "merge 2.5": lambda x: x.merge_bins(2.5, inplace=True),
 "merge 0": lambda x: x.merge_bins(0, inplace=True),
 "merge -1": lambda x: x.merge_bins(-1, inplace=True),
 "merge bad axis": lambda x: x.merge_bins(2, axis=3, inplace=True),
 "merge none": lambda x: x.merge_bins(inplace=True),
 "getitem bad": lambda x: x[10],
 "getitem reversed": lambda x: x[::-1],
 "frequencies setter neg": lambda x: setattr(x, "frequencies", [-1,0,0]),
 "frequencies setter shape": lambda x: setattr(x, "frequencies", [1,0]),
 "errors2 setter neg": lambda x: setattr(x, "errors2", [-1,0,0]),
 "select bad axis": lambda x: x.select(1,0),
 "find_bin array": lambda x: x.find_bin([1,2]),
 "normalize empty inplace": lambda x: (x.__imul__(0), x.normalize(inplace=True)),
}
for k,v in ops1.items(): failing(mk, "int1d "+k, v)
for k in ["set dtype int (frac)"]: failing(mkf, "flt1d "+k, lambda x: x.set_dtype(int))
failing(mkf, "flt1d isub more", lambda x: x.__isub__(h1(d+d,e)))
# gap + merge across gap inplace
failing(lambda: Histogram1D([[0,1],[1,2],[3,4],[4,5]],[1,2,3,4],dtype=float), "gap merge 3 inplace", lambda x: x.merge_bins(3, inplace=True))
# adaptive
mka = lambda: h1(d,"fixed_width",bin_width=1,adaptive=True)
failing(mka, "adaptive iadd diff width", lambda x: x.__iadd__(h1(d,"fixed_width",bin_width=2,adaptive=True)))
failing(mka, "adaptive iadd with missed", lambda x: x.__iadd__(h1(d,[0,1,2])))
failing(mka, "adaptive iadd shifted", lambda x: x.__iadd__(h1(d,"fixed_width",bin_width=1,bin_shift=0.5,adaptive=True)))
failing(mka, "adaptive fill_n bad weights", lambda x: x.fill_n([100.0,200.0], weights=[1,2,3]))
failing(mka, "adaptive fill str weight", lambda x: x.fill(100.0, "a"))
failing(mka, "adaptive fill inf", lambda x: x.fill(np.inf))
failing(mka, "adaptive fill nan", lambda x: x.fill(np.nan))
failing(mka, "adaptive fill_n inf", lambda x: x.fill_n([np.inf]))
# ND
mkn = lambda: (lambda x: (x.fill_n([[.5,.5],[1.5,1.5],[5,5]]), x)[1])(Histogram2D([[0,1,2],[0,1,2]]))
opsn = {
 "iadd other": lambda x: x.__iadd__(Histogram2D([[0,1,3],[0,1,2]])),
 "iadd 1d": lambda x: x.__iadd__(h1(d,e)),
 "isub more": lambda x: x.__isub__(mkn()*2),
 "isub float": lambda x: x.__isub__(mkn()*1.0),
 "imul neg": lambda x: x.__imul__(-1),
 "itruediv 0": lambda x: x.__itruediv__(0),
 "fill wrong dim": lambda x: x.fill([1,2,3]),
 "fill scalar": lambda x: x.fill(1.0),
 "fill str weight": lambda x: x.fill([.5,.5],"a"),
 "fill_n wrong cols": lambda x: x.fill_n([[1,2,3]]),
 "fill_n 1d": lambda x: x.fill_n([1,2]),
 "fill_n weights wrong": lambda x: x.fill_n([[.5,.5],[1.5,.5]], weights=[1,2,3]),
 "fill_n float weights wrong len": lambda x: x.fill_n([[.5,.5],[1.5,.5]], weights=[.5,.5,.5]),
 "fill_n weights neg": lambda x: x.fill_n([[.5,.5]], weights=[-3]),
 "merge bad": lambda x: x.merge_bins(2.5, inplace=True),
 "merge bad axis": lambda x: x.merge_bins(2, axis=5, inplace=True),
 "projection bad": lambda x: x.projection(7),
 "getitem too many": lambda x: x[0,0,0],
 "partial_normalize bad axis": lambda x: x.partial_normalize(5, inplace=True),
 "set_dtype int16 after big": lambda x: (x.__imul__(100000), x.set_dtype("int16")),
}
for k,v in opsn.items(): failing(mkn, "nd "+k, v)
mkna = lambda: h(np.array([[.5,.5],[1.5,1.5]]),"fixed_width",bin_width=1,adaptive=True)
failing(mkna, "nd adaptive fill_n bad weights", lambda x: x.fill_n([[100.,200.]], weights=[1.,2.]))
failing(mkna, "nd adaptive fill bad 2nd coord", lambda x: x.fill([100., "a"]))
failing(mkna, "nd adaptive fill nan 2nd", lambda x: x.fill([100., np.inf]))
failing(mkna, "nd adaptive iadd diff width axis1", lambda x: x.__iadd__(h(np.array([[10.5,.5]]),"fixed_width",bin_width=[1,2],adaptive=True)))
# collection
T("collection ctor diff binnings", lambda: HistogramCollection(h1(d,e), h1(d,[0,1,2,4])))
def coladd():
    c = HistogramCollection(h1(d,e)); n=len(c)
    try: c.add(h1(d,[0,1,2,4]))
    except Exception as ex: return (repr(ex), len(c)==n)
T("collection add diff", coladd)
