from util import *
import physt
from physt.types import Histogram1D, Histogram2D
from physt.io import parse_json
for dt in ["int16","int32","int64","float16","float32","float64","float128"]:
    def f():
        h = Histogram1D([0,1,2.5], [1,3], dtype=dt)
        if "float" in dt: h = Histogram1D([0,1,2.5], [1.1,3.3], errors2=[0.1,0.2], dtype=dt)
        r = parse_json(h.to_json())
        return (str(r.dtype), r.frequencies.tobytes()==h.frequencies.tobytes(), r.errors2.tobytes()==h.errors2.tobytes(), h.to_json()[60:160])
    T(dt, f)
def g():
    h = Histogram2D([[0,1,2],[0,1,2]], [[1.5,2],[3,4]], dtype="float32", missed=2.5, keep_missed=False, name="x")
    r = parse_json(h.to_json()); return (str(r.dtype), r.missed, r.keep_missed, r==h)
T("2d f32 nokeep", g)
def g2():
    h = Histogram2D([[0,1,2],[0,1,2]], [[1.5,2],[3,4]], axis_names=["a","b"], title="T", foo=[1,2,{"z":None}])
    r = parse_json(h.to_json()); return (r.meta_data, h.meta_data, r.to_json()==h.to_json())
T("2d meta", g2)
