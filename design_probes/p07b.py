from util import *
import physt, math
from physt.binnings import ideal_bin_count, _skew
rng=np.random.default_rng(0)
for n in [10, 50, 100, 1000]:
    d = rng.exponential(size=n)
    g1 = _skew(d)
    sig = math.sqrt(6*(n-2)/((n+1)*(n+3)))
    k = math.ceil(1+math.log2(n)+math.log2(1+abs(g1)/sig))
    print(n, "physt doane", ideal_bin_count(d,"doane"), "textbook", k, "numpy", len(np.histogram_bin_edges(d,"doane"))-1, "sturges", ideal_bin_count(d,"sturges"), len(np.histogram_bin_edges(d,"sturges"))-1, "sqrt", ideal_bin_count(d,"sqrt"), len(np.histogram_bin_edges(d,"sqrt"))-1, "rice", ideal_bin_count(d,"rice"), len(np.histogram_bin_edges(d,"rice"))-1)
from physt._bin_utils import find_pretty_width
for raw in [0.3, 0.35, 0.36, 1.4, 1.5, 2.2, 2.25, 2.3, 3.5, 3.6, 7, 7.1, 7.5, 44.5, 445]:
    print(raw, find_pretty_width(raw))
