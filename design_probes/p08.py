from util import *
import physt, json
from physt import h, h1, h2, h3
from physt.io import parse_json, save_json, load_json
from physt.types import Histogram1D, Histogram2D, HistogramND
from physt.binnings import *
def s1(h): return dict(cls=type(h).__name__, bt=type(h.binning).__name__, bins=h.bins.tolist(), f=h.frequencies.tolist(), e2=h.errors2.tolist(), u=h.underflow, o=h.overflow, im=h.inner_missed, km=h.keep_missed, dt=str(h.dtype), ad=h.is_adaptive(), md=h.meta_data, ire=h.binning.includes_right_edge)
a = h1([-1,0.5,1.5,2.5,9], [0,1,2,3], name="a", title="t", axis_name="x")
T("orig", lambda: s1(a))
T("rt", lambda: s1(parse_json(a.to_json())))
T("eq", lambda: parse_json(a.to_json()) == a)
T("json", lambda: a.to_json())
T("rt2 same doc", lambda: parse_json(a.to_json()).to_json() == a.to_json())
for name, kw in [("numpy", {}), ("fixed_width", dict(bin_width=0.7)), ("pretty", {}), ("integer", {}), ("quantile", dict(bin_count=3)), ("exponential", {})]:
    d = np.array([1., 2., 3.3, 4.8, 9.1])
    hh = h1(d, name, **kw)
    T("rt "+name, lambda: (lambda r: (type(r.binning).__name__, type(hh.binning).__name__, np.array_equal(r.bins, hh.bins), r==hh, r.binning.includes_right_edge, hh.binning.includes_right_edge))(parse_json(hh.to_json())))
ad = h1([1.,2.,3.], "fixed_width", bin_width=0.5, adaptive=True)
T("rt adaptive", lambda: (parse_json(ad.to_json()).is_adaptive(), ad.is_adaptive()))
fl = h1([1.,2.,3.], [0,2,4], weights=[.5,.5,.25])
T("rt float", lambda: s1(parse_json(fl.to_json())))
i16 = h1([1.,2.,3.], [0,2,4], dtype=np.int16)
T("rt int16", lambda: s1(parse_json(i16.to_json()))["dt"])
km = h1([1.,2.,3.,7], [0,2,4], keep_missed=False)
T("rt keep_missed False", lambda: (s1(parse_json(km.to_json()))["km"], s1(parse_json(km.to_json()))["md"]))
gp = h1([1.,2.,3.,7], [[0,2],[3,4]], dtype=float)
T("gap json", lambda: gp.to_json())
T("rt gap", lambda: s1(parse_json(gp.to_json())))
ce = Histogram1D([0,1,2], [1,2], errors2=[5,6], custom="zzz", custom2={"a":[1,2]})
T("rt custom", lambda: s1(parse_json(ce.to_json())))
# ND
n = Histogram2D([[0,1,2],[0,1,2,3]], name="n", axis_names=["a","b"]); n.fill_n([[0.5,0.5],[1.5,2.5],[5,5]])
def sn(h): return dict(cls=type(h).__name__, bt=[type(b).__name__ for b in h.binnings], f=h.frequencies.tolist(), e2=h.errors2.tolist(), m=h.missed, km=h.keep_missed, dt=str(h.dtype), md=h.meta_data)
T("nd orig", lambda: sn(n))
T("nd rt", lambda: sn(parse_json(n.to_json())))
T("nd eq", lambda: parse_json(n.to_json())==n)
n3 = h(np.random.default_rng(0).normal(size=(10,3)), 2, name="n3")
T("3d rt", lambda: sn(parse_json(n3.to_json())))
n4 = h(np.random.default_rng(0).normal(size=(10,4)), 2, name="n4")
T("4d rt", lambda: sn(parse_json(n4.to_json()))["cls"])
# special
pts = np.random.default_rng(0).normal(size=(10,3))
for nm, fn in [("polar", lambda: physt.polar(pts[:,0], pts[:,1])), ("radial", lambda: physt.radial(pts[:,0], pts[:,1])), ("azimuthal", lambda: physt.azimuthal(pts[:,0], pts[:,1])), ("spherical", lambda: physt.spherical(pts)), ("spherical_surface", lambda: physt.spherical_surface(pts)), ("cylindrical", lambda: physt.cylindrical(pts)), ("cylindrical_surface", lambda: physt.cylindrical_surface(pts))]:
    hh = T("make "+nm, fn)
    if hh is not None:
        T("rt "+nm, lambda: (lambda r: (type(r).__name__, r==hh, r.meta_data, hh.meta_data))(parse_json(hh.to_json())))
col = physt.collection({"x":[0.5,0.6,1.5], "y":[0.5,2.5,2.6]}, [0,1,2,3], name="cc", title="tt")
T("col rt", lambda: (lambda r: (r==col, r.name, r.title, [x.name for x in r], type(r.binning).__name__))(parse_json(col.to_json())))
T("col json again", lambda: parse_json(col.to_json()).to_json()==col.to_json())
# version
doc = json.loads(a.to_json()); doc["physt_compatible"]="99.0.0"
T("newer version", lambda: parse_json(json.dumps(doc)))
doc["physt_compatible"]="0.8.4"
T("same version", lambda: type(parse_json(json.dumps(doc))).__name__)
doc["physt_compatible"]="0.8.5"
T("0.8.5", lambda: type(parse_json(json.dumps(doc))).__name__)
doc["physt_compatible"]="0.8.4.post1"
T("0.8.4.post1", lambda: type(parse_json(json.dumps(doc))).__name__)
del doc["physt_compatible"]
T("missing compat", lambda: type(parse_json(json.dumps(doc))).__name__)
# nan missed
nm = a.copy(); nm.underflow  # int
T("nan json text", lambda: gp.to_json()[-200:])
import tempfile, os
p = tempfile.mktemp(suffix=".json"); a.to_json(p)
T("load_json", lambda: load_json(p)==a)
os.remove(p)
