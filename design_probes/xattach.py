import sys, types, functools, numpy as np, warnings
warnings.simplefilter("ignore")
import physt, physt.compat.pandas, physt.compat.polars, physt.compat.dask, physt.plotting
from physt import _construction, binnings
counts = {}
def rebind_everywhere(orig, new):
    n=0; where=[]
    for mname, mod in list(sys.modules.items()):
        if not (mname=="physt" or mname.startswith("physt.")) or mod is None: continue
        for k,v in list(vars(mod).items()):
            if v is orig:
                setattr(mod,k,new); n+=1; where.append(f"{mname}.{k}")
            elif isinstance(v, dict):
                for kk,vv in list(v.items()):
                    if vv is orig: v[kk]=new; n+=1; where.append(f"{mname}.{k}[{kk!r}]")
            elif isinstance(v, type):
                for kk,vv in list(vars(v).items()):
                    f = vv.__func__ if isinstance(vv,(staticmethod,classmethod)) else vv
                    if f is orig: where.append(f"{mname}.{k}.{kk} (class attr)")
    return n, where
def wrap(orig, name):
    @functools.wraps(orig)
    def w(*a, **k):
        counts[name]=counts.get(name,0)+1
        return orig(*a, **k)
    return w
for name in ["calculate_1d_frequencies","calculate_nd_frequencies","calculate_1d_bins","extract_1d_array","extract_weights"]:
    o=getattr(_construction,name); print(name, rebind_everywhere(o, wrap(o,name)))
for name in ["numpy_binning","fixed_width_binning","pretty_binning","static_binning"]:
    o=getattr(binnings,name); print(name, rebind_everywhere(o, wrap(o,name)))
o = physt._facade.h1; print("h1", rebind_everywhere(o, wrap(o,"h1")))
import pandas as pd, dask.array as da
h = physt.h1([1.,2,3], "fixed_width", bin_width=1.0); h.fill_n([4.,5.])
pd.Series([1.,2,3]).physt.h1(3)
physt.compat.dask.h1(da.from_array(np.arange(64.), chunks=16), "fixed_width", bin_width=10)
physt.collection({"a":[1.,2,3]}, 3)
physt.h1([1.,2.,3.], "pretty")
print(counts)
# singledispatch: extract_1d_array is a singledispatch function: dispatch registry attr
print(type(_construction.extract_1d_array), hasattr(_construction.extract_1d_array, "registry"))
