from util import *
import physt
from physt import h, h1, h2, h3
from physt.types import Histogram1D, Histogram2D, HistogramND
from physt.io import parse_json
rng=np.random.default_rng(0)
def snap(h):
    d = dict(cls=type(h).__name__, shape=h.shape, bins=[np.asarray(b).tolist() for b in (h.bins if h.ndim>1 else [h.bins])], f=h.frequencies.tolist(), e2=h.errors2.tolist(), missed=np.asarray(h._missed).tolist(), dt=str(h.dtype), md=repr(h.meta_data), ad=h.is_adaptive())
    if hasattr(h, "_stats"): d["st"]=repr(h.statistics)
    return d
def wf(h): return h.frequencies.shape == h.shape == h.errors2.shape
d2 = rng.normal(size=(50,2)); d1=d2[:,0]
def mk1(): return h1(d1, "fixed_width", bin_width=0.5, adaptive=True, name="n")
def mk2(): return h(d2, "fixed_width", bin_width=0.5, adaptive=True, name="n")
derivs1 = {
 "copy": lambda x: x.copy(), "add": lambda x: x + x, "mul": lambda x: x*2, "div": lambda x: x/2, "normalize": lambda x: x.normalize(),
 "merge": lambda x: x.merge_bins(2), "slice": lambda x: x[1:], "slice_all": lambda x: x[:], "mask": lambda x: x[np.ones(x.bin_count, bool)], "json": lambda x: parse_json(x.to_json()),
 "select_all": lambda x: x.select(0, slice(None)), "copy_nofreq": lambda x: x.copy(include_frequencies=False), "sub": lambda x: x - x*0,
}
muts = {
 "fill_far": lambda y: y.fill(50.0), "fill_n": lambda y: y.fill_n([60.0, -60.0]), "imul": lambda y: y.__imul__(3), "idiv": lambda y: y.__itruediv__(3), "iadd": lambda y: y.__iadd__(y.copy()),
 "dtype": lambda y: y.set_dtype(float), "name": lambda y: setattr(y, "name", "zz"), "axis": lambda y: setattr(y, "axis_names", ("q",)*y.ndim), "merge_inplace": lambda y: y.merge_bins(2, inplace=True), "meta": lambda y: y.meta_data.__setitem__("k", 1),
}
def run(mk, derivs):
    for dn, df in derivs.items():
        for mn, mf in muts.items():
            for who in ("derived","source"):
                src = mk()
                try: der = df(src)
                except Exception as e: print(f"[der-exc] {dn}: {e!r}"); break
                s_src, s_der = snap(src), snap(der)
                try:
                    mf(der if who=="derived" else src)
                except Exception as e:
                    print(f"[mut-exc] {dn}/{mn}/{who}: {e!r}"); continue
                other = src if who=="derived" else der
                before = s_src if who=="derived" else s_der
                after = snap(other)
                if after != before or not wf(other) or not wf(der) or not wf(src):
                    diff = [k for k in before if before[k]!=after[k]]
                    print(f"[DEP] {dn}/{mn}/mutate-{who}: other changed keys={diff} wf={wf(src)},{wf(der)} same_obj={der is src}")
            else: continue
            break
run(mk1, derivs1)
derivs2 = {"copy": lambda x: x.copy(), "add": lambda x: x+x, "mul": lambda x: x*2, "normalize": lambda x: x.normalize(), "merge": lambda x: x.merge_bins(2), "proj0": lambda x: x.projection(0), "proj1": lambda x: x.projection("axis1"),
  "sel_int": lambda x: x[0], "sel_int1": lambda x: x[:,0], "sel_slice": lambda x: x[1:], "sel_all": lambda x: x[:, :], "T": lambda x: x.T, "partial": lambda x: x.partial_normalize(0), "accumulate": lambda x: x.accumulate(0), "json": lambda x: parse_json(x.to_json()), "select_all": lambda x: x.select(0, slice(None))}
muts["fill_far"] = lambda y: y.fill(50.0) if y.ndim==1 else y.fill([50.0]*y.ndim)
muts["fill_n"] = lambda y: y.fill_n([60.0,-60.0]) if y.ndim==1 else y.fill_n([[60.0]*y.ndim, [-60.]*y.ndim])
print("---- 2D")
run(mk2, derivs2)
# collection
col = physt.collection({"x":d1, "y":d1*2}, "fixed_width", bin_width=0.5, adaptive=True)
c2 = col.copy()
s = [snap(x) for x in col]
c2["x"].fill(100.0)
print("col copy indep:", [snap(x) for x in col]==s, [wf(x) for x in c2], [wf(x) for x in col])
col["x"].fill(100.0)
print("col member fill wf:", [wf(x) for x in col])
