from util import *
import matplotlib; matplotlib.use("Agg")
import matplotlib.pyplot as plt
import physt, io, contextlib
from physt import h1, h2
from physt.types import Histogram1D, Histogram2D
from physt.plotting import plot
from physt.plotting.common import TimeTickHandler
a = Histogram1D([0,1,3,4,8], [1,0,3,4], errors2=[1,4,9,16], name="nm", title="tt", axis_name="xx")
def bars(ax): return [(p.get_x(), p.get_width(), p.get_height()) for p in ax.patches]
T("bar", lambda: (lambda ax: (bars(ax), ax.get_title(), ax.get_xlabel(), ax.get_ylabel()))(a.plot.bar()))
T("bar density", lambda: bars(a.plot.bar(density=True)))
T("bar cumulative", lambda: bars(a.plot.bar(cumulative=True)))
T("bar density+cumulative", lambda: bars(a.plot.bar(cumulative=True, density=True)))
def errb(ax):
    out=[]
    for c in ax.containers:
        if type(c).__name__=="ErrorbarContainer":
            for lc in c.lines[2]:
                out.append([seg.tolist() for seg in lc.get_segments()])
    return out
T("bar errors", lambda: errb(a.plot.bar(errors=True)))
T("bar errors density", lambda: errb(a.plot.bar(errors=True, density=True)))
T("bar errors cumulative", lambda: errb(a.plot.bar(errors=True, cumulative=True)))
T("scatter", lambda: (lambda ax: [c.get_offsets().tolist() for c in ax.collections])(a.plot.scatter()))
T("scatter errors", lambda: (lambda ax: errb(ax))(a.plot.scatter(errors=True)))
T("line", lambda: (lambda ax: [l.get_xydata().tolist() for l in ax.lines])(a.plot.line()))
T("line errors", lambda: (lambda ax: ([l.get_xydata().tolist() for l in ax.lines][:1], errb(ax)))(a.plot.line(errors=True)))
T("step", lambda: (lambda ax: [(l.get_xydata().tolist(), l.get_drawstyle()) for l in ax.lines])(a.plot.step()))
T("fill", lambda: (lambda ax: [c.get_paths()[0].vertices.tolist() for c in ax.collections])(a.plot.fill()))
T("show_values", lambda: (lambda ax: [(t.get_position(), t.get_text()) for t in ax.texts])(a.plot.bar(show_values=True)))
T("labels override", lambda: (lambda ax: (ax.get_title(), ax.get_xlabel(), ax.get_ylabel()))(a.plot.bar(title="T2", xlabel="X2", ylabel="Y2")))
T("ticks center", lambda: a.plot.bar(ticks="center").get_xticks().tolist())
T("ticks edge", lambda: a.plot.bar(ticks="edge").get_xticks().tolist())
T("map on 1d", lambda: a.plot.map())
T("unknown kind", lambda: a.plot(kind="nope"))
T("unknown backend", lambda: plot(a, backend="nope"))
T("bokeh", lambda: plot(a, backend="bokeh"))
b = Histogram2D([[0,1,3],[0,2,3,7]], [[1,0,3],[4,5,6]], name="n2", axis_names=["xa","ya"])
def rects(ax): return [((p.get_x(), p.get_y()), p.get_width(), p.get_height(), p.get_facecolor()) for p in ax.patches]
T("map", lambda: (lambda ax: (rects(ax), ax.get_title(), ax.get_xlabel(), ax.get_ylabel(), ax.get_xlim(), ax.get_ylim()))(b.plot.map()))
T("map show_zero False", lambda: len(rects(b.plot.map(show_zero=False))))
T("map show_values", lambda: (lambda ax: [(t.get_position(), t.get_text()) for t in ax.texts])(b.plot.map(show_values=True)))
T("map density", lambda: [r[3][0] for r in rects(b.plot.map(density=True))])
T("image irregular", lambda: b.plot.image())
c = Histogram2D([[0,1,2],[0,2,4,6]], [[1,0,3],[4,5,6]])
T("image", lambda: (lambda ax: [(im.get_extent(), im.get_array().tolist()) for im in ax.images])(c.plot.image()))
T("bar on 2d", lambda: b.plot.bar())
T("bar3d", lambda: type(b.plot.bar3d()).__name__)
T("polar_map", lambda: (lambda ax: [(p.get_x(), p.get_y(), p.get_width(), p.get_height()) for p in ax.patches])(physt.special_histograms.PolarHistogram([[0,1,3],[0,np.pi,2*np.pi]], [[1,2],[3,4]]).plot.polar_map()))
plt.close("all")
# plotly
T("plotly bar", lambda: (lambda f: [(list(t.x), list(t.y), list(t.width)) for t in f.data])(a.plot(backend="plotly", kind="bar")))
T("plotly bar density", lambda: (lambda f: [list(t.y) for t in f.data])(a.plot(backend="plotly", kind="bar", density=True)))
T("plotly line", lambda: (lambda f: [(list(t.x), list(t.y), t.mode) for t in f.data])(a.plot(backend="plotly", kind="line")))
T("plotly scatter cumulative", lambda: (lambda f: [(list(t.x), list(t.y), t.mode) for t in f.data])(a.plot(backend="plotly", kind="scatter", cumulative=True)))
T("plotly map", lambda: (lambda f: [(np.asarray(t.z).tolist(), t.x, t.y) for t in f.data])(b.plot(backend="plotly", kind="map")))
T("plotly bar on 2d", lambda: b.plot(backend="plotly", kind="bar"))
T("plotly map on 1d", lambda: a.plot(backend="plotly", kind="map"))
# ascii
def cap(f):
    s=io.StringIO()
    with contextlib.redirect_stdout(s): f()
    return s.getvalue()
T("ascii", lambda: cap(lambda: a.plot(backend="ascii")))
T("ascii values", lambda: cap(lambda: a.plot(backend="ascii", kind="hbar", show_values=True, width=20)))
T("ascii map", lambda: cap(lambda: b.plot(backend="ascii", kind="map"))[:80])
T("ascii hbar 2d", lambda: b.plot(backend="ascii", kind="hbar"))
# time ticks
t = Histogram1D(np.arange(0, 7200, 600), np.ones(11))
T("ticks auto", lambda: TimeTickHandler()(t, 0, 6600))
T("ticks 30min", lambda: TimeTickHandler("30m")(t, 100, 6600))
T("ticks edge", lambda: TimeTickHandler("edge")(t, 0, 6600))
T("ticks center", lambda: TimeTickHandler("center")(t, 0, 6600))
T("ticks 1h", lambda: TimeTickHandler("1h")(t, -3700, 6600))
T("ticks 0.5s", lambda: TimeTickHandler("0.5s")(t, 0, 3))
T("ticks day", lambda: TimeTickHandler("1d")(t, 0, 86400*3))
T("bar tick_handler", lambda: (lambda ax: (ax.get_xticks().tolist(), [l.get_text() for l in ax.get_xticklabels()]))(t.plot.bar(tick_handler=TimeTickHandler("30m"))))
