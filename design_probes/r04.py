from util import *
import physt
from physt import h1, h
rng=np.random.default_rng(4)
bad={}
def rec(k, ok, ex=None):
    s=bad.setdefault(k,[0,0,[]]); s[0]+=1
    if not ok:
        s[1]+=1
        if len(s[2])<2: s[2].append(ex)
for trial in range(300):
    dim=int(rng.integers(2,4)); w=[float(rng.choice([1.0,0.5,0.1,0.3,2.5])) for _ in range(dim)]
    hh=h(None,"fixed_width",bin_width=w,adaptive=True,dim=dim)
    pts=[]
    for step in range(int(rng.integers(1,8))):
        if rng.random()<0.5:
            p=[float(rng.integers(-30,30))*w[i]*rng.choice([1,0.5]) for i in range(dim)]
            try: r=hh.fill(p)
            except Exception as ex: rec("fill exc", False, (repr(ex)[:80], p, w)); continue
            pts.append(p)
            rec("fill returns in-range idx", r is not None and all(0<=ri<s for ri,s in zip(r,hh.shape)), (r,p,w,hh.shape))
        else:
            m=int(rng.integers(0,5)); P=[[float(rng.integers(-30,30))*w[i]*rng.choice([1,0.5]) for i in range(dim)] for _ in range(m)]
            try: hh.fill_n(np.array(P).reshape(m,dim))
            except Exception as ex: rec("fill_n exc", False, (repr(ex)[:80], P, w)); continue
            pts+=P
        wf = hh.frequencies.shape==hh.shape==hh.errors2.shape
        rec("wellformed", wf, (hh.frequencies.shape, hh.shape))
        rec("total==n & no missed", hh.total==len(pts) and hh.missed==0, (hh.total,len(pts),hh.missed,w,pts[-3:]))
        if pts and wf:
            ok=True
            for p in pts:
                ix=hh.find_bin(p)
                if ix is None: ok=False; break
            rec("every pt in a bin", ok, (p,w))
for k,v in bad.items(): print(f"{k:28s} n={v[0]:4d} bad={v[1]:4d} {v[2] if v[1] else ''}")
