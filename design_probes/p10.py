from util import *
import physt
from physt import h, h1, h2, h3
from physt.types import Histogram1D, Histogram2D, HistogramND
rng=np.random.default_rng(0)
def s1(h): return dict(bins=h.bins.tolist(), f=h.frequencies.tolist(), e2=h.errors2.tolist(), u=h.underflow, o=h.overflow, bt=type(h.binning).__name__, st=h.statistics.weight)
a = Histogram1D([0,1,3,4,8,9,10,12], [1,2,3,4,5,6,7], errors2=[1,1,2,2,3,3,4], underflow=2, overflow=3)
for amt in [1,2,3,7,8,100]:
    T(f"merge {amt}", lambda: s1(a.merge_bins(amt)))
T("merge 0", lambda: s1(a.merge_bins(0)))
T("merge -1", lambda: s1(a.merge_bins(-1)))
T("merge 2.5", lambda: s1(a.merge_bins(2.5)))
T("merge 2.0", lambda: s1(a.merge_bins(2.0)))
T("merge None", lambda: s1(a.merge_bins()))
T("merge '2'", lambda: s1(a.merge_bins("2")))
T("a after", lambda: s1(a))
c=a.copy(); c.merge_bins(2, inplace=True)
T("inplace", lambda: s1(c))
g = Histogram1D([[0,1],[1,2],[3,4],[4,5]], [1,2,3,4], dtype=float)
T("gap merge 2", lambda: s1(g.merge_bins(2)))
T("gap merge 3", lambda: s1(g.merge_bins(3)))
T("gap merge 4", lambda: s1(g.merge_bins(4)))
for mf in [0, 1, 3, 5, 6, 10, 100]:
    T(f"min_freq {mf}", lambda: s1(a.merge_bins(min_frequency=mf)))
T("min_freq + amount", lambda: s1(a.merge_bins(2, min_frequency=5)))
z = Histogram1D([0,1,2,3,4,5], [0,0,5,0,0])
for mf in [1,5,6]: T(f"zeros min_freq {mf}", lambda: s1(z.merge_bins(min_frequency=mf)))
# ND
n = HistogramND([[0,1,2,3,4],[0,2,4,6],[0,1,2]], rng.integers(0,5,size=(4,3,2)), missed=3)
def sn(h): return dict(shape=h.shape, bins=[b.tolist() for b in h.bins], tot=h.total, m=h.missed)
T("nd merge 2 all", lambda: sn(n.merge_bins(2)))
T("nd merge 2 ax1", lambda: (lambda m: (sn(m), np.array_equal(m.frequencies[:,0,:], n.frequencies[:,0:2,:].sum(axis=1)), np.array_equal(m.frequencies[:,1,:], n.frequencies[:,2,:])))(n.merge_bins(2, axis=1)))
T("nd merge axis name", lambda: sn(n.merge_bins(2, axis="axis2")))
T("nd merge bad axis", lambda: sn(n.merge_bins(2, axis=7)))
T("nd min_freq ax0", lambda: sn(n.merge_bins(min_frequency=12, axis=0)))
T("nd after", lambda: sn(n))
# adaptive / fixed width
fw = h1(rng.normal(size=100), "fixed_width", bin_width=0.5, adaptive=True)
T("fw merge", lambda: (lambda m: (type(m.binning).__name__, m.is_adaptive(), m.total, fw.total, m.bins[0].tolist(), fw.bins[0].tolist()))(fw.merge_bins(2)))
T("stats after merge", lambda: (fw.merge_bins(2).statistics.weight, fw.statistics.weight))
