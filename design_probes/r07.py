from util import *
import physt, math
from physt.binnings import *
rng=np.random.default_rng(11)
def wf(b):
    bins=b.bins
    return bins.ndim==2 and bins.shape[1]==2 and (bins[:,0]<bins[:,1]).all() and (bins[1:,0]>=bins[:-1,1]).all()
stats={}
def rec(k, ok, ex=None):
    s=stats.setdefault(k,[0,0,[]]); s[0]+=1
    if not ok:
        s[1]+=1
        if len(s[2])<3: s[2].append(ex)
def myq(d,q):
    s=sorted(d); n=len(s); pos=q*(n-1); lo=int(math.floor(pos)); hi=min(lo+1,n-1); fr=pos-lo
    return s[lo]+(s[hi]-s[lo])*fr
for trial in range(1500):
    n=int(rng.integers(2,60)); scale=10.0**rng.integers(-7,8); off=rng.choice([0,0,1,-1])*10.0**rng.integers(0,8)
    kind=rng.integers(0,4)
    if kind==0: d=rng.normal(size=n)*scale+off
    elif kind==1: d=rng.integers(-20,20,size=n)*scale+off
    elif kind==2: d=np.round(rng.uniform(-5,5,size=n),1)*scale+off
    else: d=rng.exponential(size=n)*scale+off
    if d.min()==d.max(): continue
    k=int(rng.integers(1,40))
    # numpy
    try:
        b=numpy_binning(d,k); rec("numpy wf", wf(b)); rec("numpy==np", np.array_equal(b.numpy_bins, np.histogram_bin_edges(d,k)), (d.tolist()[:5],k)); rec("numpy covers", b.first_edge<=d.min() and b.last_edge>=d.max(), (d.min(),d.max(),b.first_edge,b.last_edge,k))
    except Exception as e: rec("numpy exc", False, repr(e))
    # fixed width
    w=float(rng.choice([0.1,0.2,0.3,0.7,1.0,2.5,1/3]))*scale
    try:
        if (d.max()-d.min())/w>5000: raise OverflowError('skip')
        b=fixed_width_binning(d,bin_width=w); e=b.numpy_bins
        rec("fw wf", wf(b)); rec("fw covers", e[0]<=d.min() and (d.max()<e[-1]), (w,d.min(),d.max(),e[0],e[-1]))
        rec("fw widths", np.allclose(np.diff(e), w, rtol=1e-9, atol=0))
        rec("fw grid", np.allclose(e/w, np.round(e/w), atol=1e-6), (w,e[:3].tolist()))
        rec("fw minimal", e[1]>d.min() and e[-2]<=d.max(), (w,d.min(),d.max(),e[:2].tolist(),e[-2:].tolist()))
    except OverflowError: pass
    except Exception as ex: rec("fw exc", False, repr(ex))
    try:
        b=pretty_binning(d,k); e=b.numpy_bins; w=b.bin_width
        rec("pretty wf", wf(b)); rec("pretty covers", e[0]<=d.min() and d.max()<e[-1] or d.max()==e[-1], (w,d.min(),d.max(),e[0],e[-1]))
        m=w/10.0**math.floor(math.log10(w)+1e-12); rec("pretty family", any(abs(m-x)<1e-9*x for x in (1,2,2.5,5,10)), (w,m))
        raw=(d.max()-d.min())/k
        cands=[x*10.0**p for p in range(-12,13) for x in (1,2,2.5,5)]
        lin=min(cands,key=lambda c:abs(c-raw)); log=min(cands,key=lambda c:abs(math.log(c/raw)))
        rec("pretty nearest", abs(w-lin)<1e-9*w or abs(w-log)<1e-9*w, (raw,w,lin,log))
    except Exception as ex: rec("pretty exc", False, repr(ex))
    try:
        if (d.max()-d.min())>5000: raise OverflowError('skip')
        b=integer_binning(d); e=b.numpy_bins
        rec("int wf", wf(b)); rec("int covers", e[0]<=d.min() and d.max()<e[-1], (d.min(),d.max(),e[0],e[-1])); rec("int half", np.allclose((e-0.5), np.round(e-0.5), atol=1e-6*max(1,abs(e).max())), e[:3].tolist())
    except OverflowError: pass
    except Exception as ex: rec("int exc", False, repr(ex)[:80])
    try:
        b=quantile_binning(d,bin_count=min(k,5)); e=b.numpy_bins
        qs=np.linspace(0,1,min(k,5)+1); mine=np.array([myq(d,q) for q in qs])
        rec("quantile wf", wf(b)); rec("quantile==mine", np.allclose(e,mine,rtol=1e-12,atol=1e-12*abs(d).max()), (e.tolist(),mine.tolist()))
    except ValueError as ex: rec("quantile refused", True)
    dp=np.abs(d)+scale*1e-3
    try:
        b=exponential_binning(dp,k); e=b.numpy_bins
        rec("exp wf", wf(b)); r=e[1:]/e[:-1]; rec("exp ratio", np.allclose(r,r[0],rtol=1e-9)); rec("exp covers~", e[0]<=dp.min()*(1+1e-9) and e[-1]>=dp.max()*(1-1e-9), (dp.min(),dp.max(),e[0],e[-1]))
    except Exception as ex: rec("exp exc", False, repr(ex)[:80])
for k,v in stats.items(): print(f"{k:18s} n={v[0]:5d} bad={v[1]:5d} {v[2][:2] if v[1] else ''}")
