from util import *
import physt
from physt import h1
a=h1([0.5,1.5,2.5,2.6],[0,1,2,3]); b=a[1:]
print(np.shares_memory(a.frequencies,b.frequencies), np.shares_memory(a.errors2,b.errors2))
b.fill(1.5); print("parent after child fill:", a.frequencies, a.errors2, "child:", b.frequencies)
a.fill(2.5); print("child after parent fill:", b.frequencies)
c=a[np.array([True,False,True])]; print("mask shares:", np.shares_memory(a.frequencies,c.frequencies))
d=a[:]; print("a[:] is a:", d is a, np.shares_memory(a.frequencies,d.frequencies))
# float weights: fill with float weight coerces dtype -> astype -> new array
e=a[1:]; e.fill(1.5,0.5); print("after float fill shares:", np.shares_memory(a.frequencies,e.frequencies), a.frequencies)
