from util import *
import physt
from physt import h, h1
from physt.types import Histogram1D, Histogram2D
e=[0,1,2,3]
T("int16 fill_n 40000", lambda: (lambda x: (x.fill_n(np.full(40000,.5)), x.frequencies.tolist(), str(x.dtype))[1:])(Histogram1D(e,dtype="int16")))
T("int16 h1 40000", lambda: (lambda x: (x.frequencies.tolist(), str(x.dtype)))(h1(np.full(40000,.5), e, dtype="int16")))
T("int16 fill x1", lambda: (lambda x: (x.fill(.5), str(x.dtype))[1])(Histogram1D(e,dtype="int16")))
T("f16 fill_n 5000", lambda: (lambda x: (x.fill_n(np.full(5000,.5)), x.frequencies.tolist(), str(x.dtype))[1:])(Histogram1D(e,dtype="float16")))
T("int16+int16 overflow", lambda: (lambda x: ((x+x).frequencies.tolist(), str((x+x).dtype)))(Histogram1D(e,[30000,1,1],dtype="int16")))
T("int16 e2 w=200", lambda: (lambda x: (x.fill_n([.5], weights=np.int16([200])), x.frequencies.tolist(), x.errors2.tolist(), str(x.dtype))[1:])(Histogram1D(e,dtype="int16")))
