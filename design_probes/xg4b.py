import numpy as np, warnings
warnings.simplefilter("ignore")
from physt.compat import geant4
h = geant4.load_csv("/repo/tests/data/geant-h2.csv")
rows=[l.strip().split(",") for l in open("/repo/tests/data/geant-h2.csv") if not l.startswith("#")]
d=np.array([list(map(float,r)) for r in rows[1:] if len(r)==7])
# ground truth from the file's own moments: cell (ix,iy) content
truth=np.zeros((50,50))
for k,r in enumerate(d):
    if r[1]>0:
        xm=r[3]/r[1]; ym=r[5]/r[1]
        ix=int(np.floor((xm+1000)/40)); iy=int(np.floor((ym+300)/12))
        if 0<=ix<50 and 0<=iy<50: truth[ix,iy]+=r[1]
print("total", h.total, truth.sum())
print("physt == truth:", np.array_equal(h.frequencies, truth), " physt == truth.T:", np.array_equal(h.frequencies, truth.T))
print([b.numpy_bins[[0,-1]].tolist() for b in h.binnings])
