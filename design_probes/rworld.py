"""Throw-away prototype of the world monitor: random op histories over a small population."""
from util import *
import physt, random, collections
from physt import h1, h
from physt.types import Histogram1D, Histogram2D, HistogramND, HistogramBase
from physt.io import parse_json
SEED=int(__import__("os").environ.get("SEED","0"))
rng=random.Random(SEED)
def snap(x):
    bins = x.bins if x.ndim>1 else [x.bins]
    d=dict(cls=type(x).__name__, bins=tuple(np.asarray(b,float).tobytes() for b in bins), shape=x.shape,
           f=(str(x.frequencies.dtype), x.frequencies.tobytes()), e2=(str(x.errors2.dtype), x.errors2.tobytes()),
           missed=np.asarray(x._missed,float).tobytes(), dt=str(x.dtype), md=repr(x.meta_data), ad=x.is_adaptive(), km=x.keep_missed)
    if hasattr(x,"_stats"): d["st"]=repr(x._stats)
    return d
def imap(x):
    """interval map for nonzero cells"""
    out={}
    bins = x.bins if x.ndim>1 else [x.bins]
    F=np.asarray(x.frequencies,float); E=np.asarray(x.errors2,float)
    for idx in zip(*np.nonzero((F!=0)|(E!=0))):
        key=tuple((float(bins[a][i][0]),float(bins[a][i][1])) for a,i in enumerate(idx))
        out[key]=(F[idx],E[idx])
    return out
def wellformed(x):
    probs=[]
    if not (x.frequencies.shape==x.shape==x.errors2.shape): probs.append(f"shape f={x.frequencies.shape} e2={x.errors2.shape} bins={x.shape}")
    if x.dtype!=x.frequencies.dtype or x.dtype!=x.errors2.dtype: probs.append(f"dtype {x.dtype} f={x.frequencies.dtype} e2={x.errors2.dtype}")
    if (np.asarray(x.errors2)<0).any(): probs.append("neg e2")
    if (np.asarray(x.frequencies)<0).any(): probs.append("neg f")
    for b in (x.bins if x.ndim>1 else [x.bins]):
        b=np.asarray(b,float)
        if len(b) and (not (b[:,0]<b[:,1]).all() or not (b[1:,0]>=b[:-1,1]).all()): probs.append("bins not rising")
    return probs
W=[0.5,1.0,0.25]
def mk():
    k=rng.random(); w=rng.choice(W); n=rng.randint(1,12)
    d1=[rng.randint(-12,12)*w/2 for _ in range(n)]
    if k<0.25: return h1(d1 or None,"fixed_width",bin_width=w,adaptive=True)
    if k<0.5: return h1(d1,[-4,-2,0,1,3,6])
    if k<0.6: return h1(d1,[-4,-2,0,1,3,6],weights=[rng.randint(1,8)/8 for _ in d1])
    d2=np.array([[rng.randint(-12,12)*w/2, rng.randint(-12,12)*w/2] for _ in range(n)]).reshape(n,2)
    if k<0.8: return h(d2 if n else None,"fixed_width",bin_width=w,adaptive=True,dim=2)
    return h(d2,[[-6,-2,0,1,6.5],[-6,0,6.5]])
def val(x): 
    return rng.randint(-30,30)*0.25 if x.ndim==1 else [rng.randint(-30,30)*0.25 for _ in range(x.ndim)]
# ops: (name, kind, fn)   kind: 'derive' -> returns new object; 'mutate' -> target mutated
def other(pop,x):
    c=[y for y in pop if y.ndim==x.ndim and y is not x]; return rng.choice(c) if c else x.copy()
OPS=[
 ("copy","derive",lambda x,p: x.copy()),
 ("add","derive",lambda x,p: x+other(p,x)),
 ("mul","derive",lambda x,p: x*rng.choice([2,0.5,3])),
 ("div","derive",lambda x,p: x/rng.choice([2,4])),
 ("normalize","derive",lambda x,p: x.normalize()),
 ("merge","derive",lambda x,p: x.merge_bins(rng.randint(1,3))),
 ("slice","derive",lambda x,p: x[1:] if x.ndim==1 else x[1:,:]),
 ("proj","derive",lambda x,p: x.projection(rng.randrange(x.ndim)) if x.ndim>1 else x.copy()),
 ("selint","derive",lambda x,p: x[0] if x.ndim>1 else x.copy()),
 ("T","derive",lambda x,p: x.T if isinstance(x,Histogram2D) else x.copy()),
 ("json","derive",lambda x,p: parse_json(x.to_json())),
 ("copy0","derive",lambda x,p: x.copy(include_frequencies=False)),
 ("sub","derive",lambda x,p: x-other(p,x)),
 ("fill","mutate",lambda x,p: x.fill(val(x))),
 ("fill_w","mutate",lambda x,p: x.fill(val(x), rng.choice([2,0.5]))),
 ("fill_n","mutate",lambda x,p: x.fill_n([val(x) for _ in range(rng.randint(1,4))])),
 ("iadd","mutate",lambda x,p: x.__iadd__(other(p,x))),
 ("isub","mutate",lambda x,p: x.__isub__(other(p,x))),
 ("imul","mutate",lambda x,p: x.__imul__(rng.choice([2,0.5,-1,"a"]))),
 ("idiv","mutate",lambda x,p: x.__itruediv__(rng.choice([2,0.5]))),
 ("dtype","mutate",lambda x,p: x.set_dtype(rng.choice(["float64","int64","int16","float32"]))),
 ("name","mutate",lambda x,p: setattr(x,"name",f"n{rng.randint(0,9)}")),
 ("merge_in","mutate",lambda x,p: x.merge_bins(rng.choice([2,2.5,3]),inplace=True)),
 ("fill_bad","mutate",lambda x,p: x.fill_n([val(x)]*2, weights=[1,2,3])),
 ("iadd_bad","mutate",lambda x,p: x.__iadd__(rng.choice([3, np.ones(2)]))),
]
records=collections.Counter(); examples={}
def report(kind, op, detail):
    key=(kind, op, detail); records[key]+=1; examples.setdefault(key, None)
for hist_i in range(int(__import__("os").environ.get("N","300"))):
    pop=[mk() for _ in range(3)]
    for step in range(10):
        name,kind,fn=rng.choice(OPS); x=rng.choice(pop)
        before={id(y):snap(y) for y in pop}; im_before=imap(x); missed_before=np.asarray(x._missed,float).copy()
        try:
            r=fn(x,pop); exc=None
        except Exception as ex:
            r=None; exc=ex
        taint=[]
        for y in pop:
            prs=wellformed(y)
            if prs:
                report("illformed", name, f"{type(y).__name__}:{prs[0].split(' ')[0]}:{'target' if y is x else 'other'}"); taint.append(y); continue
            if y is not x or kind=="derive":
                s2=snap(y)
                if s2!=before[id(y)]:
                    diff=[k for k in before[id(y)] if before[id(y)][k]!=s2[k]]
                    report("dependence", name, f"{'operand' if y is x else 'bystander'} changed {diff}"); taint.append(y)
        if exc is not None and kind=="mutate" and not any(t is x for t in taint):
            try:
                im_after=imap(x)
                grown={k for k in im_after if k not in im_before}
                if any(im_after.get(k)!=v for k,v in im_before.items()) or grown or not np.array_equal(np.nan_to_num(missed_before,nan=-1), np.nan_to_num(np.asarray(x._missed,float),nan=-1)):
                    report("non-atomic failure", name, type(exc).__name__+":"+str(exc)[:50]); taint.append(x)
            except Exception as e2: report("snapshot-after-failure exc", name, type(e2).__name__); taint.append(x)
        if taint:
            pop=[mk() for _ in range(3)]   # restart population: shared state may involve others
            continue
        if isinstance(r, HistogramBase) and kind=="derive" and r is not x:
            prs=wellformed(r)
            if prs: report("illformed-result", name, prs[0])
            else:
                pop.append(r)
                if len(pop)>6: pop.pop(0)
for k,v in sorted(records.items(), key=lambda kv:-kv[1]): print(v, k)
