import numpy as np
rows=[l.strip().split(",") for l in open("/repo/tests/data/geant-h2.csv") if not l.startswith("#")]
rows=[list(map(float,r)) for r in rows[1:] if len(r)==7]
d=np.array(rows); print(d.shape)
nx=ny=50
idx=np.arange(len(d)); nz=d[:,1]>0
xm=d[nz,3]/d[nz,1]; ym=d[nz,5]/d[nz,1]
fast=idx[nz]%52; slow=idx[nz]//52
# x axis: -1000..1000 (width 40), y: -300..300 (width 12)
xb=np.floor((xm+1000)/40)+1; yb=np.floor((ym+300)/12)+1
print("x matches fast index:", np.mean(xb==fast), " x matches slow:", np.mean(xb==slow))
print("y matches fast index:", np.mean(yb==fast), " y matches slow:", np.mean(yb==slow))
