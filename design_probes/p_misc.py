from util import *
import physt
from physt import h1, h
from physt.types import Histogram1D, Histogram2D
# sorted index arrays? mask vs list
a = Histogram1D([0,1,3,4,8,9], [1,2,3,4,5])
T("tuple index", lambda: a[(0,2)])
# ND right-edge inclusion through h(): numpy binning includes right edge
d = np.array([[0.,0.],[1.,1.],[2.,2.]])
T("h int bins last edge", lambda: (h(d,2).frequencies.tolist(), h(d,2).missed))
T("h fixed_width last edge", lambda: (h(d,"fixed_width",bin_width=1.0).frequencies.tolist(), [b.numpy_bins.tolist() for b in h(d,"fixed_width",bin_width=1.0).binnings]))
# h1 range kw
T("h1 range", lambda: (h1([0.,1,2,3,4,5], 2, range=(1,3)).numpy_bins.tolist(), h1([0.,1,2,3,4,5], 2, range=(1,3)).frequencies.tolist(), h1([0.,1,2,3,4,5], 2, range=(1,3)).underflow, h1([0.,1,2,3,4,5], 2, range=(1,3)).overflow))
# statistics after range
T("int data", lambda: h1(np.array([1,2,3]), [0,2,4]).frequencies.tolist())
T("bool data", lambda: h1(np.array([True,False]), [0,0.5,1]).frequencies.tolist())
T("list bins warns", lambda: h1([1.,2], [0,1,2,3]).frequencies.tolist())
# adaptive ND find_bin ire
hh = h(None, "fixed_width", bin_width=1.0, adaptive=True, dim=2)
T("nd adaptive fill", lambda: (hh.fill([1.0,2.0]), hh.fill([3.0, -1.0]), hh.frequencies.tolist(), [b.numpy_bins.tolist() for b in hh.binnings], hh.missed))
# Histogram1D ctor with frequencies negative
T("neg freq ctor", lambda: Histogram1D([0,1,2],[-1,2]))
T("errors2 neg ctor", lambda: Histogram1D([0,1,2],[1,2],errors2=[-1,1]))
T("shape mismatch ctor", lambda: Histogram1D([0,1,2],[1,2,3]))
T("nd axis_names wrong", lambda: Histogram2D([[0,1],[0,1]], axis_names=["a"]))
