from util import *
import physt
from physt import h, h1, h2, h3
from physt.types import Histogram1D, Histogram2D, HistogramND
def s1(h): return dict(bins=h.numpy_bins.tolist(), f=h.frequencies.tolist(), e2=h.errors2.tolist(), u=h.underflow, o=h.overflow, dt=str(h.dtype), st=h.statistics, md=h.meta_data)
edges=[0,1,2,3]
A=[-1,0.5,1.5,2.5,9]; B=[0.1,0.2,2.9,3,3.5]
a=h1(A,edges,name="a"); b=h1(B,edges,name="b")
T("a+b", lambda: s1(a+b))
T("h(A+B)", lambda: s1(h1(A+B,edges)))
T("a unchanged", lambda: s1(a))
T("sum", lambda: s1(sum([a,b,a])))
T("a+b float", lambda: s1(a + h1(B,edges,weights=np.ones(5)*.5)))
T("a+2", lambda: s1(a+2))
T("a+array", lambda: s1(a+np.array([1,1,1])))
T("a+other bins", lambda: s1(a+h1(B,[0,1,2,4])))
T("a+2d", lambda: a+h(np.zeros((3,2)), 2 , range=(0,1)))
T("a + close bins", lambda: s1(a+h1(B,[0,1,2,3+1e-9])))
# adaptive
aa=h1(A,"fixed_width",bin_width=1,adaptive=True); bb=h1([10,11,-5],"fixed_width",bin_width=1,adaptive=True)
T("adaptive a+b", lambda: s1(aa+bb))
T("adaptive b+a", lambda: s1(bb+aa))
T("adaptive direct", lambda: s1(h1(A+[10,11,-5],"fixed_width",bin_width=1,adaptive=True)))
T("aa unchanged", lambda: s1(aa))
T("bb unchanged", lambda: s1(bb))
T("adaptive + nonadaptive", lambda: s1(aa+h1([10,11,-5],"fixed_width",bin_width=1)))
T("nonadaptive + adaptive", lambda: s1(h1([10,11,-5],"fixed_width",bin_width=1)+aa))
T("adaptive + static compatible", lambda: s1(aa+h1([10,11,-5],[-5,-4, 10,11,12])))
T("adaptive different width", lambda: s1(aa+h1([10,11,-5],"fixed_width",bin_width=2,adaptive=True)))
T("adaptive empty + b", lambda: s1(h1(None,"fixed_width",bin_width=1,adaptive=True)+bb))
T("b + adaptive empty", lambda: s1(bb+h1(None,"fixed_width",bin_width=1,adaptive=True)))
T("adaptive width .1", lambda: s1(h1([0.35,1.75],"fixed_width",bin_width=0.1,adaptive=True)+h1([2.35],"fixed_width",bin_width=0.1,adaptive=True))["f"])
# ND
pa=np.array([[0.5,0.5],[1.5,1.5],[5,5]]); pb=np.array([[0.5,1.5],[-1,0]])
b2=[[0,1,2],[0,1,2]]
na=h(pa,b2); nb=h(pb,b2)
def sn(h): return dict(f=h.frequencies.tolist(), e2=h.errors2.tolist(), m=h.missed, dt=str(h.dtype))
T("nd a+b", lambda: sn(na+nb))
na2=Histogram2D(b2); na2.fill_n(pa); nb2=Histogram2D(b2); nb2.fill_n(pb)
T("nd filled a+b (missed)", lambda: sn(na2+nb2))
T("nd a unchanged", lambda: sn(na2))
T("nd adaptive", lambda: sn(h(pa,"fixed_width",bin_width=1,adaptive=True)+h(pb,"fixed_width",bin_width=1,adaptive=True)))
T("nd adaptive bins", lambda: [b.numpy_bins.tolist() for b in (h(pa,"fixed_width",bin_width=1,adaptive=True)+h(pb,"fixed_width",bin_width=1,adaptive=True)).binnings])
T("nd 2d+3d", lambda: na + h(np.zeros((3,3)),2,range=(0,1)))
# collection sum
T("collection sum", lambda: s1(physt.collection({"x":A,"y":B}, edges).sum()))
T("0+a is a", lambda: (0+a) is a)
T("free arith a+arr", lambda: (lambda: s1(a+np.array([1,1,1])))() if physt.config.config.__class__ else None)
with physt.config.config.enable_free_arithmetics():
    T("free a+arr", lambda: s1(a+np.array([1,1,1])))
    T("free a+2", lambda: s1(a+2))
# dask
import physt.compat.dask as pd_
T("dask h1", lambda: s1(pd_.h1(np.arange(100.)*0.37, "fixed_width", bin_width=5)))
T("plain adaptive same", lambda: s1(h1(np.arange(100.)*0.37, "fixed_width", bin_width=5, adaptive=True)))
