from util import *
import physt
from physt import h1, h
T("1d adaptive fill_n []", lambda: (lambda x: (x.fill_n([]), x.total))(h1([1.,2.],"fixed_width",bin_width=1,adaptive=True)))
T("1d adaptive empty fill_n []", lambda: (lambda x: (x.fill_n([]), x.total))(h1(None,"fixed_width",bin_width=1,adaptive=True)))
T("1d adaptive fill_n all nan", lambda: (lambda x: (x.fill_n([np.nan]), x.total))(h1([1.,2.],"fixed_width",bin_width=1,adaptive=True)))
T("nd adaptive fill_n empty", lambda: (lambda x: (x.fill_n(np.zeros((0,2))), x.total))(h(np.array([[1.,2.]]),"fixed_width",bin_width=1,adaptive=True)))
T("nd adaptive fill_n all nan", lambda: (lambda x: (x.fill_n(np.array([[np.nan,1.]])), x.total))(h(np.array([[1.,2.]]),"fixed_width",bin_width=1,adaptive=True)))
T("h1 adaptive from empty data", lambda: h1([], "fixed_width", bin_width=1, adaptive=True).bin_count)
T("dask all-nan chunk", lambda: __import__("physt.compat.dask").compat.dask.h1(__import__("dask.array").array.from_array(np.array([1.,2.,np.nan,np.nan]),chunks=2),"fixed_width",bin_width=1).total)
