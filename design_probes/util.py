import numpy as np, warnings, traceback
warnings.simplefilter("ignore")
def T(label, fn):
    try:
        r = fn()
        print(f"[ok ] {label}: {r}")
        return r
    except Exception as e:
        tb = traceback.extract_tb(e.__traceback__)[-1]
        print(f"[EXC] {label}: {type(e).__name__}: {e}  @ {tb.filename.split('/')[-1]}:{tb.lineno}")
