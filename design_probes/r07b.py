from util import *
from physt.binnings import *
for lo,hi,k in [(1e7+1e-7, 1e7+3e-7, 5), (1e7, 1e7+1e-6, 30), (100.0, 100.0+1e-11, 20)]:
    d=np.array([lo,hi]); b=exponential_binning(d,k); e=b.numpy_bins
    print(lo,hi,k, "rising:", (np.diff(e)>0).all(), "ndup:", (np.diff(e)<=0).sum(), e[0]-lo, e[-1]-hi)
    b2=numpy_binning(d,k); e2=b2.numpy_bins; print("   numpy rising", (np.diff(e2)>0).all(), e2[0]-lo, e2[-1]-hi)
