from util import *
import physt
from physt import h, h1, h2, h3
from physt.types import Histogram1D, Histogram2D, HistogramND
rng=np.random.default_rng(0)
def s1(h): return h if not isinstance(h, Histogram1D) else dict(bins=h.bins.tolist(), f=h.frequencies.tolist(), e2=h.errors2.tolist(), u=h.underflow, o=h.overflow, km=h.keep_missed, bt=type(h.binning).__name__, dt=str(h.dtype), nm=h.name, ax=h.axis_name, md=h.meta_data)
a = Histogram1D([0,1,3,4,8,9], [1,2,3,4,5], errors2=[1,1,2,2,3], underflow=2, overflow=3, name="nm", axis_name="ax", title="tt", custom=5)
exprs = ["0","-1","4","5","-6","slice(None)","slice(1,3)","slice(1,None)","slice(None,2)","slice(-2,None)","slice(None,-1)","slice(2,2)","slice(3,1)","slice(0,10)","slice(None,None,1)","slice(None,None,2)","slice(None,None,-1)","slice(4,1,-1)","np.array([True,False,True,False,True])","np.array([True,False])","np.array([0,2])","np.array([2,0])","np.array([1,1])","[0,2]","np.array([], dtype=int)", "np.array([0,1,2])", "np.int64(1)", "(1,)", "1.0", "np.array([7])", "slice(0,0)", "Ellipsis"]
for e in exprs:
    T("a["+e+"]", lambda: s1(a[eval(e)]))
T("a after", lambda: s1(a))
T("select", lambda: (a.select(0, slice(None)) is a, s1(a.select(0, 1)), ))
T("select force_copy", lambda: a.select(0, slice(None), force_copy=True) is a)
T("select axis 1", lambda: a.select(1, 0))
nk = Histogram1D([0,1,3,4], [1,2,3], keep_missed=False)
T("nokeep slice", lambda: s1(nk[1:]))
fl = h1([0.5,1.5,2.5,7,-1], "fixed_width", bin_width=1.0, range=(0,3))
T("fw slice", lambda: s1(fl[1:]))
T("fw slice stats", lambda: fl[1:].statistics)
# ND
n = HistogramND([[0,1,2,3,4],[0,2,4,6],[0,1,2]], np.arange(24).reshape(4,3,2), axis_names=["x","y","z"], name="N", missed=3)
def sn(h): return h if not isinstance(h, physt.types.HistogramBase) else dict(cls=type(h).__name__, shape=h.shape, names=h.axis_names, f=h.frequencies.tolist(), bins=[np.asarray(b).tolist() for b in (h.bins if h.ndim>1 else [h.bins])], m=h.missed, name=h.name)
F=n.frequencies
nexprs = ["0","-1","slice(1,3)","(0,)","(0,1)","(0,1,1)","(0,1,1,1)","(slice(None),1)","(slice(1,3),slice(None),0)","(1,slice(None),slice(0,1))","(slice(None),slice(None),slice(None))","(slice(None,None,-1),)","(slice(None,None,2),)","(5,)","(0,5)","(-1,-1,-1)","(slice(None), -1)", "np.array([0,1])", "(np.array([0,1]),)", "[0,1]", "(Ellipsis,0)", "(slice(3,1),)", "(slice(2,2),)"]
for e in nexprs:
    def run():
        idx = eval(e); r = n[idx]
        ok=None
        if isinstance(r, physt.types.HistogramBase):
            try: ok = np.array_equal(r.frequencies, F[idx])
            except Exception as ex: ok = repr(ex)
        return (sn(r) if not isinstance(r, physt.types.HistogramBase) else dict(cls=type(r).__name__, shape=r.shape, names=r.axis_names, m=r.missed, name=r.name, bins0=np.asarray(r.bins[0] if r.ndim>1 else r.bins).tolist()), ok)
    T("n["+e+"]", run)
T("n.select('y', 1)", lambda: sn(n.select("y",1))["names"])
T("n.select(1, slice(1,3))", lambda: (lambda r: (r.shape, r.axis_names, np.array_equal(r.frequencies, F[:,1:3,:]), r.missed))(n.select(1, slice(1,3))))
T("n after", lambda: (np.array_equal(n.frequencies, np.arange(24).reshape(4,3,2)), n.shape))
