from util import *
import physt
from physt import h, h1, h2, h3
from physt.binnings import FixedWidthBinning, fixed_width_binning, pretty_binning, integer_binning
def s1(h): return dict(bins=h.numpy_bins.tolist(), f=h.frequencies.tolist(), u=h.underflow, o=h.overflow, tot=h.total)
def adaptive_fill(vals, width, **kw):
    hh = h1(None, "fixed_width", bin_width=width, adaptive=True, **kw)
    for v in vals: hh.fill(v)
    return s1(hh)
T("w0.1 1.7", lambda: adaptive_fill([1.7], 0.1))
T("w0.1 0.3", lambda: adaptive_fill([0.3], 0.1))
T("w0.1 several", lambda: adaptive_fill([0.3, 1.7, 0.7, 2.3, -0.3], 0.1))
T("w0.1 fill_n", lambda: (lambda hh: (hh.fill_n([0.3, 1.7, 0.7, 2.3, -0.3]), s1(hh))[1])(h1(None, "fixed_width", bin_width=0.1, adaptive=True)))
T("w1 exact multiples", lambda: adaptive_fill([1, 2, 3, 0, -1], 1))
T("w1 then left far", lambda: adaptive_fill([1, -100.5], 1))
T("w0.1 construct", lambda: s1(h1([0.3,1.7,0.7,2.3], "fixed_width", bin_width=0.1)))
T("w0.1 construct adaptive", lambda: s1(h1([0.3,1.7,0.7,2.3], "fixed_width", bin_width=0.1, adaptive=True)))
T("w0.7", lambda: adaptive_fill([0.7*3, 0.7*5, 2.1, 4.9], 0.7))
T("align False", lambda: adaptive_fill([0.35, 1.7], 0.1, align=False))
T("bin_shift", lambda: adaptive_fill([0.35, 1.7], 0.5, bin_shift=0.25))
# brute force search for lost values
rng = np.random.default_rng(1)
lost = 0; n=0; ex=[]
for width in [0.1, 0.2, 0.3, 0.7, 1.0, 2.5, 1e-3, 3.3, 1/3]:
    for k in range(-50, 50):
        for delta in [0, 1, -1]:
            v = k*width
            if delta: v = np.nextafter(v, np.inf*delta)
            hh = h1(None, "fixed_width", bin_width=width, adaptive=True)
            try:
                hh.fill(v)
            except Exception as e:
                ex.append((width,v,repr(e))); continue
            n+=1
            if hh.total != 1 or hh.underflow or hh.overflow:
                lost+=1
                if len(ex)<15: ex.append((width, float(v), s1(hh)))
print("single first-fill lost", lost, "of", n); 
for e in ex[:15]: print("   ", e)
# second fill growth
lost=0;n=0;ex=[]
for width in [0.1, 0.2, 0.3, 0.7, 1.0, 2.5, 1e-3, 3.3, 1/3]:
    for k in range(-30, 30):
        for delta in [0, 1, -1]:
            v = k*width
            if delta: v = np.nextafter(v, np.inf*delta)
            hh = h1(None, "fixed_width", bin_width=width, adaptive=True)
            hh.fill(0.5*width)
            hh.fill(v)
            n+=1
            if hh.total != 2 or hh.underflow or hh.overflow:
                lost+=1
                if len(ex)<10: ex.append((width, float(v), s1(hh)))
print("second fill lost", lost, "of", n)
for e in ex[:10]: print("   ", e)
# fill_n
lost=0;n=0;ex=[]
for width in [0.1, 0.2, 0.3, 0.7, 1.0, 2.5, 1e-3, 3.3, 1/3]:
    for trial in range(40):
        vals = rng.integers(-40,40,size=5)*width
        hh = h1(None, "fixed_width", bin_width=width, adaptive=True)
        hh.fill_n(vals)
        n+=1
        if hh.total != 5 or hh.underflow or hh.overflow:
            lost+=1
            if len(ex)<5: ex.append((width, vals.tolist(), s1(hh)))
print("fill_n lost", lost, "of", n)
for e in ex[:5]: print("   ", e)
# non-adaptive from data
lost=0;n=0;ex=[]
for name in ["fixed_width","pretty","integer"]:
  for width in [0.1, 0.2, 0.3, 0.7, 1.0, 2.5, 3.3]:
    for trial in range(40):
        vals = rng.integers(-40,40,size=6)*width
        kw = dict(bin_width=width) if name=="fixed_width" else {}
        try:
            hh = h1(vals, name, **kw)
        except Exception as e:
            ex.append((name,width,vals.tolist(),repr(e))); continue
        n+=1
        if hh.total != 6 or hh.underflow or hh.overflow:
            lost+=1
            if len(ex)<8: ex.append((name, width, vals.tolist(), s1(hh)))
print("nonadaptive lost", lost, "of", n)
for e in ex[:8]: print("   ", e)
