from util import *
import physt, threading, asyncio, os, subprocess, sys
from physt.config import config
from physt import h1
a = h1([.5,1.5],[0,1,2])
T("default", lambda: config.free_arithmetics)
def nested():
    out=[]
    with config.enable_free_arithmetics():
        out.append(config.free_arithmetics)
        with config.enable_free_arithmetics(False):
            out.append(config.free_arithmetics)
            try:
                with config.enable_free_arithmetics(True):
                    out.append(config.free_arithmetics); raise RuntimeError
            except RuntimeError: pass
            out.append(config.free_arithmetics)
        out.append(config.free_arithmetics)
    out.append(config.free_arithmetics); return out
T("nested", nested)
def threads():
    res={}
    def worker():
        res["t"]=config.free_arithmetics
    with config.enable_free_arithmetics():
        t=threading.Thread(target=worker); t.start(); t.join()
    return res
T("thread sees?", threads)
def setter_thread():
    res={}
    config.free_arithmetics=True
    def worker(): res["t"]=config.free_arithmetics
    t=threading.Thread(target=worker); t.start(); t.join()
    config.free_arithmetics=False
    return res
T("setter then thread", setter_thread)
async def amain():
    res={}
    async def t1():
        with config.enable_free_arithmetics():
            await asyncio.sleep(0.01); res["t1"]=config.free_arithmetics
    async def t2():
        await asyncio.sleep(0.005); res["t2"]=config.free_arithmetics
    await asyncio.gather(t1(),t2()); return res
T("asyncio", lambda: asyncio.run(amain()))
async def amain2():
    res={}
    with config.enable_free_arithmetics():
        async def child(): res["child"]=config.free_arithmetics
        await asyncio.create_task(child())
    return res
T("asyncio child task inherits", lambda: asyncio.run(amain2()))
T("env 1", lambda: subprocess.run([sys.executable,"-c","from physt.config import config; print(config.free_arithmetics)"],env={**os.environ,"PHYST_FREE_ARITHMETICS":"1"},capture_output=True,text=True).stdout)
T("env true", lambda: subprocess.run([sys.executable,"-c","from physt.config import config; print(config.free_arithmetics)"],env={**os.environ,"PHYST_FREE_ARITHMETICS":"true"},capture_output=True,text=True).stdout)
T("neg contents refused", lambda: a*-1)
with config.enable_free_arithmetics():
    T("neg contents free", lambda: (a*-1).frequencies)
    T("arr add free", lambda: (a+[1,1]).frequencies)
T("arr add after", lambda: (a+[1,1]).frequencies)
T("second instance", lambda: type(config)())
# generator-based leak: context manager inside generator suspended
def gen():
    with config.enable_free_arithmetics():
        yield config.free_arithmetics
g=gen(); v=next(g)
T("after suspended generator, outer sees", lambda: config.free_arithmetics)
g.close()
T("after close", lambda: config.free_arithmetics)
