"""C06: "normalize() gives total 1 (100 with percent) with unchanged proportions" and
"a collection's normalize_bins makes the members' shares in each bin sum to 1"
- scope: all histograms, int/float dtype.

For histograms stored as float16 (one of the library's SUPPORTED_DTYPES, `dtype=np.float16`)
the divisor (`total`, resp. the sum of the members) is accumulated in float16 itself:
  * it is inf as soon as the true total exceeds 65504 although every bin is representable
    -> normalize() silently returns an all-zero histogram (total 0, not 1),
  * otherwise it is rounded to 11 significant bits -> the normalised total is off by up to ~5e-4.
"""
import sys
import warnings

import numpy as np

from physt import h1, h2
from physt.histogram_collection import HistogramCollection

warnings.simplefilter("ignore")
bad = []


def report(label, value, demanded, tol=1e-9):
    ok = np.all(np.abs(np.asarray(value, dtype=float) - demanded) <= tol * demanded)
    print(f"{label:62s} {value}   demanded {demanded}   {'ok' if ok else 'WRONG'}")
    if not ok:
        bad.append(label)


# 20 bins with ~10000 entries each: each content is fine in float16, their sum (200000) is not
rng = np.random.default_rng(1)
x = rng.uniform(0, 1, size=200_000)
h = h1(x, "fixed_width", bin_width=0.05, range=(0, 1), dtype=np.float16)
print("float16 histogram, largest bin", h.frequencies.max(), " true sum of the bins",
      h.frequencies.astype(float).sum(), " h.total =", h.total)
for kwargs in ({}, {"percent": True}, {"inplace": True}, {"inplace": True, "percent": True}):
    n = h.copy().normalize(**kwargs)
    report(f"1D normalize({kwargs}).total (dtype {n.dtype})", n.total, 100 if kwargs.get("percent") else 1)
n = h.normalize()
report("1D share of the first bin after normalize()", float(n.frequencies[0]),
       float(h.frequencies[0]) / h.frequencies.astype(float).sum())
report("h / h.total (the documented meaning of normalize): total", (h / h.total).total, 1)

# 2D
H = h2(x, x, "fixed_width", bin_width=0.25, range=((0, 1), (0, 1)), dtype=np.float16)
report("2D normalize().total", H.normalize().total, 1)

# no overflow, just the rounding of the float16 accumulator: 1001 + 1001 + 1001 = 3003 -> 3004
g = h1([0.5] * 1001 + [1.5] * 1001 + [2.5] * 1001, "fixed_width", bin_width=1, range=(0, 3), dtype=np.float16)
print("float16 histogram", g.frequencies, " h.total =", g.total)
report("normalize().total of contents [1001 1001 1001]", g.normalize().total, 1)

# collection: shares in each bin must sum to 1
a = h1(rng.uniform(0, 1, 80_000), "fixed_width", bin_width=0.5, range=(0, 1), dtype=np.float16, name="a")
b = h1(rng.uniform(0, 1, 80_000), "fixed_width", bin_width=0.5, range=(0, 1), dtype=np.float16, name="b")
col = HistogramCollection(a, b)
nb = col.normalize_bins()
report("collection normalize_bins(): sum of the shares per bin", sum(m.frequencies for m in nb), 1)

print()
if bad:
    print(f"VIOLATION of C06 (normalisation of float16 histograms): {len(bad)} checks")
    sys.exit(1)
print("no violation observed")
