"""C06: multiplying / dividing by a scalar c must scale every squared error by c*c (1/(c*c)).

With NumPy scalar factors the library squares the factor in the factor's own
(narrow) type, so c*c wraps around / is rounded and errors2 is silently wrong,
although the contents and the missed values are scaled correctly.
"""
import sys
import warnings

import numpy as np

from physt.binnings import StaticBinning
from physt.histogram1d import Histogram1D
from physt.histogram_nd import Histogram2D

warnings.simplefilter("ignore")
bad = []


def make_1d():
    return Histogram1D(
        StaticBinning([0.0, 1.0, 2.0, 3.0]),
        frequencies=[1, 2, 1],
        errors2=[1, 2, 1],
        underflow=1,
        overflow=1,
    )


def check(label, result, contents, errors2, factor, power):
    """power=+1: multiplication, power=-1: division"""
    c = float(factor) ** power
    want_f = np.asarray(contents, dtype=float) * c
    want_e = np.asarray(errors2, dtype=float) * c * c
    ok_f = np.allclose(result.frequencies, want_f, rtol=1e-9, atol=0)
    ok_e = np.allclose(result.errors2, want_e, rtol=1e-9, atol=0)
    print(f"{label}")
    print(f"    contents : {result.frequencies.ravel()}   demanded {want_f.ravel()}   {'ok' if ok_f else 'WRONG'}")
    print(f"    errors2  : {result.errors2.ravel()}   demanded {want_e.ravel()}   {'ok' if ok_e else 'WRONG'}")
    if not (ok_f and ok_e):
        bad.append(label)


h = make_1d()
for factor in (np.uint8(20), np.int16(300), np.int32(70000)):
    check(f"h * {factor!r}", h * factor, [1, 2, 1], [1, 2, 1], factor, +1)
    check(f"{factor!r} * h", factor * h, [1, 2, 1], [1, 2, 1], factor, +1)
    check(f"h / {factor!r}", h / factor, [1, 2, 1], [1, 2, 1], factor, -1)
    g = make_1d()
    g *= factor
    check(f"h *= {factor!r}", g, [1, 2, 1], [1, 2, 1], factor, +1)

# the default integer type of NumPy is enough when dividing (the result is float64, nothing can "overflow")
factor = np.int64(10_000_000_000)
check(f"h / {factor!r}", h / factor, [1, 2, 1], [1, 2, 1], factor, -1)
g = make_1d()
g /= factor
check(f"h /= {factor!r}", g, [1, 2, 1], [1, 2, 1], factor, -1)

# narrow float: c*c is rounded to float16 (relative error ~4e-4) although the result is stored as float64
factor = np.float16(0.1)
check(f"h * {factor!r}", h * factor, [1, 2, 1], [1, 2, 1], factor, +1)

# N-dimensional histograms share the code
H = Histogram2D(
    [StaticBinning([0.0, 1.0, 2.0]), StaticBinning([0.0, 1.0, 2.0])],
    frequencies=[[1, 2], [3, 4]],
    errors2=[[1, 2], [3, 4]],
)
factor = np.int32(70000)
check(f"H2d * {factor!r}", H * factor, [[1, 2], [3, 4]], [[1, 2], [3, 4]], factor, +1)

# (h*c)/c must reproduce h
rt = (h * np.int32(70000)) / np.int32(70000)
print("(h * np.int32(70000)) / np.int32(70000): errors2", rt.errors2, " demanded", h.errors2)
if not np.allclose(rt.errors2, h.errors2, atol=0):
    print("    (the two wrong factors cancel here, the intermediate h*c is wrong)")
rt = (h * np.int32(70000)) / 70000
print("(h * np.int32(70000)) / 70000          : errors2", rt.errors2, " demanded", h.errors2)
if not np.allclose(rt.errors2, h.errors2, atol=0):
    bad.append("roundtrip")

print()
if bad:
    print(f"VIOLATION of C06 (squared errors are not scaled by c*c) in {len(bad)} checks:")
    for label in bad:
        print("   ", label)
    sys.exit(1)
print("no violation observed")
