"""C06: in-place scaling must multiply contents, missed values, squared errors and the recorded
weight *together* (contents by c, errors2 by c*c, weight by c); a refusal must leave the operand untouched.

`h *= c` / `h /= c` assign the new contents first and compute the squared errors afterwards.
When that second step fails (c*c*errors2 does not fit the integer dtype, or c*c overflows a python float),
the exception leaves the operand HALF-SCALED: contents already multiplied, errors2 / underflow /
overflow / statistics still the old ones.  For other data the same overflow is not even noticed
and the squared errors are silently wrong.
"""
import sys
import warnings

import numpy as np

from physt import h1

warnings.simplefilter("ignore")
bad = []


def make():
    # contents [1 2 1], underflow 1, overflow 0; errors2 == contents; recorded weight 5
    return h1([0.5, 1.5, 1.5, 2.5, -1.0], "fixed_width", bin_width=1, range=(0, 3))


def state(h):
    return (
        f"dtype={h.dtype} contents={h.frequencies} errors2={h.errors2} "
        f"underflow={h.underflow} weight={h.statistics.weight}"
    )


def consistent(h, original):
    """Either untouched, or everything scaled by one common factor."""
    f0, e0, m0 = original.frequencies.astype(float), original.errors2.astype(float), original._missed.astype(float)
    c = h.frequencies[0] / f0[0]
    return (
        np.allclose(h.frequencies, f0 * c, atol=0)
        and np.allclose(h.errors2, e0 * c * c, atol=0)
        and np.allclose(h._missed, m0 * c, atol=0)
        and np.isclose(h.statistics.weight, original.statistics.weight * c, atol=0)
    )


original = make()
print("original :", state(original))
print()

cases = [
    ("h *= 3_000_000_000", lambda h: h.__imul__(3_000_000_000)),
    ("h *= np.int64(3_000_000_000)", lambda h: h.__imul__(np.int64(3_000_000_000))),
    ("h *= 10**10", lambda h: h.__imul__(10**10)),
    ("h *= 1e200", lambda h: h.__imul__(1e200)),
    ("h /= 1e200", lambda h: h.__itruediv__(1e200)),
]
for label, op in cases:
    h = make()
    try:
        op(h)
        outcome = "accepted"
    except Exception as exc:  # noqa
        outcome = f"refused with {type(exc).__name__}: {exc}"
    ok = consistent(h, original)
    print(f"{label}: {outcome}")
    print(f"    operand afterwards: {state(h)}")
    print(f"    demanded: operand untouched (refused) or contents*c, errors2*c*c, missed*c, weight*c   "
          f"{'ok' if ok else 'WRONG - half-scaled'}")
    if not ok:
        bad.append(label)

# The same overflow of c*c*errors2 passes unnoticed when the wrapped value happens to be positive
h = h1([0.5] * 5, "fixed_width", bin_width=1, range=(0, 1))  # one bin, content 5, errors2 5
r = h * 3_000_000_000
want = 5 * 3_000_000_000**2
print()
print(f"copying variant, one bin with content 5:  h * 3_000_000_000 -> contents {r.frequencies} (ok), "
      f"errors2 {r.errors2}   demanded [{want}]   {'ok' if float(r.errors2[0]) == float(want) else 'WRONG'}")
if float(r.errors2[0]) != float(want):
    bad.append("silent wrap of errors2")

print()
if bad:
    print(f"VIOLATION of C06 (inconsistent state after in-place scaling / wrong errors2): {len(bad)} checks")
    sys.exit(1)
print("no violation observed")
