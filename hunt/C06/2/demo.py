"""C06: "(without free arithmetics) negative factors ... are refused".

The refusal is only a side effect of the "no negative bin content" check of the
`frequencies` setter.  When no bin has a positive content (all values fell
outside the bins, or the histogram was just sliced / is still empty apart from
its underflow/overflow), a negative factor is ACCEPTED and produces negative
underflow / overflow / missed and a negative recorded weight.
"""
import sys
import warnings

import numpy as np

import physt
from physt import h1, h2
from physt.config import config

warnings.simplefilter("ignore")
assert not config.free_arithmetics
bad = []


def attempt(label, func, show):
    try:
        result = func()
    except (TypeError, ValueError) as exc:
        print(f"{label:28s} refused ({type(exc).__name__}: {exc})   demanded: refused   ok")
        return
    print(f"{label:28s} ACCEPTED -> {show(result)}   demanded: refused   WRONG")
    bad.append(label)


def show1(h):
    return (
        f"contents={h.frequencies}, underflow={h.underflow}, overflow={h.overflow}, "
        f"missed={h.missed}, recorded weight={h.statistics.weight}"
    )


def show2(h):
    return f"total={h.total}, missed={h.missed}"


# Reference: a histogram with something in the bins -> refused, as demanded
ref = h1([0.5, 1.5, 5.0, 6.0, 7.0], "fixed_width", bin_width=1, range=(0, 3))
attempt("filled   h * -2", lambda: ref * -2, show1)

# All the values lie above the bins: contents [0 0 0], overflow 3
h = h1([5.0, 6.0, 7.0], "fixed_width", bin_width=1, range=(0, 3))
print("\n1D histogram:", show1(h))
attempt("h * -2", lambda: h * -2, show1)
attempt("-2 * h", lambda: -2 * h, show1)
attempt("h * -0.5", lambda: h * -0.5, show1)
attempt("h * np.float64(-2)", lambda: h * np.float64(-2), show1)
attempt("np.int64(-2) * h", lambda: np.int64(-2) * h, show1)
attempt("h / -2", lambda: h / -2, show1)


def inplace_mul():
    g = h.copy()
    g *= -2
    return g


def inplace_div():
    g = h.copy()
    g /= -4.0
    return g


attempt("h *= -2", inplace_mul, show1)
attempt("h /= -4.0", inplace_div, show1)

# 2D: both points outside the bins -> missed 2
H = h2([5.0, 6.0], [5.0, 6.0], "fixed_width", bin_width=1, range=((0, 2), (0, 2)))
print("\n2D histogram:", show2(H))
attempt("H * -3", lambda: H * -3, show2)
attempt("H / -3", lambda: H / -3, show2)

# Secondary observation: a *refused* in-place negative scaling still modifies the operand (its dtype)
g = ref.copy()
before = (g.dtype, g.frequencies.dtype, g._missed.dtype)
try:
    g *= -1.5
except ValueError:
    pass
after = (g.dtype, g.frequencies.dtype, g._missed.dtype)
print(f"\nrefused `h *= -1.5`: dtypes before {before}, after {after}   demanded: operand untouched   "
      f"{'ok' if before == after else 'WRONG'}")
if before != after:
    bad.append("refused in-place op changed dtype")

print()
if bad:
    print(f"VIOLATION of C06 (negative factor accepted without free arithmetics): {len(bad)} checks")
    sys.exit(1)
print("no violation observed")
