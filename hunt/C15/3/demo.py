"""C15: find_bin(coordinate, axis=...) of a transformed N-D histogram whose bin edges are
float32 puts a python-float coordinate into another bin (or into no bin at all) than
find_bin(point), fill, fill_n and the facade do for the very same coordinate."""
import math
import sys
import warnings

import numpy as np

from physt import special_histograms as sh

warnings.simplefilter("ignore")
failures = 0

r_edges = np.array([0, 1, 2, 3], dtype=np.float32)
phi_edges = np.linspace(0, 2 * np.pi, 5, dtype=np.float32)  # consecutive bins covering [0, 2 pi]
h = sh.polar([0.5], [0.5], radial_bins=r_edges, phi_bins=phi_edges)
h.fill([0.5, 0.5], -1)
assert h.total == 0
print("edge dtypes:", [b.bins.dtype.name for b in h.binnings])
print("phi edges  :", [float(e) for e in h.get_bin_edges(1)])

# (x, y, comment) - finite Cartesian points; the bins are consecutive, so "no bin" is impossible inside
cases = [
    (0.0, 2.0, "on the +y axis: phi = pi/2, just below the float32 edge 1.5707964"),
    (0.99999999, 0.0, "r just below the edge 1"),
    (-1.99999999, 0.0, "r just below the edge 2, phi = pi just below the float32 edge 3.1415927"),
    (3.00000001, 0.0, "r just above the last edge 3 -> outside"),
]
for x, y, comment in cases:
    r = math.hypot(x, y)                       # python floats: the true coordinates
    phi = math.atan2(y, x) % (2 * math.pi)
    expected = h.find_bin([r, phi], transformed=True)     # the bin the statement refers to
    by_point = h.find_bin([x, y])
    filled = h.copy()
    by_fill = filled.fill([x, y])
    filled_n = h.copy()
    filled_n.fill_n([[x, y]])
    where = [tuple(int(i) for i in ix) for ix in np.argwhere(filled_n.frequencies)]
    by_fill_n = where[0] if where else None
    facade = sh.polar([x], [y], radial_bins=r_edges, phi_bins=phi_edges)
    where = [tuple(int(i) for i in ix) for ix in np.argwhere(facade.frequencies)]
    by_facade = where[0] if where else None

    per_axis = (h.find_bin(r, axis="r"), h.find_bin(phi, axis="phi"))
    per_axis_tr = (h.find_bin(r, axis=0, transformed=True), h.find_bin(phi, axis=1, transformed=True))
    per_axis = None if None in per_axis else per_axis
    per_axis_tr = None if None in per_axis_tr else per_axis_tr
    per_axis_np = (h.find_bin(np.float64(r), axis="r"), h.find_bin(np.float64(phi), axis="phi"))
    per_axis_np = None if None in per_axis_np else per_axis_np

    print(f"\npoint ({x!r}, {y!r}) - {comment}\n  true r = {r!r}, phi = {phi!r}")
    print("  find_bin([r, phi], transformed=True) :", expected)
    print("  find_bin([x, y]) / fill / fill_n / facade :", by_point, by_fill, by_fill_n, by_facade)
    print("  find_bin(r, axis='r'), find_bin(phi, axis='phi') with python floats :", per_axis,
          "| transformed=True:", per_axis_tr)
    print("  the same with np.float64 coordinates :", per_axis_np)
    assert expected == by_point == by_fill == by_fill_n == by_facade == per_axis_np
    if per_axis != expected or per_axis_tr != expected:
        print("  -> VIOLATION: the per-axis find_bin disagrees with every other path")
        failures += 1

sys.exit(1 if failures else 0)
