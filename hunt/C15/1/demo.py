"""C15: fill_n(..., columns=True) of a transformed histogram does not bin the
Cartesian points by their true coordinates (the transposition announced by
columns=True is applied AFTER the Cartesian -> polar/spherical transformation,
which has meanwhile read the column-wise array row by row)."""
import sys
import warnings

import numpy as np

from physt import special_histograms as sh

warnings.simplefilter("ignore")
failures = 0


def cells(h, h0):
    diff = h.frequencies - h0.frequencies
    return sorted(tuple(int(i) for i in ix) + (int(diff[tuple(ix)]),) for ix in np.argwhere(diff))


# ---------------------------------------------------------------- polar, 2 points
r_edges = np.array([0.0, 1.0, 2.0, 3.0, 4.0, 5.0, 10.0])
empty = sh.polar([0.5], [0.5], radial_bins=r_edges, phi_bins=4)
empty.fill([0.5, 0.5], -1)  # leaves an all-zero PolarHistogram
assert empty.total == 0

points = np.array([[3.0, 4.0], [-1.0, -1.0]])  # rows = points (x, y)
x, y = points[:, 0], points[:, 1]
true_r = np.hypot(x, y)
true_phi = np.arctan2(y, x) % (2 * np.pi)
print("points (x, y):", points.tolist())
print("true (r, phi):", np.stack([true_r, true_phi], 1).tolist())

by_rows = empty.copy()
by_rows.fill_n(points)
by_single = [empty.find_bin(p) for p in points]
by_transformed = empty.copy()
by_transformed.fill_n(np.stack([true_r, true_phi], 1), transformed=True)
by_columns = empty.copy()
by_columns.fill_n([x, y], columns=True)  # documented: "allows to pass list of arrays"
by_columns_tr = empty.copy()
by_columns_tr.fill_n([true_r, true_phi], columns=True, transformed=True)

expected = cells(by_transformed, empty)
print("expected cells (ir, iphi, count), from transformed=True :", expected)
print("find_bin of the single points                            :", by_single)
print("fill_n(points)                                           :", cells(by_rows, empty))
print("fill_n([r, phi], columns=True, transformed=True)         :", cells(by_columns_tr, empty))
print("fill_n([x, y], columns=True)                             :", cells(by_columns, empty))
if cells(by_columns, empty) != expected:
    print("  -> VIOLATION: the same two points land in other bins with columns=True")
    failures += 1

# ---------------------------------------------------------------- spherical, 3 points
empty3 = sh.spherical(np.array([[1.0, 1.0, 1.0]]), radial_bins=r_edges, theta_bins=2, phi_bins=4)
empty3.fill([1.0, 1.0, 1.0], -1)
assert empty3.total == 0
p3 = np.array([[3.0, 0.0, 4.0], [0.0, -1.0, 0.0], [-2.0, -2.0, -2.0]])
rows3 = empty3.copy()
rows3.fill_n(p3)
cols3 = empty3.copy()
cols3.fill_n([p3[:, 0], p3[:, 1], p3[:, 2]], columns=True)
print()
print("spherical, points:", p3.tolist())
print("fill_n(points)                      :", cells(rows3, empty3), "missed", float(rows3.missed))
print("fill_n([x, y, z], columns=True)     :", cells(cols3, empty3), "missed", float(cols3.missed))
if cells(cols3, empty3) != cells(rows3, empty3):
    print("  -> VIOLATION: other bins, and a point that lies inside the bins is reported as missed")
    failures += 1

# with a number of points different from the number of coordinates the same call is refused
try:
    empty.copy().fill_n([np.array([3.0, -1.0, 0.2]), np.array([4.0, -1.0, 0.1])], columns=True)
    print("3 points by columns: accepted")
except ValueError as exc:
    print("3 points by columns: refused (", exc, ") - i.e. columns=True never works untransformed")

sys.exit(1 if failures else 0)
