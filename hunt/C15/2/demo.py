"""C15: "inputs of the wrong dimensionality are refused" - the one-dimensional transformed
histograms (RadialHistogram, AzimuthalHistogram) accept 2D / 3D arrays as "already transformed"
values: every element is counted as a radius / an angle, so N points become 2N (3N) entries."""
import sys
import warnings

import numpy as np

from physt import special_histograms as sh

warnings.simplefilter("ignore")
failures = 0

r_edges = np.array([0.0, 1.0, 2.0, 3.0, 4.0, 5.0, 10.0])
points = np.array([[3.0, 4.0], [0.5, 0.5], [1.0, 2.0]])  # three Cartesian points (x, y)
print("three 2D points:", points.tolist())


def attempt(label, func, entries):
    """The statement demands a refusal; `entries` extracts the number of entries if accepted."""
    global failures
    try:
        result = func()
    except (ValueError, TypeError) as exc:
        print(f"{label}: refused, as demanded ({type(exc).__name__})")
        return
    print(f"{label}: ACCEPTED -> {entries(result)} entries counted  <- VIOLATION (must be refused)")
    failures += 1


# The single-value paths do refuse an array as an already transformed radius ...
radial = sh.radial(points[:, 0], points[:, 1], bins=r_edges)
print("radial histogram of the points:", radial.frequencies.tolist(), "total", radial.total)
attempt("RadialHistogram.fill((x, y), transformed=True)      ",
        lambda: radial.copy().fill(points[0], transformed=True), lambda r: r)
attempt("RadialHistogram.find_bin((x, y), transformed=True)  ",
        lambda: radial.copy().find_bin(points[0], transformed=True), lambda r: r)


# ... but the array paths do not
def fill_n_total(h, values):
    h = h.copy()
    before = h.total
    h.fill_n(values, transformed=True)
    return h.total - before


attempt("RadialHistogram.fill_n((3, 2) array, transformed=True)   ",
        lambda: fill_n_total(radial, points), lambda t: t)
attempt("RadialHistogram.fill_n((2, 2, 2) array, transformed=True)",
        lambda: fill_n_total(radial, np.ones((2, 2, 2))), lambda t: t)
attempt("radial((3, 2) array, transformed=True)                   ",
        lambda: sh.radial(points, bins=r_edges, transformed=True), lambda h: h.total)
azimuthal = sh.azimuthal(points[:, 0], points[:, 1], bins=4)
attempt("AzimuthalHistogram.fill_n((3, 2) array, transformed=True)",
        lambda: fill_n_total(azimuthal, points), lambda t: t)
attempt("azimuthal((3, 2) array, transformed=True)                ",
        lambda: sh.azimuthal(points, bins=4, transformed=True), lambda h: h.total)

# For comparison: the N-dimensional classes refuse an array of the wrong dimensionality
polar = sh.polar(points[:, 0], points[:, 1], radial_bins=r_edges, phi_bins=4)
attempt("PolarHistogram.fill_n((3, 3) array, transformed=True)    ",
        lambda: fill_n_total(polar, np.ones((3, 3))), lambda t: t)
attempt("PolarHistogram.fill_n((2, 2, 2) array, transformed=True) ",
        lambda: fill_n_total(polar, np.ones((2, 2, 2))), lambda t: t)

sys.exit(1 if failures else 0)
