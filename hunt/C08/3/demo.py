"""C08: a multi-dimensional histogram without bins (the documented starting state of an
adaptive histogram: h2(None, None, "fixed_width", bin_width=..., adaptive=True)) cannot be
read back from its own JSON document.
"""
import sys

import numpy as np

from physt import h1, h2, h3
from physt.histogram_nd import Histogram2D
from physt.io import parse_json

failures = []


def round_trip(label, h):
    print(f"--- {label}: {h!r}, shape={h.shape}, adaptive={h.is_adaptive()}")
    try:
        g = parse_json(h.to_json())
    except Exception as exc:  # noqa: BLE001
        print(f"FAIL parse_json(h.to_json()): observed {type(exc).__name__}: {exc}; "
              f"statement demands an equal {type(h).__name__}")
        failures.append(label)
        return
    ok = (
        type(g) is type(h)
        and g == h
        and g.shape == h.shape
        and g.frequencies.shape == h.frequencies.shape
        and g.dtype == h.dtype
        and g.is_adaptive() == h.is_adaptive()
        and g.to_json() == h.to_json()
    )
    print(f"{'ok  ' if ok else 'FAIL'} round trip: observed shape {g.frequencies.shape}, adaptive={g.is_adaptive()}, "
          f"equal={g == h}; statement demands shape {h.frequencies.shape}, adaptive={h.is_adaptive()}, equal=True")
    if not ok:
        failures.append(label)


# The 1D empty adaptive histogram works ...
round_trip("1D empty adaptive", h1(None, "fixed_width", bin_width=1.0, adaptive=True))

# ... the 2D / 3D ones do not
round_trip("2D empty adaptive", h2(None, None, "fixed_width", bin_width=1.0, adaptive=True, name="live"))
round_trip("3D empty adaptive", h3(None, "fixed_width", bin_width=0.5, adaptive=True))

# same for any ND histogram with an axis without bins followed by one with bins
round_trip("2D, 0 x 3 bins", Histogram2D([np.zeros((0, 2)), [0.0, 1.0, 2.0, 3.0]], np.zeros((0, 3))))

# once filled, the very same kind of histogram round-trips
h = h2(None, None, "fixed_width", bin_width=1.0, adaptive=True, name="live")
h.fill([0.5, 1.5])
h.fill([-2.5, 4.5], weight=2)
round_trip("2D adaptive after fill", h)

if failures:
    print(f"\nVIOLATION of C08: {failures}")
    sys.exit(1)
print("\nno violation observed")
