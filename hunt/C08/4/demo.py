"""C08: a histogram whose stored axis names are "unset" (None) - which is what the library's own
`a + b` / `a - b` produce for operands with different axis names - comes back with different
metadata, and serialising the parsed object again does NOT give the same document.
"""
import json
import sys
import warnings

import numpy as np

from physt import h1, h2
from physt.io import parse_json

warnings.simplefilter("ignore")
failures = []


def check(label, observed, demanded):
    ok = observed == demanded
    print(f"{'ok  ' if ok else 'FAIL'} {label}:\n       observed {observed!r}\n       demanded {demanded!r}")
    if not ok:
        failures.append(label)


def probe(label, h):
    print(f"--- {label}: {h!r}")
    document = h.to_json()
    g = parse_json(document)
    check("meta_data of the parsed histogram", g.meta_data, h.meta_data)
    second = g.to_json()
    check(
        "meta_data in the second document (parse_json(doc).to_json())",
        json.loads(second)["meta_data"],
        json.loads(document)["meta_data"],
    )
    check("documents equal as JSON values", json.loads(second) == json.loads(document), True)


rng = np.random.default_rng(3)
a = h1(rng.normal(size=100), "fixed_width", bin_width=1.0, range=(-3, 3), name="signal", axis_name="mass")
b = h1(rng.normal(size=100), "fixed_width", bin_width=1.0, range=(-3, 3), name="signal", axis_name="energy")
probe("1D sum of histograms with different axis names", a + b)

a2 = h2(rng.normal(size=100), rng.normal(size=100), 3, range=((-1, 1), (-1, 1)), axis_names=("x", "y"))
b2 = h2(rng.normal(size=100), rng.normal(size=100), 3, range=((-1, 1), (-1, 1)), axis_names=("u", "v"))
probe("2D sum of histograms with different axis names", a2 + b2)

# coordinate-transformed histograms: even the public accessor and == are affected
from physt import special_histograms

x, y = rng.normal(size=(2, 100))
p1 = special_histograms.polar(x, y, radial_range=(0, 3))
p2 = special_histograms.polar(y, x, radial_range=(0, 3), axis_names=("radius", "angle"))
ps = p1 + p2
probe("PolarHistogram sum of histograms with different axis names", ps)
gs = parse_json(ps.to_json())
check("axis_names accessor", tuple(gs.axis_names), tuple(ps.axis_names))
check("parsed == original", gs == ps, True)

if failures:
    print(f"\nVIOLATION of C08 ({len(failures)} checks failed)")
    sys.exit(1)
print("\nno violation observed")
