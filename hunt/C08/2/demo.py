"""C08: multi-dimensional histograms whose missed count is the NaN "unknown" marker
do not survive the JSON round trip.

The marker is what the library itself stores after arithmetics with a bare array
(`self._missed * np.nan`) - for Histogram1D it is handled, for HistogramND it is not:
  * float contents: the parsed histogram is bit-identical but `parsed == original` is False,
  * integer contents: parse_json() of the library's own document raises ValueError.
"""
import sys
import warnings

import numpy as np

from physt import h2, h3
from physt.config import config
from physt.histogram_nd import Histogram2D
from physt.io import parse_json

warnings.simplefilter("ignore")
failures = []


def report(label, ok, observed, demanded):
    print(f"{'ok  ' if ok else 'FAIL'} {label}: observed {observed}, statement demands {demanded}")
    if not ok:
        failures.append(label)


def same_bits(a, b):
    a, b = np.asarray(a), np.asarray(b)
    return a.dtype == b.dtype and a.shape == b.shape and a.tobytes() == b.tobytes()


def round_trip(label, h):
    print(f"--- {label}: {h!r}, dtype={h.dtype}, missed={h.missed}")
    try:
        g = parse_json(h.to_json())
    except Exception as exc:  # noqa: BLE001
        report("parse_json(h.to_json())", False, f"{type(exc).__name__}: {exc}", "a histogram")
        return
    report("class", type(g) is type(h), type(g).__name__, type(h).__name__)
    report("contents bit-identical", same_bits(g.frequencies, h.frequencies), g.frequencies.tolist(), h.frequencies.tolist())
    report("missed is still the NaN marker", bool(np.isnan(g.missed)), g.missed, h.missed)
    report("parsed == original", g == h, g == h, True)


rng = np.random.default_rng(42)
x, y, z = rng.normal(size=(3, 500))

# (a) float contents, NaN marker given directly
round_trip(
    "Histogram2D, float64, missed=nan",
    Histogram2D([[0, 1, 2], [0, 1, 2]], [[1.5, 2], [3, 4]], missed=np.nan),
)

# (b) float contents, NaN marker produced by the library (free arithmetics with an array)
with config.enable_free_arithmetics():
    hf = h2(x, y, 3, range=((-1, 1), (-1, 1)), weights=np.full(500, 0.5)) * np.full((3, 3), 2.0)
round_trip("h2 * array (free arithmetics), float64", hf)

# (c) integer contents, NaN marker produced by the library
with config.enable_free_arithmetics():
    hi = h2(x, y, 3, range=((-1, 1), (-1, 1))) + np.ones((3, 3), dtype=np.int64)
round_trip("h2 + int array (free arithmetics), int64", hi)

with config.enable_free_arithmetics():
    hi3 = h3([x, y, z], 2, range=((-1, 1),) * 3) * np.full((2, 2, 2), 2)
round_trip("h3 * int array (free arithmetics), int64", hi3)

if failures:
    print(f"\nVIOLATION of C08 ({len(failures)} checks failed)")
    sys.exit(1)
print("\nno violation observed")
