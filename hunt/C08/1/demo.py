"""C08: custom metadata entries whose key equals a constructor keyword are not round-tripped.

They are silently dropped, or - worse - silently overwrite the real dtype / missed /
keep_missed / axis names of the restored histogram.
"""
import sys

import numpy as np

from physt.histogram1d import Histogram1D
from physt.histogram_nd import Histogram2D
from physt.io import parse_json

failures = []


def check(label, observed, demanded):
    ok = observed == demanded
    print(f"{'ok  ' if ok else 'FAIL'} {label}: observed {observed!r}, statement demands {demanded!r}")
    if not ok:
        failures.append(label)


# --- 1D: the user annotates the histogram with a few harmless, JSON-representable notes
h = Histogram1D([0.0, 1.0, 2.0], [2**53 + 1, 5], underflow=4, name="pt", dtype=np.int64)
h.meta_data["dtype"] = "float32"          # e.g. "element type of the source column"
h.meta_data["stats"] = {"mean": 0.7}      # e.g. externally computed summary
h.meta_data["underflow"] = "see run 7"    # a comment
h.meta_data["axis_name"] = "p_T [GeV]"    # a label the user wants to keep

g = parse_json(h.to_json())

print("--- Histogram1D")
check("class", type(g).__name__, type(h).__name__)
check("dtype", str(g.dtype), str(h.dtype))
check("frequencies", g.frequencies.tolist(), h.frequencies.tolist())
check("axis_names", tuple(g.axis_names), tuple(h.axis_names))
for key in ("dtype", "stats", "underflow", "axis_name"):
    check(f"meta_data[{key!r}]", g.meta_data.get(key, "<entry lost>"), h.meta_data[key])
check("parsed == original", g == h, True)
check("second serialisation gives the same document", g.to_json() == h.to_json(), True)

# --- 2D: a custom entry called "missed" / "keep_missed"
h2 = Histogram2D([[0, 1, 2], [0, 1, 2]], [[1, 2], [3, 4]], missed=4)
h2.meta_data["missed"] = 3                # e.g. "number of files that could not be read"
h2.meta_data["keep_missed"] = False       # e.g. a flag of the user's own bookkeeping
g2 = parse_json(h2.to_json())

print("--- Histogram2D")
check("missed", g2.missed, h2.missed)
check("keep_missed", g2.keep_missed, h2.keep_missed)
check("meta_data['missed']", g2.meta_data.get("missed", "<entry lost>"), 3)
check("meta_data['keep_missed']", g2.meta_data.get("keep_missed", "<entry lost>"), False)
check("parsed == original", g2 == h2, True)

if failures:
    print(f"\nVIOLATION of C08 ({len(failures)} checks failed)")
    sys.exit(1)
print("\nno violation observed")
