"""C11: out-of-range entries of an integer index array are accepted (wrapped a second time)."""
import sys
import numpy as np
from physt.histogram1d import Histogram1D
from physt import h1

failures = []

h = Histogram1D([0, 1, 2, 3, 4, 5, 6], [10, 20, 30, 40, 50, 60], name="t", axis_name="x")
n = h.bin_count
print(f"histogram with {n} bins, contents {h.frequencies.tolist()}")
print(f"valid indices (numpy semantics): {-n} .. {n - 1}")

# Reference: what numpy does / what the library does for the *same* number in the other index forms
for bad in (-n - 1, -2 * n, n, 2 * n):
    for label, index in (("python int", bad), ("list", [bad]), ("index array", np.array([bad]))):
        try:
            np.arange(n)[index]
            numpy_says = "accepted"
        except IndexError:
            numpy_says = "IndexError"
        try:
            result = h[index]
            if isinstance(result, tuple):
                got = f"ACCEPTED -> bin {result[0].tolist()} content {result[1]}"
            else:
                got = f"ACCEPTED -> bins {result.bins.tolist()} contents {result.frequencies.tolist()}"
            accepted = True
        except (IndexError, ValueError) as exc:
            got = f"refused ({type(exc).__name__})"
            accepted = False
        verdict = "ok" if not accepted else "VIOLATION (statement: out-of-range indices are refused)"
        print(f"  index {bad:4d} as {label:12s}: numpy {numpy_says:10s} | physt {got}  [{verdict}]")
        if accepted:
            failures.append((bad, label))

# The same through a mixed array: one legal and one illegal entry -> silently returns two bins
idx = np.array([n - 1, -n - 2])
try:
    r = h[idx]
    print(f"h[np.array({idx.tolist()})] -> bins {r.bins.tolist()}, contents {r.frequencies.tolist()}"
          f"   (demanded: IndexError, {-n - 2} is out of range for {n} bins)")
    failures.append((idx.tolist(), "mixed array"))
except (IndexError, ValueError) as exc:
    print(f"h[np.array({idx.tolist()})] refused: {exc}")

# ... and on a histogram made by the facade
g = h1(np.linspace(0, 1, 50), 5)
try:
    r = g[np.array([-6])]
    print(f"h1(...,5)[np.array([-6])] -> contents {r.frequencies.tolist()} (demanded: IndexError)")
    failures.append((-6, "facade"))
except IndexError as exc:
    print("h1(...,5)[np.array([-6])] refused:", exc)

if failures:
    print(f"\nFAIL: {len(failures)} out-of-range index array(s) were accepted: {failures}")
    sys.exit(1)
print("\nOK: all out-of-range indices refused")
