"""C11: 1D slices with an explicit positive step (even the identity step 1) are refused as "reversed"."""
import sys
import numpy as np
from physt.histogram1d import Histogram1D
from physt.histogram_nd import Histogram2D

failures = []

h = Histogram1D([0, 1, 2, 3, 4, 5, 6], [10, 20, 30, 40, 50, 60], underflow=1, overflow=2,
                name="t", axis_name="x")
f, e2, b = h.frequencies.copy(), h.errors2.copy(), h.bins.copy()
total = h.total + h.underflow + h.overflow
print(f"1D histogram: contents {f.tolist()}, underflow {h.underflow}, overflow {h.overflow}")


def probe(label, index, contiguous):
    expected = f[index]
    print(f"\nh[{label}]   numpy: contents[{label}] = {expected.tolist()}")
    if contiguous:
        print("  demanded: histogram with exactly these bins; cut-off contents go to under/overflow, "
              f"total+underflow+overflow stays {total}")
    else:
        print("  demanded: histogram with exactly these bins; underflow/overflow unknown (NaN)")
    try:
        r = h[index]
    except Exception as exc:  # noqa
        print(f"  observed: REFUSED with {type(exc).__name__}: {exc}")
        failures.append(label)
        return
    ok = (np.array_equal(r.frequencies, expected) and np.array_equal(r.errors2, e2[index])
          and np.array_equal(r.bins, b[index]))
    if contiguous:
        ok = ok and (r.total + r.underflow + r.overflow == total)
    else:
        ok = ok and np.isnan(r.underflow) and np.isnan(r.overflow)
    print(f"  observed: contents {r.frequencies.tolist()}, underflow {r.underflow}, overflow {r.overflow}"
          f" -> {'ok' if ok else 'WRONG'}")
    if not ok:
        failures.append(label)


probe("1:4", slice(1, 4), True)            # control: works
probe("1:4:1", slice(1, 4, 1), True)       # the same selection, step written out
probe("::1", slice(None, None, 1), True)   # identity
probe("::2", slice(None, None, 2), False)  # non-contiguous selection by a slice
probe("1::3", slice(1, None, 3), False)

# For comparison: the same stepped selection is accepted as a mask / index array ...
r = h[np.arange(6) % 2 == 0]
print(f"\ncontrol  h[mask of even bins] -> contents {r.frequencies.tolist()}, underflow {r.underflow}")
# ... and along an axis of an ND histogram, but not once an integer index has reduced it to 1D
h2 = Histogram2D([[0, 1, 2, 3], [0, 1, 2, 3, 4]], np.arange(12).reshape(3, 4), axis_names=["a", "b"])
r = h2[:, ::2]
print(f"control  h2[:, ::2] -> contents {r.frequencies.tolist()}  (accepted)")
print(f"h2[1, ::2]   numpy: {h2.frequencies[1, ::2].tolist()}; demanded: 1D histogram on axis 'b' with these contents")
try:
    r = h2[1, ::2]
    ok = np.array_equal(r.frequencies, h2.frequencies[1, ::2]) and r.axis_names == ("b",)
    print(f"  observed: contents {r.frequencies.tolist()} axis names {r.axis_names} -> {'ok' if ok else 'WRONG'}")
    if not ok:
        failures.append("h2[1, ::2]")
except Exception as exc:  # noqa
    print(f"  observed: REFUSED with {type(exc).__name__}: {exc}")
    failures.append("h2[1, ::2]")

if failures:
    print(f"\nFAIL: forward slices refused or wrong: {failures}")
    sys.exit(1)
print("\nOK")
