"""C11: a contiguous slice of a histogram with a narrow unsigned content type silently wraps the
cut-off contents around, so total + underflow + overflow is not conserved."""
import sys
import numpy as np
from physt import h1
from physt.histogram1d import Histogram1D

failures = []


def check(label, h, index):
    before = int(h.total) + int(h.underflow) + int(h.overflow)
    f0 = h.frequencies.copy()
    cut_left = int(f0[: index.start].sum(dtype=object)) if index.start else 0
    cut_right = int(f0[index.stop:].sum(dtype=object)) if index.stop else 0
    print(f"\n{label}: dtype {h.dtype}, contents {f0.tolist()}, underflow {h.underflow}, overflow {h.overflow}")
    print(f"  slice [{index.start}:{index.stop}] cuts off {cut_left} on the left and {cut_right} on the right")
    print(f"  demanded: underflow {int(h.underflow) + cut_left}, overflow {int(h.overflow) + cut_right}, "
          f"total+underflow+overflow = {before}")
    try:
        r = h[index]
    except Exception as exc:  # noqa
        print(f"  observed: refused with {type(exc).__name__}: {exc}  (a refusal, not a silent error)")
        return
    after = int(r.total) + int(r.underflow) + int(r.overflow)
    ok = after == before and np.array_equal(r.frequencies, f0[index])
    print(f"  observed: contents {r.frequencies.tolist()}, underflow {r.underflow}, overflow {r.overflow}, "
          f"total+underflow+overflow = {after}  -> {'ok' if ok else 'NOT CONSERVED'}")
    assert np.array_equal(h.frequencies, f0)
    if not ok:
        failures.append(label)


# 1. facade: 200000 values, 4 equal bins of 50000 (fits uint16), the two cut-off bins together do not
data = (np.arange(200_000) % 4) + 0.5
h = h1(data, 4, range=(0, 4), dtype=np.uint16)
check("h1(..., dtype=uint16)[2:]", h, slice(2, None))
check("h1(..., dtype=uint16)[:2]", h, slice(None, 2))
check("h1(..., dtype=uint16)[1:3] (control, sums fit)", h, slice(1, 3))

# 2. constructor, uint8
h = Histogram1D([0, 1, 2, 3, 4], [200, 200, 2, 1], dtype=np.uint8)
check("Histogram1D(dtype=uint8)[2:]", h, slice(2, None))
h = Histogram1D([0, 1, 2, 3, 4], [2, 1, 200, 200], dtype=np.uint8)
check("Histogram1D(dtype=uint8)[:2]", h, slice(None, 2))

# 3. the same histogram as the default int64: conserved
h = Histogram1D([0, 1, 2, 3, 4], [200, 200, 2, 1])
check("Histogram1D(int64)[2:] (control)", h, slice(2, None))

if failures:
    print(f"\nFAIL: total + underflow + overflow not conserved by a contiguous slice: {failures}")
    sys.exit(1)
print("\nOK")
