"""C15: theta of finite points of extreme magnitude is not the true angle from the +z axis.

The direction of a point does not change when all its coordinates are multiplied by a power
of two (that is exact in floating point), so the point and its scaled copy must land in the same
(theta, phi) bin of a spherical-surface histogram, and in the bin found by entering the true
(theta, phi) with transformed=True.
"""
import sys
import warnings

import numpy as np

from physt import special_histograms as sh

warnings.simplefilter("ignore")  # numpy reports the overflow of the intermediate hypot(), physt goes on

A = 1.5e308          # finite (max double is 1.797e308)
T = 5e-324           # the smallest positive double
cases = [
    # (point, exact scale that brings it to an ordinary magnitude)
    ("huge, northern ", np.array([A, A, A]), 2.0**-1000),
    ("huge, southern ", np.array([A, A, -A]), 2.0**-1000),
    ("huge, -x -y    ", np.array([-A, -A, 0.5 * A]), 2.0**-1000),
    ("tiny           ", np.array([T, T, 2 * T]), 2.0**1000),
    ("tiny, southern ", np.array([T, -T, -2 * T]), 2.0**1000),
]

points = np.array([p for _, p, _ in cases])
assert np.isfinite(points).all()

# All entry paths on the same 16 x 16 (theta, phi) bins
facade = sh.spherical_surface(points)
# an empty histogram with identical bins
empty = sh.SphericalSurfaceHistogram(binnings=[b.copy() for b in facade.binnings])

failures = 0
print("point                                 true (theta, phi)     library (theta, phi)   bin(true, transformed=True)  find_bin  fill  fill_n  facade")
for i, (label, point, scale) in enumerate(cases):
    scaled = point * scale                      # exact: same direction
    assert np.array_equal(scaled / scale, point)
    true_angles = sh.SphericalSurfaceHistogram.transform(scaled)   # ordinary magnitude: accurate
    # independent confirmation with the textbook formula on the scaled point
    x, y, z = scaled
    r = np.sqrt(x * x + y * y + z * z)
    assert abs(np.arccos(z / r) - true_angles[0]) < 1e-12

    lib_angles = sh.SphericalSurfaceHistogram.transform(point)
    expected_bin = empty.find_bin(true_angles, transformed=True)

    got_find = empty.find_bin(point)
    h_fill = empty.copy()
    got_fill = h_fill.fill(point)
    h_n = empty.copy()
    h_n.fill_n(point[np.newaxis, :])
    got_n = tuple(int(k) for k in np.argwhere(h_n.frequencies == 1)[0])
    one = sh.spherical_surface(point[np.newaxis, :])
    got_facade = tuple(int(k) for k in np.argwhere(one.frequencies == 1)[0])

    ok = got_find == got_fill == got_n == got_facade == expected_bin
    failures += not ok
    print(
        f"{label} {point!s:28} {np.round(true_angles, 4)!s:20} {np.round(lib_angles, 4)!s:20}  "
        f"{expected_bin!s:27} {got_find!s:9} {got_fill!s:5} {got_n!s:7} {got_facade!s:8} {'ok' if ok else 'WRONG BIN'}"
    )

# The inverse formula does not recover the direction either
theta, phi = sh.SphericalSurfaceHistogram.transform(np.array([A, A, -A]))
print("\ninverse of the library's (theta, phi) for (A, A, -A): direction",
      np.round([np.sin(theta) * np.cos(phi), np.sin(theta) * np.sin(phi), np.cos(theta)], 4),
      " demanded:", np.round(np.array([1, 1, -1]) / np.sqrt(3), 4))
print("(A, A, A) and (A, A, -A) share one bin:", empty.find_bin([A, A, A]) == empty.find_bin([A, A, -A]))

if failures:
    print(f"\nVIOLATION: {failures} of {len(cases)} finite points are binned by a theta that is not their angle from +z")
    sys.exit(1)
print("no violation")
