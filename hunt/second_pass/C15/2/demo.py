"""C15: a value of the wrong dimensionality is refused by fill(..., transformed=True) of a
transformed histogram with adaptive bins - but only after the histogram has been changed.

Demanded: "inputs of the wrong dimensionality are refused" - a refused input leaves the histogram
as it was (same bins, same contents). Observed: the ValueError is raised after the adaptive axis
has grown to cover the coordinates of the refused value.
"""
import sys
import warnings

import numpy as np

from physt import special_histograms as sh

warnings.simplefilter("ignore")

rng = np.random.default_rng(1)
points = rng.normal(size=(50, 3))
x, y = points[:, 0], points[:, 1]

failures = 0


def state(h):
    return (
        h.shape,
        [np.array(b.bins) for b in h.binnings],
        np.array(h.frequencies),
        np.array(h.errors2),
        h.total,
    )


def same(a, b):
    return (
        a[0] == b[0]
        and all(np.array_equal(p, q) for p, q in zip(a[1], b[1]))
        and np.array_equal(a[2], b[2])
        and np.array_equal(a[3], b[3])
        and a[4] == b[4]
    )


def probe(label, histogram, value, transformed=True):
    global failures
    before = state(histogram)
    reference = histogram.copy()
    try:
        result = histogram.fill(value, transformed=transformed)
        print(f"{label}: ACCEPTED -> {result}   (demanded: refused)")
        failures += 1
        return
    except (ValueError, TypeError) as exc:
        refusal = f"{type(exc).__name__}: {exc}"
    after = state(histogram)
    unchanged = same(before, after)
    print(f"{label}\n    refused with {refusal}")
    print(f"    shape before {before[0]}  after {after[0]}   demanded: unchanged -> {'ok' if unchanged else 'CHANGED'}")
    if not unchanged:
        failures += 1
        print(f"    right edge of the adaptive axis before {before[1][0][-1, 1]:g}  after {after[1][0][-1, 1]:g}")
        print(f"    has_same_bins(copy taken before the refused call): {histogram.has_same_bins(reference)}")


# 1D: radial histogram with adaptive fixed-width bins; a transformed value is ONE number (r)
radial = sh.radial(x, y, bins="fixed_width", bin_width=0.5, adaptive=True)
probe("RadialHistogram.fill([10., 20.], transformed=True)   (two numbers instead of one r)", radial, [10.0, 20.0])

# 1D: azimuthal
azimuthal = sh.azimuthal(x, y, bins="fixed_width", bin_width=np.pi / 8, adaptive=True)
probe("AzimuthalHistogram.fill([[7., 9.]], transformed=True)   (array instead of one phi)", azimuthal, [[7.0, 9.0]])

# 2D: polar histogram with an adaptive radial axis; a transformed value is (r, phi)
polar = sh.polar(x, y, radial_bins="fixed_width", bin_width=[0.5, None], adaptive=[True, None])
probe("PolarHistogram.fill([100., 1., 3.], transformed=True)   (three numbers instead of (r, phi))", polar, [100.0, 1.0, 3.0])

# 3D: cylindrical histogram with adaptive rho and z; a transformed value is (rho, phi, z)
cylindrical = sh.cylindrical(
    points, rho_bins="fixed_width", z_bins="fixed_width", bin_width=[0.5, None, 0.5], adaptive=[True, None, True]
)
probe("CylindricalHistogram.fill([50., 1., -30., 0.], transformed=True)   (four numbers)", cylindrical, [50.0, 1.0, -30.0, 0.0])

# Not transformed: an array of points given to fill(), which takes a single point
radial_b = sh.radial(x, y, bins="fixed_width", bin_width=0.5, adaptive=True)
probe("RadialHistogram.fill([[30., 40.], [60., 80.]])   (two points instead of one)", radial_b, [[30.0, 40.0], [60.0, 80.0]], transformed=False)
polar_b = sh.polar(x, y, radial_bins="fixed_width", bin_width=[0.5, None], adaptive=[True, None])
probe("PolarHistogram.fill([[30., 40.], [60., 80.]])   (two points instead of one)", polar_b, [[30.0, 40.0], [60.0, 80.0]], transformed=False)

# For comparison: fill_n refuses the same inputs without touching anything
polar2 = sh.polar(x, y, radial_bins="fixed_width", bin_width=[0.5, None], adaptive=[True, None])
before = state(polar2)
try:
    polar2.fill_n([[100.0, 1.0, 3.0]], transformed=True)
    print("fill_n accepted?!")
except ValueError as exc:
    print(f"PolarHistogram.fill_n([[100., 1., 3.]], transformed=True): refused ({exc}); unchanged: {same(before, state(polar2))}")

if failures:
    print(f"\nVIOLATION: {failures} refused fill() calls left a modified histogram behind")
    sys.exit(1)
print("no violation")
