"""C14: variance() / std() are not the population moments of the raw data.

Run:  PYTHONPATH=/tmp/mut/R6C14/src /venv/bin/python demo.py
"""
import sys
import warnings

import numpy as np

from physt import h1
from physt.histogram1d import Histogram1D

warnings.simplefilter("ignore")  # (numpy warns "invalid value encountered in sqrt")
failures = 0


def report(label, got, wanted, ok):
    global failures
    print(f"{label:<58} observed {got!r:<28} statement demands {wanted!r}  {'ok' if ok else 'VIOLATION'}")
    if not ok:
        failures += 1


# --- 1. identical values: population variance / std are 0 -----------------------------
data = [0.1, 0.1, 0.1]
h = h1(data, [0.0, 0.5, 1.0])
s = h.statistics
report("h1([0.1, 0.1, 0.1]).statistics.variance()", float(s.variance()), 0.0, s.variance() >= 0)
report("h1([0.1, 0.1, 0.1]).statistics.std()", float(s.std()), 0.0, s.std() == s.std() and abs(s.std()) < 1e-8)

h = Histogram1D([0.0, 0.5, 1.0])
for value in data:
    h.fill(value)
s = h.statistics
report("same data entered by fill(): std()", float(s.std()), 0.0, s.std() == s.std() and abs(s.std()) < 1e-8)

h = Histogram1D([0.0, 0.5, 1.0])
h.fill_n(data)
s = h.statistics
report("same data entered by fill_n(): std()", float(s.std()), 0.0, s.std() == s.std() and abs(s.std()) < 1e-8)

# a single value with a weight (1-element input)
h = h1([0.1], [0.0, 0.5, 1.0], weights=[3.0])
s = h.statistics
report("h1([0.1], weights=[3.0]).statistics.std()", float(s.std()), 0.0, s.std() == s.std() and abs(s.std()) < 1e-8)

# --- 2. ordinary data far from zero (e.g. unix time stamps): silently wrong numbers ----
rng = np.random.default_rng(0)
stamps = 1.7e9 + rng.normal(0.0, 1.0, 1000)  # all inside the bins, spread of one second
h = h1(stamps, 20)
s = h.statistics
true_var, true_std = float(np.var(stamps)), float(np.std(stamps))
report("1000 time stamps 1.7e9 +- 1: variance()", float(s.variance()), round(true_var, 6), abs(s.variance() - true_var) < 1e-3 * true_var)
report("1000 time stamps 1.7e9 +- 1: std()", float(s.std()), round(true_std, 6), abs(s.std() - true_std) < 1e-3 * true_std)

g = Histogram1D(h.binning.copy())
for value in stamps:
    g.fill(value)
s = g.statistics
report("same time stamps entered by fill(): variance()", float(s.variance()), round(true_var, 6), abs(s.variance() - true_var) < 1e-3 * true_var)
report("same time stamps entered by fill(): std()", float(s.std()), round(true_std, 6), abs(s.std() - true_std) < 1e-3 * true_std)
print("   (mean() of the same histogram is right: %r vs %r)" % (float(h.statistics.mean()), float(stamps.mean())))

if failures:
    print(f"\n{failures} violation(s) of C14: variance()/std() are not the weighted population moments of the raw data")
    sys.exit(1)
print("\nno violation observed")
