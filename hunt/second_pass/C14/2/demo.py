"""C14: Histogram1D.from_calculate_frequencies computes the statistics in the element type of the data.

Run:  PYTHONPATH=/tmp/mut/R6C14/src /venv/bin/python demo.py
"""
import sys
import warnings

import numpy as np

from physt import h1
from physt.binnings import StaticBinning
from physt.histogram1d import Histogram1D

warnings.simplefilter("ignore")
failures = 0


def report(label, got, wanted, ok):
    global failures
    print(f"  {label:<22} observed {got!r:<26} statement demands {wanted!r:<22} {'ok' if ok else 'VIOLATION'}")
    if not ok:
        failures += 1


def check(title, histogram, values, weights=None):
    values = np.asarray(values, dtype=np.float64)
    weights = np.ones_like(values) if weights is None else np.asarray(weights, dtype=np.float64)
    total = weights.sum()
    mean = (values * weights).sum() / total
    variance = (weights * (values - mean) ** 2).sum() / total
    s = histogram.statistics
    print(title, "-> frequencies", histogram.frequencies.tolist())
    report("statistics.sum", float(s.sum), float((values * weights).sum()), np.isclose(s.sum, (values * weights).sum(), rtol=1e-12))
    report("statistics.sum2", float(s.sum2), float((values**2 * weights).sum()), np.isclose(s.sum2, (values**2 * weights).sum(), rtol=1e-12))
    report("statistics.variance()", float(s.variance()), float(variance), np.isclose(s.variance(), variance, rtol=1e-9))
    report("statistics.std()", float(s.std()), float(np.sqrt(variance)), np.isclose(s.std(), np.sqrt(variance), rtol=1e-9))


binning = StaticBinning([0, 50000, 100000])
raw = [100, 200, 60000, 70000]  # all inside the bins, nothing exotic

# Reference: the facade gets it right
check("h1(int32 array)", h1(np.array(raw, dtype=np.int32), binning), raw)

# The alternative constructor "from values and bins"
data = np.array(raw, dtype=np.int32)
check("Histogram1D.from_calculate_frequencies(int32 array)", Histogram1D.from_calculate_frequencies(data, binning.copy()), raw)

weights = np.array([1.0, 2.0, 1.0, 2.0])
check(
    "Histogram1D.from_calculate_frequencies(int32 array, weights=float64)",
    Histogram1D.from_calculate_frequencies(data, binning.copy(), weights=weights),
    raw,
    weights,
)

data16 = np.array([100, 200, 300], dtype=np.int16)
check("Histogram1D.from_calculate_frequencies(int16 array [100, 200, 300])", Histogram1D.from_calculate_frequencies(data16, binning.copy()), [100, 200, 300])

data32 = np.array(raw, dtype=np.float32)
check("Histogram1D.from_calculate_frequencies(float32 array)", Histogram1D.from_calculate_frequencies(data32, binning.copy()), raw)

# ...and the wrong sums are carried along by everything that accumulates
h = Histogram1D.from_calculate_frequencies(data, binning.copy())
h.fill_n([10.0, 20.0])
total = h + h
check("(from_calculate_frequencies(int32) ; fill_n([10, 20])) + itself", total, raw + [10, 20] + raw + [10, 20])

if failures:
    print(f"\n{failures} violation(s) of C14: the statistics are not those of the raw data entered")
    sys.exit(1)
print("\nno violation observed")
