"""C03: ND histograms built "all at once" with keep_missed=False still record the
weight of the values outside the bins; fill / fill_n (correctly) record nothing."""
import sys
import warnings

import numpy as np

import physt
from physt import special_histograms
from physt.binnings import StaticBinning
from physt.histogram_nd import Histogram2D

warnings.simplefilter("ignore")

DATA = np.array([[0.5, 0.5], [0.2, 0.7], [5.0, 5.0], [-3.0, 0.5]])  # two inside, two outside
WEIGHTS = np.array([1, 2, 4, 8])


def binnings():
    return [StaticBinning([0.0, 1.0]), StaticBinning([0.0, 1.0])]


def state(h):
    return {
        "keep_missed": h.keep_missed,
        "frequencies": h.frequencies.tolist(),
        "errors2": h.errors2.tolist(),
        "missed": float(h.missed),
    }


failures = 0


def check(name, h, reference):
    global failures
    s = state(h)
    ok = s == reference
    failures += not ok
    print(f"  {name:58s}: {s}  {'ok' if ok else '<-- VIOLATION'}")


print("=== Histogram2D, keep_missed=False, weights", WEIGHTS.tolist())
one_by_one = Histogram2D(binnings(), keep_missed=False)
for value, weight in zip(DATA, WEIGHTS):
    one_by_one.fill(value, int(weight))
reference = state(one_by_one)
print("demanded (tracking is off => values outside change nothing): missed = 0.0 on every route")
check("fill, one at a time", one_by_one, reference)

batch = Histogram2D(binnings(), keep_missed=False)
batch.fill_n(DATA[:1], weights=WEIGHTS[:1])
batch.fill_n(DATA[1:], weights=WEIGHTS[1:])
check("fill_n, two batches", batch, reference)

constructed = Histogram2D.from_calculate_frequencies(
    DATA, binnings(), weights=WEIGHTS, keep_missed=False
)
check("Histogram2D.from_calculate_frequencies(keep_missed=False)", constructed, reference)
print("  constructed == filled ?", constructed == one_by_one, "(expected True)")

# The main facade silently drops the keyword: tracking is not even switched off
facade = physt.h(DATA, binnings(), weights=WEIGHTS, keep_missed=False)
check("physt.h(data, bins, keep_missed=False)", facade, reference)
facade2 = physt.h2(DATA[:, 0], DATA[:, 1], binnings(), weights=WEIGHTS, keep_missed=False)
check("physt.h2(x, y, bins, keep_missed=False)", facade2, reference)

print("=== PolarHistogram (transformed 2D), keep_missed=False, no weights")
xy = np.array([[0.5, 0.1], [0.1, 0.3], [3.0, 4.0]])  # radii 0.51, 0.32, 5.0 -> the last is outside r < 1
polar = special_histograms.polar(
    xy[:, 0], xy[:, 1], radial_bins=np.array([0.0, 1.0]), phi_bins=2, keep_missed=False
)
filled = polar.copy(include_frequencies=False)
for point in xy:
    filled.fill(point)
reference = state(filled)
check("fill, one at a time", filled, reference)
filled_n = polar.copy(include_frequencies=False)
filled_n.fill_n(xy)
check("fill_n", filled_n, reference)
check("special_histograms.polar(x, y, keep_missed=False)", polar, reference)

if failures:
    print(f"\nFAIL: {failures} construction route(s) disagree with fill / fill_n about the missed weight (keep_missed=False)")
    sys.exit(1)
print("\nOK")
