"""C03: 1D underflow / overflow differ between fill and fill_n / construction
for bins with a gap, although no value ever falls into the gap."""
import sys
import warnings

import numpy as np

from physt import h1
from physt.histogram1d import Histogram1D

warnings.simplefilter("ignore")

BINS = np.array([[0.0, 1.0], [2.0, 3.0]])  # rising bins with a gap (1, 2)
DATA = [-1.0, 0.5, 2.5, 7.0]  # one below, one in each bin, one above; NONE in the gap
WEIGHTS = [2, 1, 1, 3]


def state(h):
    return {
        "frequencies": h.frequencies.tolist(),
        "errors2": h.errors2.tolist(),
        "underflow": float(h.underflow),
        "overflow": float(h.overflow),
    }


def same(x, y):
    return all(np.array_equal(x[k], y[k], equal_nan=True) for k in x)


failures = 0
for label, weights in (("unweighted", None), ("weighted", WEIGHTS)):
    # one value at a time with fill (the returned indices are the documented ones)
    one_by_one = Histogram1D(BINS)
    returned = [
        one_by_one.fill(v) if weights is None else one_by_one.fill(v, w)
        for v, w in zip(DATA, weights or [1] * len(DATA))
    ]
    # the same values in one batch
    batch = Histogram1D(BINS)
    batch.fill_n(DATA, weights=weights)
    # the same values in batches of one (a chunking like any other)
    singles = Histogram1D(BINS)
    for i, v in enumerate(DATA):
        singles.fill_n([v], weights=None if weights is None else [weights[i]])
    # all at once at construction
    constructed = h1(DATA, BINS, weights=weights)

    expected_under = (weights or [1] * 4)[0]
    expected_over = (weights or [1] * 4)[3]
    print(f"--- {label}: bins {BINS.tolist()}, data {DATA}, weights {weights}")
    print("fill() returned          :", returned, "(expected [-1, 0, 1, 2]: no None, i.e. no gap was hit)")
    print("demanded by the statement: underflow =", expected_under, " overflow =", expected_over, "on every route")
    for name, h in (
        ("fill, one at a time", one_by_one),
        ("fill_n, one batch", batch),
        ("fill_n, batches of one", singles),
        ("h1(data, bins)", constructed),
    ):
        s = state(h)
        ok = same(s, state(one_by_one)) and s["underflow"] == expected_under and s["overflow"] == expected_over
        failures += not ok
        print(f"  {name:24s}: {s}  {'ok' if ok else '<-- VIOLATION'}")

if failures:
    print(f"\nFAIL: {failures} route(s) report another underflow / overflow than fill() for the same values")
    sys.exit(1)
print("\nOK")
