"""C12: a histogram rebuilt with Histogram1D.from_xarray(h.to_xarray()) shares its bin contents with h.

Run:  PYTHONPATH=/tmp/mut/R5C12/src /venv/bin/python demo.py
"""
import sys
import warnings

import numpy as np

import physt  # noqa: F401  (registers Histogram1D.to_xarray / from_xarray when xarray is installed)
from physt import h1
from physt.histogram1d import Histogram1D

warnings.simplefilter("ignore")

if not hasattr(Histogram1D, "from_xarray"):
    print("xarray is not installed, the conversion is not available - nothing to show")
    sys.exit(0)

failures = []


def check(label, observed, demanded):
    ok = np.array_equal(np.asarray(observed), np.asarray(demanded))
    print(f"{label}\n    observed: {observed}\n    demanded: {demanded}   {'ok' if ok else '<-- VIOLATION'}")
    if not ok:
        failures.append(label)


source = h1([0.5, 1.5, 1.7, 2.5], [0, 1, 2, 3], name="source")
derived = Histogram1D.from_xarray(source.to_xarray())  # documented inverse pair of public conversions
print("derived == source:", derived == source, "| derived is source:", derived is source)

# 1) a later fill of the derived histogram must not be seen in the source
derived.fill(0.5)
check("source.frequencies after derived.fill(0.5)", source.frequencies.tolist(), [1, 2, 1])
check("source.errors2 after derived.fill(0.5)", source.errors2.tolist(), [1, 2, 1])
check("source.total after derived.fill(0.5)", source.total, 4)
print("    (source.statistics.weight is still", source.statistics.weight, "- the source is now inconsistent with itself)")

# 2) ... and the other way round (fill_n on the source)
source2 = h1([0.5, 1.5, 1.7, 2.5], [0, 1, 2, 3], name="source")
derived2 = Histogram1D.from_xarray(source2.to_xarray())
source2.fill_n([2.5, 2.6, 2.7])
check("derived.frequencies after source.fill_n([2.5, 2.6, 2.7])", derived2.frequencies.tolist(), [1, 2, 1])
check("derived.total after source.fill_n(...)", derived2.total, 4)

# 3) a direct edit of bin contents / errors of one of them
source3 = h1([0.5, 1.5, 1.7, 2.5], [0, 1, 2, 3], weights=[1.0, 1.0, 1.0, 1.0])
derived3 = Histogram1D.from_xarray(source3.to_xarray())
derived3.fill(1.5, weight=0.25)
check("source.frequencies after derived.fill(1.5, weight=0.25)", source3.frequencies.tolist(), [1.0, 2.0, 1.0])

if failures:
    print(f"\n{len(failures)} observation(s) contradict C12: the derived histogram and its source share their data")
    sys.exit(1)
print("\nno violation observed")
