"""C12: a histogram rebuilt from the dictionary form (from_dict / physt.io.create_from_dict of h.to_dict())
shares all nested meta data values with h - a metadata edit on one is reported by the other.

Run:  PYTHONPATH=/tmp/mut/R5C12/src /venv/bin/python demo.py
"""
import sys
import warnings


from physt import h1, h2
from physt.histogram1d import Histogram1D
from physt.io import create_from_dict, parse_json

warnings.simplefilter("ignore")
failures = []


def check(label, observed, demanded):
    ok = observed == demanded
    print(f"{label}\n    observed: {observed}\n    demanded: {demanded}   {'ok' if ok else '<-- VIOLATION'}")
    if not ok:
        failures.append(label)


def make():
    h = h1([0.5, 1.5, 1.7, 2.5], [0, 1, 2, 3], name="source")
    h.meta_data["tags"] = ["raw"]
    h.meta_data["run"] = {"id": 7, "files": ["a.root"]}
    return h


# --- alternative constructor from_dict ------------------------------------------------------
source = make()
derived = Histogram1D.from_dict(source.to_dict())
print("derived == source:", derived == source, "| same meta data dict object:", derived.meta_data is source.meta_data)
derived.meta_data["tags"].append("calibrated")          # metadata edit on the derived histogram
derived.meta_data["run"]["files"].append("b.root")
check("source.meta_data['tags'] after an edit of the derived one", source.meta_data["tags"], ["raw"])
check("source.meta_data['run'] after an edit of the derived one", source.meta_data["run"], {"id": 7, "files": ["a.root"]})

source = make()
derived = Histogram1D.from_dict(source.to_dict())
source.meta_data["run"]["id"] = 8                        # metadata edit on the source
check("derived.meta_data['run']['id'] after an edit of the source", derived.meta_data["run"]["id"], 7)

# --- the io entry point that JSON parsing is built on ----------------------------------------
source = make()
data = source.to_dict()
data["physt_compatible"] = "0.3.20"
derived = create_from_dict(data, format_name="dict")
derived.meta_data["tags"].clear()
check("source.meta_data['tags'] after create_from_dict(...).meta_data['tags'].clear()", source.meta_data["tags"], ["raw"])

# --- N-dimensional histograms behave the same ------------------------------------------------
source = h2([0.5, 1.5], [0.5, 1.5], 2, name="two")
source.meta_data["tags"] = ["raw"]
derived = type(source).from_dict(source.to_dict())
derived.meta_data["tags"].append("x")
check("2D: source.meta_data['tags'] after an edit of the derived one", source.meta_data["tags"], ["raw"])

# --- for comparison: the textual JSON path and copy() are independent --------------------------
source = make()
for label, other in (("parse_json(to_json())", parse_json(source.to_json())), ("copy()", source.copy())):
    other.meta_data["tags"].append("zzz")
    print(f"(comparison) {label}: source tags stay {source.meta_data['tags']}")

if failures:
    print(f"\n{len(failures)} observation(s) contradict C12: metadata edits travel between the histograms")
    sys.exit(1)
print("\nno violation observed")
