"""C16: left/right edges, centres and widths (1D, per axis and mesh forms) are consistent with `bins`.

Bin edges that arrive as a 32-bit (or 16-bit) integer array - e.g. unix timestamps in seconds,
the usual int32 column of a data file - are kept in that type, and the centres / widths are
computed in it:  (left + right) / 2  adds the two edges in int32 first and wraps around,
right - left wraps around in int16.  The edges themselves are stored correctly.
"""
import sys
import warnings

import numpy as np

from physt import h1, h2
from physt.histogram1d import Histogram1D
from physt.histogram_collection import HistogramCollection

warnings.simplefilter("ignore")
failures = []


def report(label, observed, demanded):
    ok = np.allclose(np.asarray(observed, dtype=float), demanded, rtol=1e-12, atol=0)
    print(f"{label}\n    observed: {observed}\n    demanded: {demanded}\n    -> {'ok' if ok else 'VIOLATION'}")
    if not ok:
        failures.append(label)


# unix timestamps (seconds), irregular bins, int32 as read from a file
edges = np.array([1_600_000_000, 1_650_000_000, 1_680_000_000, 1_700_000_000], dtype=np.int32)
stamps = [1_610_000_000, 1_660_000_000, 1_690_000_000, 1_695_000_000]
h = h1(stamps, edges)
print("Histogram1D  bins =", h.bins.tolist(), " dtype of the edges:", h.bins.dtype)
bins = np.asarray(h.bins, dtype=float)
true_centers = (bins[:, 0] + bins[:, 1]) / 2
report("1D: bin_centers  vs  middle of each [left, right]", h.bin_centers, true_centers)
inside = (h.bin_centers >= h.bin_left_edges) & (h.bin_centers <= h.bin_right_edges)
print("    centre inside its own bin:", inside.tolist())

# the same through a 2D histogram: per-axis and mesh forms
g = h2(stamps, [0.5, 1.5, 0.5, 1.5], [edges, [0.0, 1.0, 2.0]])
report("2D: get_bin_centers(0)  vs  middle of the bins of axis 0", g.get_bin_centers(0), true_centers)
report("2D: get_bin_centers()[0][:, 0] (mesh form)  vs  the same", g.get_bin_centers()[0][:, 0], true_centers)

# ... and through a collection
col = HistogramCollection(h)
report("collection: bin_centers  vs  middle of the bins", col.bin_centers, true_centers)

# 16-bit edges: the widths (hence bin_sizes, total_width and the densities) wrap around as well
e16 = np.array([-30000, 30000, 32000], dtype=np.int16)
k = Histogram1D(e16, [6, 1])
print("\nHistogram1D  bins =", k.bins.tolist(), " dtype of the edges:", k.bins.dtype)
report("int16: bin_widths  vs  right - left", k.bin_widths, [60000.0, 2000.0])
report("int16: total_width  vs  sum of the true widths", k.total_width, 62000.0)
report("int16: densities * true widths  vs  frequencies", k.densities * np.array([60000.0, 2000.0]), [6.0, 1.0])

if failures:
    print(f"\n{len(failures)} violation(s) of C16")
    sys.exit(1)
print("\nno violation")
