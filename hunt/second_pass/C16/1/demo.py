"""C16: densities * bin_sizes == frequencies, bin_sizes being the true measure of each bin.

Bin edges given as plain python integers (-> int64 arrays, the default integer type)
make the library compute the bin measures in integer arithmetic, which silently wraps around:
  * SphericalHistogram.bin_sizes:  r2**3 - r1**3   (wrong as soon as r >= 2_097_152)
  * HistogramND.bin_sizes:         product of the integer widths (wrong as soon as it is >= 2**63)
All the numbers involved are far below 2**53.
"""
import sys
import warnings

import numpy as np

from physt import h3, spherical

warnings.simplefilter("ignore")
failures = []


def report(label, observed, demanded):
    ok = np.allclose(observed, demanded, rtol=1e-9, atol=0)
    print(f"{label}\n    observed: {observed}\n    demanded: {demanded}\n    -> {'ok' if ok else 'VIOLATION'}")
    if not ok:
        failures.append(label)


# ---------------------------------------------------------------- spherical histogram
rng = np.random.default_rng(0)
points = rng.normal(size=(2000, 3)) * 1.0e6
r_edges = [0, 1_000_000, 2_000_000, 3_000_000]           # python ints, irregular bins work as well
hs = spherical(points, radial_bins=r_edges, theta_bins=[0, 1.0, np.pi], phi_bins=[0, 2.0, 2 * np.pi])
print("SphericalHistogram, radial edges", r_edges, "edge dtype:", hs.bins[0].dtype)

r = np.asarray(r_edges, dtype=float)
theta = np.array([0, 1.0, np.pi])
phi = np.array([0, 2.0, 2 * np.pi])
true_sizes = np.einsum(
    "i,j,k->ijk", (r[1:] ** 3 - r[:-1] ** 3) / 3, np.cos(theta[:-1]) - np.cos(theta[1:]), np.diff(phi)
)
report("spherical: bin_sizes[:, 0, 0]  vs  (r2^3-r1^3)/3*(cos th1-cos th2)*dphi", hs.bin_sizes[:, 0, 0], true_sizes[:, 0, 0])
report("spherical: densities * true measure  vs  frequencies (cells [:, 0, 0])",
       (hs.densities * true_sizes)[:, 0, 0], hs.frequencies[:, 0, 0].astype(float))
report("spherical: total_size  vs  4/3*pi*R^3 (full angular ranges)", hs.total_size, 4 / 3 * np.pi * r[-1] ** 3)
merged = hs.merge_bins(3, axis=0)
report("spherical: measure of the three radial shells merged  vs  sum of the three", merged.bin_sizes[0], hs.bin_sizes.sum(axis=0))

# ---------------------------------------------------------------- plain 3D histogram
edges = [0, 1_000_000, 4_000_000]
data = rng.uniform(0, 4_000_000, size=(2000, 3))
hn = h3(data, [edges, edges, edges])
print("\nHistogramND, edges on every axis", edges, "edge dtype:", hn.bins[0].dtype)
w = np.diff(np.asarray(edges, dtype=float))
true_nd = np.einsum("i,j,k->ijk", w, w, w)
report("3D: bin_sizes[1, 1, :]  vs  product of widths", hn.bin_sizes[1, 1, :], true_nd[1, 1, :])
report("3D: densities * true measure  vs  frequencies (cells [1, 1, :])",
       (hn.densities * true_nd)[1, 1, :], hn.frequencies[1, 1, :].astype(float))
report("3D: total_size  vs  volume of the covered box", hn.total_size, 4.0e6**3)

# the same histograms with float edges are fine
hf = h3(data, [[float(e) for e in edges]] * 3)
print("\n(with the same edges given as floats: total_size =", hf.total_size, ")")

if failures:
    print(f"\n{len(failures)} violation(s) of C16")
    sys.exit(1)
print("\nno violation")
