"""C19: negative contents must be refused while free arithmetics is disabled.

`h.frequencies -= 5` (augmented assignment through the public `frequencies`
property) is answered with the error "Cannot have negative frequencies." - and
the histogram holds the negative contents nevertheless.
"""
import sys
import warnings

import numpy as np

from physt import h1, h2
from physt.config import config

warnings.simplefilter("ignore")
failures = 0


def check(label, histogram, operation):
    global failures
    before = histogram.frequencies.copy()
    total_before = histogram.total
    try:
        operation(histogram)
        outcome = "accepted without any error"
    except ValueError as exc:
        outcome = f"refused with ValueError({exc})"
    after = np.asarray(histogram.frequencies)
    print(f"--- {label}  (config.free_arithmetics = {config.free_arithmetics})")
    print(f"    contents before : {before.ravel().tolist()}  total = {total_before}")
    print(f"    operation       : {outcome}")
    print(f"    contents after  : {after.ravel().tolist()}  total = {histogram.total}")
    print("    demanded        : a refusal, i.e. no negative contents in the histogram "
          f"-> still {before.ravel().tolist()}")
    if np.any(after < 0):
        print("    VIOLATION       : the histogram holds negative contents although free "
              "arithmetics is disabled")
        failures += 1
    else:
        print("    ok")


def minus_five(h):
    h.frequencies -= 5


def times_minus_one(h):
    h.frequencies *= -1


def reference(h):
    # The same request spelled out: refused cleanly
    h.frequencies = h.frequencies - 5


assert not config.free_arithmetics

check("reference: h.frequencies = h.frequencies - 5", h1([1, 2, 3, 4], 4), reference)
check("1D: h.frequencies -= 5", h1([1, 2, 3, 4], 4), minus_five)
check("1D: h.frequencies *= -1", h1([1, 2, 3, 4], 4), times_minus_one)
check("2D: h.frequencies -= 5", h2([1, 2, 3, 4.0], [1, 2, 3, 4.0], 2), minus_five)

# The switch is scoped correctly, it is simply not what decides here: the same result
# inside an explicitly disabled context nested in an enabled one
with config.enable_free_arithmetics():
    with config.enable_free_arithmetics(False):
        check("nested disabled context: h.frequencies -= 5", h1([1, 2, 3, 4], 4), minus_five)

# What such a histogram then does outside free arithmetics
h = h1([1, 2, 3, 4], 4)
try:
    h.frequencies -= 5
except ValueError:
    pass
print("\nafterwards:", repr(h))
try:
    h + h1([1, 2, 3, 4], 4)
except ValueError as exc:
    print("h + other   ->", exc)

if failures:
    print(f"\n{failures} violation(s)")
    sys.exit(1)
print("\nno violation")
