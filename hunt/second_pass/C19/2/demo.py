"""C19: without free arithmetics an operation that would produce negative contents is
"refused with an error".  `a += b` / `a -= b` raise the error indeed - but the left operand
has already been modified: its content type is promoted and, for adaptive histograms,
its binning is rewritten.
"""
import sys
import warnings

import numpy as np

from physt import h1
from physt.config import config
from physt.histogram1d import Histogram1D

warnings.simplefilter("ignore")
failures = 0
EDGES = [0, 1, 2, 3]


def describe(h):
    return (
        f"dtype={h.dtype}, bins={h.bin_count}, edges={h.numpy_bins.tolist()}, "
        f"contents={h.frequencies.tolist()} ({h.frequencies.dtype}), "
        f"errors2={h.errors2.tolist()} ({h.errors2.dtype})"
    )


def check(label, left, right, operation):
    global failures
    before = describe(left)
    try:
        operation(left, right)
        outcome = "accepted"
    except ValueError as exc:
        outcome = f"refused with ValueError({exc})"
    after = describe(left)
    print(f"--- {label}  (config.free_arithmetics = {config.free_arithmetics})")
    print(f"    operation    : {outcome}")
    print(f"    left before  : {before}")
    print(f"    left after   : {after}")
    print("    demanded     : refused => the left operand is what it was before")
    if outcome != "accepted" and before != after:
        print("    VIOLATION    : the refused operation has modified its operand")
        failures += 1
    else:
        print("    ok")


def isub(a, b):
    a -= b


def iadd(a, b):
    a += b


assert not config.free_arithmetics

# 1. Free arithmetics never enabled: a subtraction whose result would be negative
check(
    "a -= b, result would be negative",
    Histogram1D(EDGES, [1, 2, 3]),
    Histogram1D(EDGES, [1.5, 3.0, 3.0]),
    isub,
)

# 2. An operand with negative contents (made where they are allowed) met outside
with config.enable_free_arithmetics():
    negative = Histogram1D(EDGES, [1.5, 2.0, 3.0]) * -1
    negative_adaptive = (
        h1([10.5, 11, 12], "fixed_width", bin_width=1, adaptive=True, weights=[1.5, 1, 1]) * -1
    )
assert not config.free_arithmetics  # restored

check("a += negative", Histogram1D(EDGES, [1, 2, 3]), negative, iadd)
check(
    "adaptive a += negative (other bins)",
    h1([1, 2, 3], "fixed_width", bin_width=1, adaptive=True),
    negative_adaptive,
    iadd,
)

if failures:
    print(f"\n{failures} violation(s)")
    sys.exit(1)
print("\nno violation")
