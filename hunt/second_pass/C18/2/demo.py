"""C18 demo: HistogramCollection.normalize_all(inplace=True) fails half-way.

Run with: PYTHONPATH=/tmp/mut/R6C18/src /venv/bin/python demo.py
"""
import sys
import warnings

import numpy as np

import physt
from physt.histogram_collection import HistogramCollection

warnings.simplefilter("ignore")


def state(collection):
    return [
        dict(
            name=h.name,
            dtype=str(h.dtype),
            frequencies=h.frequencies.tolist(),
            errors2=h.errors2.tolist(),
            missed=np.asarray(h._missed).tolist(),
        )
        for h in collection
    ]


# Three data sets histogrammed with shared bins; the second one has no value inside the bins.
col = HistogramCollection(binning=np.array([0.0, 1.0, 2.0, 3.0]), name="runs")
col.create("run1", [0.5, 1.5, 1.6, 7.0])
col.create("run2", [10.0, 11.0])          # everything in overflow, total == 0
col.create("run3", [2.5, 2.6])

before = state(col)
try:
    col.normalize_all(inplace=True)
    raised = None
except Exception as exc:
    raised = exc
after = state(col)

print("operation: HistogramCollection.normalize_all(inplace=True)")
print("raised   :", repr(raised))
for b, a in zip(before, after):
    mark = "unchanged" if a == b else "CHANGED"
    print(f"  {b['name']}: {mark}")
    print(f"     before: {b}")
    print(f"     after : {a}")
print("demanded : an operation that raises leaves every content, squared error and missed")
print("           count at exactly the value it had (all three members as before)")

# The copying variant behaves: nothing is touched
col2 = HistogramCollection(binning=np.array([0.0, 1.0, 2.0, 3.0]))
col2.create("run1", [0.5, 1.5, 1.6, 7.0])
col2.create("run2", [10.0, 11.0])
b2 = state(col2)
try:
    col2.normalize_all(inplace=False)
except ZeroDivisionError:
    pass
print("(inplace=False for comparison: members unchanged =", state(col2) == b2, ")")

if raised is not None and before != after:
    changed = [b["name"] for b, a in zip(before, after) if a != b]
    print(f"\nVIOLATION of C18: the call raised {type(raised).__name__} but changed {changed}")
    sys.exit(1)
print("\nno violation observed")
