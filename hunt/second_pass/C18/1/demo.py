"""C18 demo: filling an int16 / int32 histogram in several calls wraps the counts around.

Run with: PYTHONPATH=/tmp/mut/R6C18/src /venv/bin/python demo.py
"""
import sys
import warnings

import numpy as np

import physt
from physt import h1, h2

warnings.simplefilter("ignore")
failures = []


def report(label, ok, observed, demanded):
    print(f"{label}\n    observed: {observed}\n    demanded: {demanded}\n    -> {'ok' if ok else 'VIOLATION'}")
    if not ok:
        failures.append(label)


def contents(h):
    return dict(
        dtype=str(h.dtype),
        frequencies=h.frequencies.tolist(),
        errors2=h.errors2.tolist(),
        missed=np.asarray(h._missed).tolist(),
    )


rng = np.random.default_rng(42)
data = rng.uniform(0, 3, 120_000)  # about 40 000 values per unit bin, weights all +1

# --- (a) 1D, int16 contents (a supported content type), filled in portions ------------------
h = h1(data[:30_000], [0, 1, 2, 3], dtype=np.int16)
print("start:", contents(h))
for start in range(30_000, 120_000, 30_000):
    h.fill_n(data[start : start + 30_000])  # no exception is raised
print("after 4 x 30000 values:", contents(h))
expected = np.histogram(data, [0, 1, 2, 3])[0]
report(
    "(a) Histogram1D[int16].fill_n: no bin content is negative, squared errors are non-negative",
    bool((h.frequencies >= 0).all() and (h.errors2 >= 0).all()),
    f"frequencies={h.frequencies.tolist()} errors2={h.errors2.tolist()} (dtype {h.dtype})",
    f"frequencies={expected.tolist()} (or a refusal that leaves the histogram as it was)",
)

# --- (b) the same with int32 and a histogram that is (legitimately) almost full ---------------
h = physt.histogram1d.Histogram1D([0, 1, 2], [2**31 - 5, 7], dtype=np.int32)
h.fill_n([0.5] * 10)
report(
    "(b) Histogram1D[int32].fill_n of 10 values into a bin holding 2**31 - 5",
    bool((h.frequencies >= 0).all() and (h.errors2 >= 0).all()),
    f"frequencies={h.frequencies.tolist()} errors2={h.errors2.tolist()}",
    f"frequencies={[2**31 + 5, 7]} (dtype promoted) or a refusal",
)

# --- (c) fill() with a weight that is a numpy int16 ------------------------------------------
h = physt.histogram1d.Histogram1D([0, 1, 2], [32767, 1], dtype=np.int16)
h.fill(0.5, weight=np.int16(1))
report(
    "(c) Histogram1D[int16].fill(0.5, weight=np.int16(1)) on a bin holding 32767",
    bool((h.frequencies >= 0).all() and (h.errors2 >= 0).all()),
    f"frequencies={h.frequencies.tolist()} errors2={h.errors2.tolist()}",
    "frequencies=[32768, 1] (dtype promoted) or a refusal",
)

# --- (d) 2D: contents wrap as well ------------------------------------------------------------
h = h2(data[:30_000], data[:30_000], [[0, 3], [0, 3]], dtype=np.int16)
h.fill_n(np.column_stack([data[30_000:40_000], data[30_000:40_000]]))
report(
    "(d) Histogram2D[int16].fill_n: 30000 + 10000 values in one cell",
    bool((h.frequencies >= 0).all() and (h.errors2 >= 0).all()),
    f"frequencies={h.frequencies.tolist()} errors2={h.errors2.tolist()}",
    "frequencies=[[40000]] (dtype promoted) or a refusal",
)

# --- (e) ... and when it is the missed count that does not fit, the call fails half-way -------
h = h2(data[:30_000], data[:30_000], [[0, 1], [0, 1]], dtype=np.int16)  # ~10000 inside, ~20000 missed
before = contents(h)
try:
    h.fill_n(np.column_stack([data[30_000:60_000], data[30_000:60_000]]))
    raised = None
except Exception as exc:  # OverflowError from `self._missed[0] += missed`
    raised = exc
after = contents(h)
print("before:", before)
print("raised:", repr(raised))
print("after :", after)
report(
    "(e) Histogram2D[int16].fill_n that raises leaves contents / errors / missed as they were",
    raised is None or before == after,
    f"raised {type(raised).__name__}; frequencies {before['frequencies']} -> {after['frequencies']}, "
    f"missed {before['missed']} -> {after['missed']}",
    "a call that raises changes nothing",
)

# --- (f) same thing in 1D -----------------------------------------------------------------------
h = h1(data[:30_000], [0, 1], dtype=np.int16)  # ~10000 inside, ~20000 overflow
before = contents(h)
try:
    h.fill_n(data[30_000:60_000])
    raised = None
except Exception as exc:
    raised = exc
after = contents(h)
report(
    "(f) Histogram1D[int16].fill_n that raises leaves contents / errors / missed as they were",
    raised is None or before == after,
    f"raised {type(raised).__name__}; frequencies {before['frequencies']} -> {after['frequencies']}, "
    f"missed {before['missed']} -> {after['missed']}",
    "a call that raises changes nothing",
)

print()
if failures:
    print(f"{len(failures)} violation(s) of C18:")
    for f in failures:
        print("  -", f)
    sys.exit(1)
print("no violation observed")
