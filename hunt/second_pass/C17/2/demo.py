"""C17: the histogram of a dask array made by physt.compat.dask.h1 / histogramdd with the
"pretty" binning depends on how the array is chunked (and differs from the histogram of the
equivalent numpy array with the same arguments).

Run:  PYTHONPATH=/tmp/mut/R6C17/src /venv/bin/python demo.py
"""
import sys
import warnings

import dask.array as da
import numpy as np

import physt
from physt.compat import dask as physt_dask

warnings.simplefilter("ignore")

rng = np.random.default_rng(1)
values = rng.normal(size=1000)
values[[3, 7, 20]] = np.nan
failures = []


def describe(h):
    if h.ndim == 1:
        return f"bin width={h.bin_widths[0]:g}, {h.bin_count} bins from {h.numpy_bins[0]:g} to {h.numpy_bins[-1]:g}, total={h.total}, freq={h.frequencies.tolist()}"
    return f"shape={h.shape}, widths={[float(b.bin_width) for b in h.binnings]}, total={h.total}"


def same(a, b):
    edges_a = [a.numpy_bins] if a.ndim == 1 else list(a.numpy_bins)
    edges_b = [b.numpy_bins] if b.ndim == 1 else list(b.numpy_bins)
    return (
        all(np.array_equal(x, y) for x, y in zip(edges_a, edges_b))
        and a.frequencies.shape == b.frequencies.shape
        and np.array_equal(a.frequencies, b.frequencies)
        and np.array_equal(a.errors2, b.errors2)
    )


def check(label, expected, func):
    try:
        observed = func()
    except Exception as exc:  # noqa: BLE001  (a refusal is not what this demo is about)
        print(f"  {label:<28}: refused ({type(exc).__name__}: {exc})")
        return
    verdict = "same" if same(expected, observed) else "DIFFERENT"
    print(f"  {label:<28}: {describe(observed)}  => {verdict}")
    if verdict != "same":
        failures.append(label)


# ---------------------------------------------------------------- 1D
for kwargs in [dict(bin_count=10), dict(range=(-1, 1))]:
    expected = physt.h1(values, "pretty", adaptive=True, **kwargs)
    print(f'h1(<array>, "pretty", {kwargs})  - the dask facade always works with adaptive=True')
    print(f"  {'demanded (numpy array)':<28}: {describe(expected)}")
    for chunks in [1000, 250, 100]:
        check(f"dask chunks={chunks}", expected,
              lambda: physt_dask.h1(da.from_array(values, chunks=chunks), "pretty", **kwargs))
    print()

print('control: h1(<array>, "fixed_width", bin_width=0.5) is independent of the chunks')
expected = physt.h1(values, "fixed_width", bin_width=0.5, adaptive=True)
print(f"  {'demanded (numpy array)':<28}: {describe(expected)}")
for chunks in [1000, 250, 100]:
    check(f"dask chunks={chunks}", expected,
          lambda: physt_dask.h1(da.from_array(values, chunks=chunks), "fixed_width", bin_width=0.5))
print()

# ---------------------------------------------------------------- ND
table = np.column_stack([values, rng.normal(size=1000) * 3])
expected = physt.h(table, "pretty", adaptive=True, bin_count=10)
print('h(<table>, "pretty", bin_count=10)')
print(f"  {'demanded (numpy array)':<28}: {describe(expected)}")
for chunks in [1000, 250, 100]:
    check(f"dask chunks=({chunks}, 2)", expected,
          lambda: physt_dask.histogramdd(da.from_array(table, chunks=(chunks, 2)), "pretty", bin_count=10))

print()
if failures:
    print(f"VIOLATION of C17: {len(failures)} chunking(s) gave a histogram different from that of the array.")
    sys.exit(1)
print("No violation observed.")
