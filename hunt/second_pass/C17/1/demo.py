"""C17: a one-column selection through the pandas DataFrame accessor `.physt.histogram`
does not give the histogram of the equivalent array once `bins` is passed.

Run:  PYTHONPATH=/tmp/mut/R6C17/src /venv/bin/python demo.py
"""
import sys
import warnings

import numpy as np
import pandas as pd

import physt
import physt.compat.pandas  # noqa: F401  (registers the .physt accessors)

warnings.simplefilter("ignore")

rng = np.random.default_rng(0)
values = rng.normal(size=200)
values[[3, 50]] = np.nan  # NaN rows must simply be dropped
failures = []


def describe(h):
    return f"{type(h).__name__} bins={h.bin_count} edges={np.round(h.numpy_bins, 3).tolist()} freq={h.frequencies.tolist()} axis={h.axis_names}"


def same(a, b):
    return (
        type(a) is type(b)
        and np.array_equal(a.bins, b.bins)
        and np.array_equal(a.frequencies, b.frequencies)
        and np.array_equal(a.errors2, b.errors2)
        and a.axis_names == b.axis_names
    )


def check(label, expected, func):
    print(f"--- {label}")
    print("  demanded :", describe(expected))
    try:
        observed = func()
    except Exception as exc:  # noqa: BLE001
        print(f"  observed : {type(exc).__name__}: {exc}")
        failures.append(label)
        return
    print("  observed :", describe(observed))
    if not same(expected, observed):
        print("  => DIFFERENT")
        failures.append(label)
    else:
        print("  => same")


# 1) A data frame with named columns
df = pd.DataFrame({"x": values, "y": values * 2})
expected = physt.h1(values, 5, axis_name="x")

# control: these forms work
check('df.physt.histogram("x", bins=5)   [control]', expected, lambda: df.physt.histogram("x", bins=5))
check('df.physt.h1("x", bins=5)          [control]', expected, lambda: df.physt.h1("x", bins=5))
check('df.physt.histogram(["x"])         [control, default bins]', physt.h1(values, axis_name="x"),
      lambda: df.physt.histogram(["x"]))
# the violation: the same column selected as a one-item list / a one-column frame
check('df.physt.histogram(["x"], bins=5)', expected, lambda: df.physt.histogram(["x"], bins=5))
check('df[["x"]].physt.histogram(bins=5)', expected, lambda: df[["x"]].physt.histogram(bins=5))
edges = np.array([-1.0, 0.0, 1.0])
check('df.physt.histogram(["x"], bins=array([-1, 0, 1]))', physt.h1(values, edges, axis_name="x"),
      lambda: df.physt.histogram(["x"], bins=edges))

# 2) A data frame made from a 2D array (integer column labels): silently wrong
table = pd.DataFrame(rng.normal(size=(200, 6)))  # columns 0 .. 5
expected5 = physt.h1(table[5].values, 5, axis_name="5")
check("pd.DataFrame(array).physt.histogram([5], bins=5)   (5 bins requested)", expected5,
      lambda: table.physt.histogram([5], bins=5))

print()
if failures:
    print(f"VIOLATION of C17 in {len(failures)} case(s):")
    for item in failures:
        print("  -", item)
    sys.exit(1)
print("No violation observed.")
