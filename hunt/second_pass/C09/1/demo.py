"""C09 - "a projection equals the histogram built directly from the kept columns
whenever no row missed the dropped axes' bins".

Bins whose binning says includes_right_edge=False (every FixedWidthBinning: the
"fixed_width", "pretty"/"human" and "integer" methods, also with range=...) treat a
value lying exactly on the last edge differently in 1D and in ND histograms:
Histogram1D (constructor, fill, fill_n) counts it in the last bin, HistogramND
(constructor, fill, fill_n) counts it as missed.  The marginal of the ND histogram
therefore differs from the histogram of the kept column although no row is outside
the bins of the dropped axis.
"""
import sys
import warnings

import numpy as np

from physt import h1, h2
from physt.binnings import FixedWidthBinning, NumpyBinning

warnings.simplefilter("ignore")
failed = False


def report(title, projection, direct, parent):
    global failed
    same = (
        np.array_equal(projection.frequencies, direct.frequencies)
        and np.array_equal(projection.errors2, direct.errors2)
        and np.array_equal(projection.bins, direct.bins)
    )
    print(title)
    print("  bins of the kept axis        :", projection.edges.tolist(), "(direct:", direct.edges.tolist(), ")")
    print("  parent total / missed        :", parent.total, "/", parent.missed)
    print("  projection(0).frequencies    :", projection.frequencies.tolist(), " total", projection.total)
    print("  direct h1(x).frequencies     :", direct.frequencies.tolist(), " total", direct.total,
          " overflow", direct.overflow)
    print("  demanded: equal              ->", "OK" if same else "VIOLATED")
    failed |= not same


# x: the kept column, two values lie exactly on the upper limit of the range.
# y: the dropped column, every value is well inside its bins ([0, 1, 2, 3]).
x = np.array([0.5, 1.5, 2.5, 3.0, 3.0])
y = np.array([1.5, 1.5, 1.5, 1.5, 1.5])
w = np.array([1.0, 1.0, 1.0, 2.0, 4.0])

# 1) Facade only: the same binning method / arguments for both histograms
for weights in (None, w):
    parent = h2(x, y, "fixed_width", bin_width=1.0, range=(0, 3), weights=weights)
    direct = h1(x, "fixed_width", bin_width=1.0, range=(0, 3), weights=weights)
    assert parent.binnings[1].bins[0, 0] <= y.min() and y.max() < parent.binnings[1].bins[-1, 1]
    report(f'h2(x, y, "fixed_width", bin_width=1, range=(0, 3), weights={"w" if weights is not None else None})',
           parent.projection(0), direct, parent)

# 2) Explicit binning objects (so that there is no doubt the bins are identical)
def x_binning():
    return FixedWidthBinning(bin_width=1.0, bin_count=3, min=0.0)   # includes_right_edge=False

parent = h2(x, y, [x_binning(), NumpyBinning([0.0, 1.0, 2.0, 3.0])])
direct = h1(x, x_binning())
report("h2(x, y, [FixedWidthBinning(0..3), NumpyBinning]) vs h1(x, FixedWidthBinning(0..3))",
       parent.projection(0), direct, parent)

# 3) Filling instead of constructing
parent = h2(None, None, [x_binning(), NumpyBinning([0.0, 1.0, 2.0, 3.0])])
direct = h1(None, x_binning())
for xi, yi in zip(x, y):
    parent.fill([xi, yi])
    direct.fill(xi)
report("the same, filled value by value with fill()", parent.projection(0), direct, parent)

# Reference: numpy puts both values into the last bin (range is closed), as Histogram1D does
ref, _, _ = np.histogram2d(x, y, bins=3, range=[(0, 3), (0, 3)])
print("numpy.histogram2d marginal       :", ref.sum(axis=1).astype(int).tolist())

sys.exit(1 if failed else 0)
