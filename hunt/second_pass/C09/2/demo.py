"""C09 - "bins and axis names are those of the kept axes in their original order".

When a projection keeps exactly ONE axis and the name of that axis is "falsy"
(None - which is what h2(x, y) / h3([x, y, z]) store for plain arrays - or the empty
string), the name is dropped and replaced by the default name of a 1D histogram,
"axis0", whatever the position of the kept axis was.  Projections onto two or more
axes keep the very same names, so the result also depends on the path.
"""
import sys
import warnings

import numpy as np
import pandas as pd

from physt import h, h2, h3
from physt.histogram_nd import Histogram2D, HistogramND

warnings.simplefilter("ignore")
failed = False


def check(title, parent, axes):
    global failed
    projection = parent.projection(*axes)
    indices = sorted(a if isinstance(a, int) else parent.axis_names.index(a) for a in axes)
    demanded = tuple(parent.axis_names[i] for i in indices)
    ok = tuple(projection.axis_names) == demanded
    print(f"{title}\n    parent names {parent.axis_names}, projection{tuple(axes)}: "
          f"observed {tuple(projection.axis_names)}, demanded {demanded} -> {'OK' if ok else 'VIOLATED'}")
    failed |= not ok
    return projection


rng = np.random.default_rng(1)
x, y, z = rng.normal(size=(3, 200))

# (a) the everyday call: a 2D histogram of two plain arrays
check("h2(x, y)", h2(x, y, 4), (0,))
check("h2(x, y)", h2(x, y, 4), (1,))
# ... the same data through h(): the marginal of axis 1 is called 'axis1' there
check("h(column_stack([x, y]))", h(np.column_stack([x, y]), 4), (1,))

# (b) one named and one unnamed column: the marginal of the UNNAMED axis 1 is labelled
#     'axis0', although axis 0 of the parent is the one called 'a'
check("h2(Series 'a', ndarray)", h2(pd.Series(x, name="a"), y, 4), (1,))

# (c) 3D: two kept axes keep their names, one kept axis does not (path dependent)
parent = h3([x, y, z], 3)
two = check("h3([x, y, z])", parent, (1, 2))
check("h3([x, y, z])", parent, (2,))

# (d) explicitly given names, one of them empty
parent = HistogramND(
    [[0, 1, 2], [0, 1, 2, 3], [0, 1]],
    np.arange(6).reshape(2, 3, 1),
    axis_names=("x", "", "z"),
)
check("HistogramND(axis_names=('x', '', 'z'))", parent, (0, 1))
check("HistogramND(axis_names=('x', '', 'z'))", parent, (1,))
check("HistogramND(axis_names=('x', '', 'z')) by name", parent, ("",))
step = parent.projection("", "z")
check("... in steps: projection('', 'z') then", step, ("",))

parent = Histogram2D([[0, 1, 2], [0, 1, 2, 3]], np.arange(6).reshape(2, 3), axis_names=("", "y"))
check("Histogram2D(axis_names=('', 'y'))", parent, (0,))
check("Histogram2D(axis_names=('', 'y')).T", parent.T, (1,))

sys.exit(1 if failed else 0)
