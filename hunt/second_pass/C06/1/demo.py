"""C06 - an in-place scaling that is refused half-way leaves the histogram half-scaled.

`h *= c` (c > 0) on a histogram that holds a negative bin (a difference of two
histograms made under free arithmetics) and is scaled later, outside of the
free-arithmetics context: the library refuses ("Cannot have negative
frequencies."), but only AFTER it has already multiplied the squared errors by
c*c.  Contents, missed values and statistics are left as they were.

Statement: scaling multiplies every content by c AND every squared error by c*c
(in-place and copying variants alike); a refusal must leave the operand untouched.
"""
import sys
import warnings

import numpy as np

from physt import h1, h2
from physt.config import config

warnings.simplefilter("ignore")
failures = []


def snapshot(h):
    return dict(
        frequencies=h.frequencies.copy(),
        errors2=h.errors2.copy(),
        missed=np.array(h.missed),
        dtype=h.dtype,
    )


def same(s1, s2):
    return all(
        (s1[k] == s2[k]) if k == "dtype" else np.array_equal(s1[k], s2[k], equal_nan=True)
        for k in s1
    )


def run(label, d, c):
    print(f"--- {label}: h *= {c!r}   (free_arithmetics = {config.free_arithmetics})")
    before = snapshot(d)
    print("  before : contents", before["frequencies"].tolist(), " errors2", before["errors2"].tolist())
    refused = None
    try:
        d *= c
    except Exception as exc:  # noqa: BLE001
        refused = exc
    after = snapshot(d)
    print("  raised :", repr(refused))
    print("  after  : contents", after["frequencies"].tolist(), " errors2", after["errors2"].tolist())
    if refused is not None:
        print("  demanded (refusal): contents", before["frequencies"].tolist(),
              " errors2", before["errors2"].tolist(), "(nothing touched)")
        if not same(before, after):
            print("  VIOLATION: the operation was refused, yet the squared errors are already scaled by c*c")
            failures.append(label)
    else:
        exp_f = before["frequencies"] * c
        exp_e = before["errors2"] * c * c
        print("  demanded (accepted): contents", exp_f.tolist(), " errors2", exp_e.tolist())
        if not (np.allclose(after["frequencies"], exp_f) and np.allclose(after["errors2"], exp_e)):
            print("  VIOLATION: not scaled linearly")
            failures.append(label)


bins = [0, 1.5, 2.5, 3.5]
a = h1([1, 2, 2, 3, 7], bins)
b = h1([1, 1, 1, 2, 3, 9], bins)
with config.enable_free_arithmetics():
    diff = a - b  # contents [-2, 1, 0]: allowed here
    reference = diff.copy()
    run("1D, inside the free-arithmetics context (reference)", reference, 2)

# ... and later on, in ordinary mode:
d = diff.copy()
run("1D difference histogram, ordinary mode", d, 2)
run("1D, the same histogram, retried", d, 2)  # every retry inflates the errors again
run("1D, float factor (int histogram)", diff.copy(), 0.5)

x1, y1 = [0.5, 0.5, 1.5], [0.5, 1.5, 1.5]
x2, y2 = [0.5, 0.5, 0.5, 1.5], [0.5, 0.5, 1.5, 0.5]
kw = dict(range=((0, 2), (0, 2)))
with config.enable_free_arithmetics():
    diff2 = h2(x1, y1, [2, 2], **kw) - h2(x2, y2, [2, 2], **kw)
run("2D difference histogram, ordinary mode", diff2.copy(), np.float64(3.0))

print()
if failures:
    print("FAILED:", failures)
    sys.exit(1)
print("ok")
