"""C06 - the recorded variance is not invariant under positive scaling.

Statement: "The recorded mean, variance, minimum and maximum are invariant under
positive scaling while the recorded weight scales by c" - for all finite non-zero
scalars, multiplication, division and normalize() alike.

For factors of large or small magnitude (c * |sum of values| above ~1e154 or
below ~1e-154) every content, the weight, the mean, the minimum and the maximum of
the scaled histogram are still exactly right - but statistics.variance() silently
returns something else (the mean of the squares, -inf) or raises OverflowError.
"""
import sys
import warnings

import numpy as np

from physt import h1
from physt.histogram1d import Histogram1D

warnings.simplefilter("ignore")
failures = []

data = [1.0, 2.0, 2.0, 3.0, 3.0, 3.0, 4.0]
true_var = float(np.var(data))
true_mean = float(np.mean(data))


def describe(label, r, expected_weight):
    s = r.statistics
    try:
        var = s.variance()
    except Exception as exc:  # noqa: BLE001
        var = exc
    print(f"--- {label}")
    print(f"  contents {r.frequencies.tolist()}")
    print(f"  weight   {s.weight!r:<28} demanded {expected_weight!r}")
    print(f"  mean     {s.mean()!r:<28} demanded {true_mean!r}")
    print(f"  min/max  {(s.min, s.max)!r:<28} demanded {(min(data), max(data))!r}")
    print(f"  variance {var!r:<28} demanded {true_var!r}")
    ok = not isinstance(var, Exception) and np.isclose(var, true_var, rtol=1e-6)
    if not ok:
        print("  VIOLATION: the variance changed under a positive scaling")
        failures.append(label)


h = h1(data, 3)
describe("h (reference)", h, 7.0)
for c in (1e-120, 1e-170, 1e-200, 1e160, np.float64(1e200)):
    describe(f"h * {c!r}", h * c, 7.0 * float(c))
describe("h / 1e200", h / 1e200, 7.0 / 1e200)
describe("1e-200 * h, then / 1e-200 (round trip works again)", (1e-200 * h) / 1e-200, 7.0)

# The same with a histogram that was filled one value at a time (python floats in the statistics)
g = Histogram1D([0.5, 1.5, 2.5, 3.5, 4.5])
for value in data:
    g.fill(value)
describe("filled histogram * 1e160", g * 1e160, 7e160)

# normalize(): here it is the *un*scaled histogram whose variance is wrong
tiny = h1(data, 3, weights=[1e-180] * len(data))
describe("histogram with weights 1e-180 (before normalize)", tiny, 7e-180)
describe("the same, .normalize()", tiny.normalize(), 1.0)

print()
if failures:
    print("FAILED:", failures)
    sys.exit(1)
print("ok")
