"""C02 - ND construction with dtype=int16 (a supported content type) silently wraps around.

Run: PYTHONPATH=/tmp/mut/R5C02/src /venv/bin/python demo.py
"""
import sys
import warnings

import numpy as np

import physt

warnings.simplefilter("ignore")
edges = np.array([0.0, 1.0])  # one bin [0, 1] per axis
failures = []


def report(label, build, exp_content, exp_err2, exp_missed, exp_input):
    """A refusal (exception) would be fine, a silently wrong histogram is not."""
    try:
        hist = build()
    except Exception as exc:  # noqa: BLE001
        print(f"{label}: refused with {type(exc).__name__}: {exc}  [acceptable]")
        return
    content = hist.frequencies.ravel()[0].item()
    err2 = hist.errors2.ravel()[0].item()
    print(f"{label}: {hist!r}")
    print(f"    cell content      observed {content:>8}   statement demands {exp_content}")
    print(f"    squared error     observed {err2:>8}   statement demands {exp_err2}")
    print(f"    missed            observed {hist.missed:>8}   statement demands {exp_missed}")
    print(f"    total + missed    observed {hist.total + hist.missed:>8}   statement demands {exp_input}")
    if (content, err2, hist.missed, hist.total + hist.missed) != (
        exp_content,
        exp_err2,
        exp_missed,
        exp_input,
    ):
        failures.append(label)


# 1) 70000 unweighted rows, all of them inside the only cell
n = 70000
rows2 = np.full((n, 2), 0.5)
report("h  (n=70000, dtype=int16)", lambda: physt.h(rows2, [edges, edges], dtype=np.int16), n, n, 0, n)
report(
    "h2 (n=70000, dtype=int16)",
    lambda: physt.h2(rows2[:, 0], rows2[:, 1], [edges, edges], dtype=np.int16),
    n, n, 0, n,
)
column = np.full(n, 0.5)
report(
    "h3 (n=70000, columns, dtype=int16)",
    lambda: physt.h3([column, column, column], [edges, edges, edges], dtype=np.int16),
    n, n, 0, n,
)

# 2) ONE row of (integer) weight 300: the content fits int16, the squared weight (90000) does not
report(
    "h  (one row, weight 300, dtype=int16)",
    lambda: physt.h(np.array([[0.5, 0.5]]), [edges, edges], weights=np.array([300]), dtype=np.int16),
    300, 90000, 0, 300,
)

# 3) two rows of weight 40000 in the cell, one row of weight 1 outside
report(
    "h  (weights 40000, 40000 | 1 outside, dtype=int16)",
    lambda: physt.h(
        np.array([[0.5, 0.5], [0.5, 0.5], [5.0, 5.0]]),
        [edges, edges],
        weights=np.array([40000, 40000, 1]),
        dtype=np.int16,
    ),
    80000, 3200000000, 1, 80001,
)

# 4) 70000 unweighted rows, all of them OUTSIDE the only cell: the missed count wraps around as well
outside = np.full((n, 2), 5.0)
report("h  (n=70000 outside, dtype=int16)", lambda: physt.h(outside, [edges, edges], dtype=np.int16), 0, 0, n, n)

# For comparison: the 1D facade refuses the very same requests
for label, build in [
    ("h1 (n=70000, dtype=int16)", lambda: physt.h1(column, edges, dtype=np.int16)),
    ("h1 (one value, weight 300, dtype=int16)", lambda: physt.h1(np.array([0.5]), edges, weights=np.array([300]), dtype=np.int16)),
]:
    try:
        print(f"{label}: {build()!r}")
    except Exception as exc:  # noqa: BLE001
        print(f"{label}: refused with {type(exc).__name__}: {exc}")

if failures:
    print("\nVIOLATION: silently wrong ND histograms for:", *failures, sep="\n  - ")
    sys.exit(1)
print("\nno violation observed")
