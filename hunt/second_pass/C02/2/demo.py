"""C02 - the missed weight of an ND histogram is not the weight of the rows that fell into no cell.

It is computed as (sum of all weights) - (sum of the stored cell contents), i.e. it
absorbs the rounding of the two sums and of the cast of the contents to the content type.

Run: PYTHONPATH=/tmp/mut/R5C02/src /venv/bin/python demo.py
"""
import sys
import warnings

import numpy as np

import physt

warnings.simplefilter("ignore")
one_bin = np.array([0.0, 1.0])
two_bins = np.array([0.0, 1.0, 2.0])
failures = []


def report(label, hist, expected_missed, rel_tol):
    observed = hist.missed
    print(f"{label}\n    {hist!r}")
    print(f"    missed   observed {observed!r}   statement demands {expected_missed!r} (weight of the rows outside)")
    wrong = observed < 0 or abs(observed - expected_missed) > rel_tol * abs(expected_missed)
    if wrong:
        failures.append(label)
        print("    -> WRONG" + (" (a negative missed weight)" if observed < 0 else ""))


# --- A. float32 contents (a supported dtype): 200000 weighted rows in the cell, ONE row of weight 0.001 outside
rng = np.random.default_rng(0)
n = 200_000
rows = np.full((n + 1, 2), 0.5)
rows[-1] = 7.0  # outside both axes
weights = rng.random(n + 1) * 10
weights[-1] = 0.001
report(
    "A1. h(dtype=float32), 200000 rows inside, one row of weight 0.001 outside",
    physt.h(rows, [one_bin, one_bin], weights=weights, dtype=np.float32),
    0.001,
    1e-6,
)
report(
    "A2. h2(dtype=float32), two rows: weight 1000000.97 inside, weight 0.01 outside",
    physt.h2(
        np.array([0.5, 5.0]), np.array([0.5, 5.0]), [one_bin, one_bin],
        weights=np.array([1000000.97, 0.01]), dtype=np.float32,
    ),
    0.01,
    1e-6,
)

# --- B. default content type (float64)
report(
    "B1. h(), default dtype: weight 2**52 inside, weight 0.25 outside",
    physt.h(np.array([[0.5, 0.5], [5.0, 5.0]]), [one_bin, one_bin], weights=np.array([2.0**52, 0.25])),
    0.25,
    1e-12,
)
report(
    "B2. h3(), default dtype: weights 0.1, 0.4, 0.1 inside, a row of weight 0 outside",
    physt.h3(
        [np.array([0.5, 1.5, 0.5, 9.0]), np.array([0.5, 0.5, 0.5, 9.0]), np.array([0.5, 0.5, 0.5, 9.0])],
        [two_bins, one_bin, one_bin],
        weights=np.array([0.1, 0.4, 0.1, 0.0]),
    ),
    0.0,
    0.0,
)

# For comparison: the 1D facade sums the weights of the outside values themselves
h1 = physt.h1(rows[:, 0], one_bin, weights=weights, dtype=np.float32)
print(f"(h1 with the data of A1: underflow + overflow = {h1.underflow + h1.overflow!r})")

if failures:
    print("\nVIOLATION: missed != weight of the rows in no cell for:", *failures, sep="\n  - ")
    sys.exit(1)
print("\nno violation observed")
