"""C01, under/overflow clause, on an adaptive histogram built by h1(..., adaptive=True, range=...).

h1 with range= leaves the values outside the range in underflow / overflow
(correct at that moment).  The histogram is adaptive, so the next fill / fill_n
of a value further out makes the bins grow OVER the values that were recorded as
underflow / overflow.  From then on
  * underflow / overflow are no longer "the weight below the first / above the last edge",
  * the bins that contain those values do not hold their weight.

Only the public API is used.  Exits with status 1 when the violation is seen.
"""
import sys
import warnings

import numpy as np

from physt import h1

warnings.simplefilter("ignore")


def demanded(h, values, weights):
    """Contents / underflow / overflow that the statement demands for the bins of h."""
    values = np.asarray(values, dtype=float)
    weights = np.asarray(weights)
    bins = np.asarray(h.bins, dtype=float)
    contents = []
    for i, (left, right) in enumerate(bins):
        inside = (values >= left) & (values < right)
        if i == len(bins) - 1:
            inside |= values == right
        contents.append(weights[inside].sum())
    return (
        np.array(contents),
        weights[values < bins[0, 0]].sum(),
        weights[values > bins[-1, 1]].sum(),
    )


def report(label, h, values, weights):
    contents, underflow, overflow = demanded(h, values, weights)
    print(label)
    print(f"   bins from {h.bins[0, 0]} to {h.bins[-1, 1]} ({h.bin_count} bins, "
          f"consecutive={h.binning.is_consecutive()})")
    print(f"   contents  observed {h.frequencies.tolist()}")
    print(f"             demanded {contents.tolist()}")
    print(f"   underflow observed {h.underflow}   demanded {underflow}")
    print(f"   overflow  observed {h.overflow}   demanded {overflow}")
    print(f"   total + underflow + overflow = {h.total + h.underflow + h.overflow}, "
          f"input weight = {weights.sum()}")
    ok = (
        np.array_equal(h.frequencies, contents)
        and h.underflow == underflow
        and h.overflow == overflow
    )
    print("   -> ok" if ok else "   -> VIOLATION")
    return ok


values = [-13.5, 1.0, 24.9]
weights = np.array([1, 1, 1])
h = h1(values, "fixed_width", bin_width=2.5, adaptive=True, range=(-7.5, 10.0))
ok0 = report("after h1(values, 'fixed_width', bin_width=2.5, adaptive=True, range=(-7.5, 10))",
             h, values, weights)

# one more value on either side, further out than the recorded under/overflow
h.fill(-20.0)
h.fill(30.0)
values += [-20.0, 30.0]
weights = np.array([1, 1, 1, 1, 1])
ok1 = report("after h.fill(-20.0); h.fill(30.0)", h, values, weights)

# the same with fill_n on a fresh histogram
values2 = [-13.5, 1.0, 24.9]
h2 = h1(values2, "fixed_width", bin_width=2.5, adaptive=True, range=(-7.5, 10.0))
h2.fill_n([-20.0, 30.0])
ok2 = report("fresh histogram, after h.fill_n([-20.0, 30.0])", h2, values2 + [-20.0, 30.0],
             np.array([1, 1, 1, 1, 1]))

sys.exit(0 if (ok0 and ok1 and ok2) else 1)
