"""C01: "each bin's squared error is the sum of the squared weights".

Integer weights are squared in int64 inside calculate_1d_frequencies; as soon as
the sum of the squares of one bin reaches 2**63 it wraps around silently, and
h1 returns a histogram whose errors2 is wrong (the weights themselves and their
sum - the bin content - are small, exactly representable numbers).

Only the public API is used.  Exits with status 1 when a violation is seen.
"""
import sys
import warnings

import numpy as np

from physt import h1

warnings.simplefilter("ignore")
violations = 0


def case(label, data, bins, weights, **kwargs):
    global violations
    # What the statement demands, in exact python integer arithmetic
    expected_content = sum(int(w) for w in weights)
    expected_errors2 = sum(int(w) ** 2 for w in weights)
    try:
        h = h1(data, bins, weights=weights, **kwargs)
    except Exception as exc:  # a refusal would be fine
        print(f"{label}: refused ({type(exc).__name__}: {exc}) - not a violation")
        return
    content = h.frequencies[0].item()
    errors2 = h.errors2[0].item()
    print(f"{label}: dtype={h.dtype}")
    print(f"   content  observed {content!r:>26}   demanded {expected_content}")
    print(f"   errors2  observed {errors2!r:>26}   demanded {expected_errors2}"
          f"  (= {float(expected_errors2):.17g} as a float)")
    ok = float(content) == float(expected_content) and float(errors2) == float(expected_errors2)
    if not ok:
        violations += 1
        print("   -> VIOLATION: the squared error is not the sum of the squared weights")


# 1) one value, weight 5e9 (far below 2**53), contents requested as float:
#    25e18 is exactly representable in float64, yet 6.55e18 comes back.
case("one weight 5_000_000_000, dtype=float", [0.5], [0.0, 1.0], [5_000_000_000], dtype=float)

# 2) the same with the default (int64) contents: a value is stored silently
#    although the true one does not fit - no refusal, just a wrong number.
case("one weight 2**32, default dtype", [0.5], [0.0, 1.0], [2**32])

# 3) ordinary-looking weights: 2500 entries of weight 1e8 in one bin.
n = 2500
case("2500 weights of 100_000_000, dtype=float", np.full(n, 0.5), [0.0, 1.0],
     np.full(n, 100_000_000), dtype=float)

# 4) the same through an int32 weight array (the library widens it to int64, no further)
case("five int32 weights of 2_147_483_647, dtype=float", [0.5] * 5, [0.0, 1.0],
     np.array([2_147_483_647] * 5, dtype=np.int32), dtype=float)

print()
print(f"{violations} violating case(s)")
sys.exit(1 if violations else 0)
