"""C11: an integer index must return that bin's edges and content.

A one-axis HistogramND (what the public facade physt.h() returns for data with a
single column) answers a plain python integer index with a 0-dimensional
"histogram" instead: the bin edges are lost and no (edges, content) pair comes back.
"""
import sys

import numpy as np

import physt

data = np.array([[0.5], [1.5], [1.6], [2.5], [2.6], [2.7], [3.5]])
H = physt.h(data, "fixed_width", bin_width=1.0, axis_names=["x"], name="one column")

print("histogram      :", type(H).__name__, "ndim =", H.ndim, "contents =", H.frequencies.tolist())
print("bins           :", H.bins[0].tolist())

bad = False
for index in (2, -1):
    contents_before = H.frequencies.copy()
    expected = (((float(H.bins[0][index][0]), float(H.bins[0][index][1])),), int(H.frequencies[index]))
    same_as_tuple = H[(index,)]          # the same request spelled as a 1-tuple works
    got = H[index]
    print(f"\nH[{index}]")
    print("  statement demands : the bin's edges and content, i.e.", expected)
    print(f"  H[({index},)] gives     :", same_as_tuple)
    if isinstance(got, tuple):
        print("  H[%d] gives        :" % index, got)
        if got != expected:
            bad = True
    else:
        print("  H[%d] gives        : %r  (ndim=%d, shape=%r, bins=%r, axis_names=%r)"
              % (index, got, got.ndim, got.shape, got.bins, got.axis_names))
        print("  -> not a (edges, content) pair; a histogram with ZERO axes, the edges",
              expected[0], "are gone")
        bad = True
    assert np.array_equal(H.frequencies, contents_before)

# for comparison: the ordinary 1D class does what the statement says
h1 = physt.h1(data[:, 0], np.array([0.0, 1.0, 2.0, 3.0, 4.0]))
print("\nHistogram1D, same data, h1[2]  :", h1[2])

if bad:
    print("\nVIOLATION: integer index on a one-axis HistogramND does not return the bin's edges and content")
    sys.exit(1)
print("\nok")
