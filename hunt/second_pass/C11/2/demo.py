"""C11: an integer index returns that bin's edges and content (numpy semantics),
per-axis integers drop their axis.

Integer indices that are numpy integers (what np.argmax / np.unravel_index /
np.searchsorted / iterating over np.arange hand out) are not treated as integers:
 * Histogram1D: h[np.int64(i)] is refused with an unrelated ValueError,
   h[np.array(i)] (0-d index) silently returns a one-bin histogram instead of the bin,
 * HistogramND: H[np.int64(i)], H[np.int64(i), np.int64(j)], H[np.int64(i), 1:3] are
   all refused with TypeError("Invalid index.").
numpy itself accepts every one of these and gives the same result as for python ints.
"""
import sys

import numpy as np

import physt

rng = np.random.default_rng(1)
bad = []


def attempt(label, func, expected, same):
    try:
        got = func()
    except Exception as exc:  # noqa: BLE001
        print(f"  {label:34s}: REFUSED {type(exc).__name__}: {exc}")
        print(f"  {'':34s}  statement / numpy demand: {expected}")
        bad.append(label)
        return
    ok = same(got)
    print(f"  {label:34s}: {got!r}" + ("" if ok else f"   <-- WRONG, demanded: {expected}"))
    if not ok:
        bad.append(label)


# ---------------------------------------------------------------- 1D
h = physt.h1(rng.normal(size=300), np.linspace(-2, 2, 9))
i = np.argmax(h.frequencies)            # numpy.int64
edges, content = h[int(i)]
print("Histogram1D, contents", h.frequencies.tolist(), " argmax ->", repr(i))
print(f"  h[int(i)]                         : ({edges.tolist()}, {content})")


def same_bin(got):
    return isinstance(got, tuple) and np.array_equal(got[0], edges) and got[1] == content


attempt("h[np.argmax(h.frequencies)]", lambda: h[i], "the same bin", same_bin)
attempt("h[np.int32(-1)]", lambda: h[np.int32(-1)], "last bin",
        lambda g: isinstance(g, tuple) and np.array_equal(g[0], h.bins[-1]) and g[1] == h.frequencies[-1])
attempt("h[np.array(3)]  (0-d index)", lambda: h[np.array(3)], "bin 3 as (edges, content)",
        lambda g: isinstance(g, tuple) and np.array_equal(g[0], h.bins[3]) and g[1] == h.frequencies[3])
print("  numpy on the contents             :", repr(h.frequencies[i]), repr(h.frequencies[np.array(3)]))

# ---------------------------------------------------------------- ND
H = physt.h(rng.normal(size=(500, 3)), [4, 5, 6], axis_names=["a", "b", "c"])
ijk = np.unravel_index(np.argmax(H.frequencies), H.shape)     # tuple of numpy.int64
pijk = tuple(int(v) for v in ijk)
print("\nHistogramND", H.shape, " unravel_index(argmax) ->", ijk)
print("  H[python ints]                    :", H[pijk])
attempt("H[np.unravel_index(argmax)]", lambda: H[ijk], "the same bin", lambda g: g == H[pijk])


def same_hist(ref):
    def check(got):
        return (not isinstance(got, tuple) and np.array_equal(got.frequencies, ref.frequencies)
                and np.array_equal(got.errors2, ref.errors2) and got.axis_names == ref.axis_names
                and all(np.array_equal(x, y) for x, y in zip(got.bins, ref.bins)))
    return check


k = np.int64(1)
attempt("H[np.int64(1)]", lambda: H[k], "2D histogram over (b, c), like H[1]", same_hist(H[1]))
attempt("H[:, np.int64(1)]", lambda: H[:, k], "2D histogram over (a, c), like H[:, 1]", same_hist(H[:, 1]))
attempt("H[np.int64(1), 1:3, 0]", lambda: H[k, 1:3, 0], "like H[1, 1:3, 0]", same_hist(H[1, 1:3, 0]))
attempt("H.select('b', np.int64(1))", lambda: H.select("b", k), "like H.select('b', 1)", same_hist(H.select("b", 1)))
print("  numpy on the contents             : shapes", H.frequencies[k].shape, H.frequencies[:, k].shape,
      H.frequencies[k, 1:3, 0].shape)

if bad:
    print(f"\nVIOLATION: {len(bad)} integer index expressions not honoured: {bad}")
    sys.exit(1)
print("\nok")
