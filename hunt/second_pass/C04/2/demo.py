"""C04 - set_adaptive(True) / `.adaptive = True` accepts a fixed-width binning that includes its right edge.

Run:  PYTHONPATH=/tmp/mut/R5C04/src /venv/bin/python demo.py
"""
import sys
import warnings

import numpy as np

from physt import h1, h2
from physt.binnings import FixedWidthBinning

warnings.simplefilter("ignore")
violations = []


def fixed_bin_reference(values, edges):
    """Histogram of the values over half-open bins [e_i, e_i+1) - the bins of an adaptive binning."""
    index = np.searchsorted(edges, values, side="right") - 1
    inside = (index >= 0) & (index < len(edges) - 1)
    return np.bincount(index[inside], minlength=len(edges) - 1), int((~inside).sum())


# The constructor refuses the combination ...
try:
    FixedWidthBinning(bin_width=1.0, bin_count=3, min=0.0, includes_right_edge=True, adaptive=True)
    print("constructor accepted adaptive + includes_right_edge")
except ValueError as exc:
    print(f"FixedWidthBinning(adaptive=True, includes_right_edge=True) -> ValueError: {exc}")

# ... but the public switch does not.
data = np.array([0.5, 1.5, 3.0])  # 3.0 = 3 * width: an exact multiple of the width
hist = h1(data, "fixed_width", bin_width=1.0, includes_right_edge=True)
print(f"\npre-filled (non-adaptive) : edges {hist.numpy_bins.tolist()} contents {hist.frequencies.tolist()}"
      f"   [3.0 lies in the closed last bin [2, 3]]")
hist.adaptive = True  # same as hist.set_adaptive(True)
print(f"hist.adaptive = True      : accepted, is_adaptive() == {hist.is_adaptive()}, "
      f"includes_right_edge == {hist.binning.includes_right_edge}")

entered = list(data)
hist.fill(3.0)                   # again the exact multiple: no bin [3, 4) is created for it
entered.append(3.0)
print(f"fill(3.0)                 : edges {hist.numpy_bins.tolist()} contents {hist.frequencies.tolist()}")
hist.fill_n([5.5])               # now the bins grow
entered.append(5.5)
edges = hist.numpy_bins
expected, outside = fixed_bin_reference(np.array(entered), edges)
print(f"fill_n([5.5])             : edges {edges.tolist()}")
print(f"    contents              : {hist.frequencies.tolist()}")
print(f"    fixed-bin histogram of the same data over the final bins (statement): {expected.tolist()}")
print(f"    the two entries 3.0 are recorded in the bin [{edges[2]}, {edges[3]}), which does not contain 3.0; "
      f"the bin [3.0, 4.0) that contains them holds {hist.frequencies[3]}")
if not np.array_equal(expected, hist.frequencies):
    violations.append("1D: contents differ from the fixed-bin histogram over the final bins (value outside its bin)")

# An independent histogram of the same data over the same (final) fixed bins, made by the library itself
same_bins = h1(np.array(entered), "fixed_width", bin_width=1.0, range=(0.0, 6.0))
print(f"    physt.h1 of the same data with fixed bins {same_bins.numpy_bins.tolist()}: {same_bins.frequencies.tolist()}")

# The object is in a state that its own class does not allow
try:
    hist.copy()
    print("    hist.copy() works")
except ValueError as exc:
    print(f"    hist.copy() -> ValueError: {exc}")
    violations.append("1D: histogram cannot be copied any more (inconsistent state)")

# The same in two dimensions (fill + fill_n)
x = np.array([0.5, 2.0])
y = np.array([0.5, 2.0])
hist2 = h2(x, y, "fixed_width", bin_width=1.0, includes_right_edge=True)
hist2.set_adaptive(True)
hist2.fill([2.0, 2.0])
hist2.fill_n([[3.5, 3.5]])
entered2 = np.array([[0.5, 0.5], [2.0, 2.0], [2.0, 2.0], [3.5, 3.5]])
edges2 = [np.asarray(b.numpy_bins) for b in hist2.binnings]
expected2, _ = np.histogramdd(entered2, bins=edges2)
print(f"\n2D: edges {[e.tolist() for e in edges2]}, total {hist2.total}, missed {hist2.missed}")
print(f"    contents:\n{hist2.frequencies}")
print(f"    fixed-bin histogram of the same data over the final bins (statement):\n{expected2.astype(int)}")
if not np.array_equal(expected2, hist2.frequencies):
    violations.append("2D: contents differ from the fixed-bin histogram over the final bins")

print()
if violations:
    print(f"{len(violations)} violation(s) of C04:", *violations, sep="\n  ")
    sys.exit(1)
print("no violation")
