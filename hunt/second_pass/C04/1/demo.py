"""C04 - one binning object given as `bins` of an N-D facade call is shared by all axes.

Run:  PYTHONPATH=/tmp/mut/R5C04/src /venv/bin/python demo.py
"""
import sys
import warnings

import numpy as np

from physt import h, h2
from physt.binnings import FixedWidthBinning

warnings.simplefilter("ignore")
violations = []


def report(label, hist, values, weights=None):
    values = np.asarray(values, dtype=float)
    weights = np.ones(len(values)) if weights is None else np.asarray(weights, dtype=float)
    print(f"--- {label}")
    print(f"    values entered        : {values.tolist()}")
    edges = [np.asarray(b.numpy_bins) for b in hist.binnings]
    print(f"    edges                 : {[e.tolist() for e in edges]}")
    print(f"    shape from binnings   : {hist.shape}, shape of contents: {hist.frequencies.shape}")
    print(f"    total                 : {hist.total}   (statement: {weights.sum()})")
    print(f"    missed                : {hist.missed}   (statement: 0)")
    if hist.frequencies.shape == hist.shape:
        expected, _ = np.histogramdd(values, bins=edges, weights=weights)
        same = np.array_equal(expected, hist.frequencies)
        print(f"    contents              :\n{hist.frequencies}")
        print(f"    fixed-bin histogram of the same data over the final bins:\n{expected.astype(int)}")
    else:
        same = False
    spans = []
    for axis, e in enumerate(edges):
        exact = e[0] <= values[:, axis].min() < e[1] and e[-2] <= values[:, axis].max() < e[-1]
        spans.append(bool(exact))
    print(f"    every axis spans exactly lowest..highest bin needed: {spans}   (statement: all True)")
    ok = (
        hist.frequencies.shape == hist.shape
        and hist.total == weights.sum()
        and hist.missed == 0
        and same
        and all(spans)
    )
    if not ok:
        violations.append(label)
        print("    => VIOLATION")


# 1) empty adaptive 2D histogram through the facade, two fill() calls -------------------------
binning = FixedWidthBinning(bin_width=1.0, adaptive=True)
hist = h2(None, None, bins=binning)
print("axes share one binning object:", hist.binnings[0] is hist.binnings[1], "  (independent axes need independent objects)")
hist.fill([0.5, 0.5])
hist.fill([2.5, 0.5])
report("h2(None, None, bins=<FixedWidthBinning adaptive>) ; fill([0.5, 0.5]) ; fill([2.5, 0.5])",
       hist, [[0.5, 0.5], [2.5, 0.5]])

# 2) the same with fill_n and weights, 3 dimensions ---------------------------------------------
hist = h(None, FixedWidthBinning(bin_width=0.5, adaptive=True), dim=3)
hist.fill_n([[0.1, 0.2, 0.3]], weights=[2.0])
hist.fill_n([[0.1, 1.7, 0.3]], weights=[3.0])
report("h(None, <binning>, dim=3) ; fill_n twice with weights", hist,
       [[0.1, 0.2, 0.3], [0.1, 1.7, 0.3]], [2.0, 3.0])

# 3) a value that must be accepted is refused, and the histogram is left unusable ---------------
hist = h2(None, None, bins=FixedWidthBinning(bin_width=1.0, adaptive=True))
hist.fill([0.5, 7.5])
try:
    hist.fill([3.5, -2.5])
    print("--- third scenario: second fill accepted")
except Exception as exc:  # noqa: BLE001
    print(f"--- h2(None, None, bins=<binning>) ; fill([0.5, 7.5]) ; fill([3.5, -2.5]) raised {type(exc).__name__}: {exc}")
    print(f"    shape from binnings {hist.shape} vs. shape of contents {hist.frequencies.shape}   (statement: finite value accepted, consistent state)")
    violations.append("finite value refused + inconsistent state")

print()
if violations:
    print(f"{len(violations)} violation(s) of C04:", *violations, sep="\n  ")
    sys.exit(1)
print("no violation")
