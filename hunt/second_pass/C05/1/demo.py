"""C05: bins that are one whole bin apart are taken for "equal bins" when the
edges are large compared with the bin width (bins <= 4 ulp wide, e.g. unit bins
above 2**50 ~ 1.1e15 - microsecond time stamps; all values stay below 2**53 and
all edges are exactly representable floats).

 * static bins  : a + b must be REFUSED (incompatible bins) - it is accepted and
                  contents of different intervals are added together;
 * adaptive bins: h(A) + h(B) must be h(A and B together) on the union of the
                  ranges - the value of B is booked into a bin that does not contain it.
"""
import sys
import warnings

import numpy as np

from physt import h1

warnings.simplefilter("ignore")
failures = []

for base in (4.0e15, 1.7e15):  # 1.7e15: "now" as a unix time stamp in microseconds
    assert base + 3 < 2**53
    print(f"=== edges around {base:.1e}, bin width 1 (spacing of floats there: {np.spacing(base)}) ===")

    # ---- 1. static, incompatible bins -------------------------------------------------
    bins_a = np.array([base, base + 1, base + 2])
    bins_b = np.array([base + 1, base + 2, base + 3])  # shifted by one whole bin
    a = h1([base + 0.5, base + 0.5, base + 1.5], bins_a)
    b = h1([base + 1.5, base + 2.5], bins_b)
    print("a: bins", a.numpy_bins.tolist(), "contents", a.frequencies.tolist())
    print("b: bins", b.numpy_bins.tolist(), "contents", b.frequencies.tolist())
    print("a.has_same_bins(b):", a.has_same_bins(b), "  (demanded: False, no edge coincides)")
    try:
        r = a + b
    except (ValueError, TypeError, RuntimeError) as exc:
        print("a + b refused, as demanded:", repr(exc))
    else:
        print("a + b ACCEPTED: bins", r.numpy_bins.tolist(), "contents", r.frequencies.tolist())
        print("   demanded: an error (incompatible bins, no adaptivity); the value",
              base + 2.5, "now sits in the bin", r.bins[1].tolist())
        failures.append(f"static bins shifted by one bin were added at {base:.1e}")

    # ---- 2. adaptive fixed-width bins ------------------------------------------------
    kw = dict(bins="fixed_width", bin_width=1, adaptive=True)
    A = [base + 0.5, base + 0.5]
    B = [base + 1.5]
    ha, hb = h1(A, **kw), h1(B, **kw)
    total = ha + hb
    together = h1(A + B, **kw)
    print("h(A)      : bins", ha.numpy_bins.tolist(), "contents", ha.frequencies.tolist())
    print("h(B)      : bins", hb.numpy_bins.tolist(), "contents", hb.frequencies.tolist())
    print("h(A)+h(B) : bins", total.numpy_bins.tolist(), "contents", total.frequencies.tolist())
    print("h(A and B): bins", together.numpy_bins.tolist(), "contents", together.frequencies.tolist(),
          " <- demanded")
    if total.numpy_bins.tolist() != together.numpy_bins.tolist() or (
        total.frequencies.tolist() != together.frequencies.tolist()
    ):
        failures.append(f"adaptive sum differs from the histogram of the combined data at {base:.1e}")
    # commutativity on top of it
    other = hb + ha
    print("h(B)+h(A) : bins", other.numpy_bins.tolist(), "contents", other.frequencies.tolist(),
          " (demanded: the same as h(A)+h(B))")
    if other.numpy_bins.tolist() != total.numpy_bins.tolist():
        failures.append(f"adaptive sum not commutative at {base:.1e}")
    print()

if failures:
    print("VIOLATIONS:")
    for f in failures:
        print(" -", f)
    sys.exit(1)
print("no violation observed")
