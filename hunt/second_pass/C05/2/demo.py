"""C05: adding a histogram that does not keep the missed values (keep_missed=False) to one
that does silently yields a histogram that *claims* to know underflow / overflow
(keep_missed=True, plain numbers) but reports only the left operand's share; the
result also depends on the order of the operands.
"""
import sys
import warnings

import numpy as np

from physt import h1, h
from physt.types import Histogram1D

warnings.simplefilter("ignore")
rng = np.random.default_rng(0)
A = rng.normal(0, 2, 200)
B = rng.normal(1, 2, 150)
bins = np.linspace(-2, 2, 6)
failures = []


def describe(label, hist):
    print(f"{label:28s} contents {hist.frequencies.tolist()}  keep_missed={hist.keep_missed}"
          f"  underflow={hist.underflow}  overflow={hist.overflow}  missed={hist.missed}")


a = h1(A, bins)                        # keeps the missed values (default)
b = h1(B, bins, keep_missed=False)     # documented option of the facade: does not
together = h1(np.concatenate([A, B]), bins)
describe("h(A)", a)
describe("h(B, keep_missed=False)", b)
describe("h(A and B together)", together)
print()

ab = a + b
ba = b + a
s = sum([a, b])
describe("h(A) + h(B)", ab)
describe("h(B) + h(A)", ba)
describe("sum([h(A), h(B)])", s)
print()
print("demanded: both orders give the same histogram, whose underflow / overflow are either those of")
print(f"          h(A and B together) ({together.underflow}, {together.overflow}) or marked unknown (nan / keep_missed=False)")

# 1. The result claims to know the missed values, and they are wrong
for label, r in (("h(A)+h(B)", ab), ("sum([h(A),h(B)])", s)):
    if r.keep_missed and not (np.isnan(r.underflow) or r.underflow == together.underflow):
        failures.append(
            f"{label}: keep_missed=True, underflow={r.underflow}, overflow={r.overflow} "
            f"but the combined data have {together.underflow}, {together.overflow}: "
            f"{together.underflow - r.underflow} + {together.overflow - r.overflow} values of B lost silently"
        )
# 2. Not commutative
same_flag = ab.keep_missed == ba.keep_missed
same_under = np.array_equal(np.asarray(ab.underflow, dtype=float), np.asarray(ba.underflow, dtype=float), equal_nan=True)
if not (same_flag and same_under):
    failures.append(
        f"not commutative: a+b has keep_missed={ab.keep_missed}, underflow={ab.underflow}; "
        f"b+a has keep_missed={ba.keep_missed}, underflow={ba.underflow}"
    )
# 3. The operand that kept nothing now reports a total missed weight
if not ba.keep_missed and ba.missed != 0 and not np.isnan(ba.missed):
    failures.append(f"b+a: keep_missed=False, underflow=nan, but .missed == {ba.missed} (A's share only)")

# The same through fill_n on explicitly constructed histograms, 1D and 2D
x = Histogram1D(bins); x.fill_n(A)
y = Histogram1D(bins, keep_missed=False); y.fill_n(B)
xy = x + y
describe("\nfill_n: x + y", xy)
if xy.keep_missed and xy.underflow != together.underflow:
    failures.append(f"fill_n variant: underflow {xy.underflow} reported as known, {together.underflow} demanded")

A2 = rng.normal(0, 2, (200, 2)); B2 = rng.normal(1, 2, (150, 2))
b2 = [bins, bins]
p = h(None, b2, dim=2); p.fill_n(A2)
q = h(None, b2, dim=2); q.keep_missed = False; q.fill_n(B2)
t2 = h(np.concatenate([A2, B2]), b2)
print(f"2D: (p+q).missed={(p + q).missed} keep_missed={(p + q).keep_missed};"
      f" (q+p).missed={(q + p).missed} keep_missed={(q + p).keep_missed}; combined data: {t2.missed}")

print()
if failures:
    print("VIOLATIONS:")
    for f in failures:
        print(" -", f)
    sys.exit(1)
print("no violation observed")
