import numpy as np, warnings, traceback
warnings.simplefilter("ignore")
import physt
from physt import h1, binnings as B
def t(label, f):
    try:
        r = f()
        print(label, "->", r)
    except Exception as e:
        print(label, "EXC", type(e).__name__, e)
t("pretty equal", lambda: h1([1.,1.,1.], "pretty").binning)
t("pretty 1elem", lambda: h1([3.7], "pretty").binning)
t("fixed 1elem", lambda: h1([3.7], "fixed_width", bin_width=0.5).binning)
t("integer 1elem", lambda: h1([3], "integer").binning)
t("quantile 1", lambda: h1([3.,4.,5.,6], "quantile", bin_count=2).binning)
t("expo 1elem", lambda: h1([3.7], "exponential").binning)
t("expo 2", lambda: h1([1.,10,100], "exponential", bin_count=2).binning.numpy_bins)
t("static nan", lambda: B.StaticBinning([[0,np.nan],[np.nan,2]]))
t("static nan2", lambda: B.StaticBinning([0,np.nan,2]))
t("asfixed", lambda: B.StaticBinning([0,1,2,3.]).as_fixed_width())
t("isreg small", lambda: B.StaticBinning([0,1e-10,3e-10]).is_regular())
t("isreg big", lambda: B.numpy_binning(np.array([0.1,1e12/3]), 7).is_regular())
t("isreg pretty", lambda: h1(np.random.rand(100)*1e-9, "pretty").binning.as_static().is_regular())
t("expo cls", lambda: B.ExponentialBinning(0, 1e-20, 3).numpy_bins)
t("np single edge", lambda: B.NumpyBinning([1.0]).bins)
t("np 0d", lambda: B.NumpyBinning(5.0).bins)
t("static 3col", lambda: B.StaticBinning([[0,1,2]]))
t("static 3d", lambda: B.StaticBinning(np.zeros((2,2,2))))
t("static 0d", lambda: B.StaticBinning(3.0))
t("static one", lambda: B.StaticBinning([3.0]).bins)
t("static empty", lambda: B.StaticBinning([]).bins)
t("static str", lambda: B.StaticBinning(["a","b"]).bins)
t("static complex", lambda: B.StaticBinning([1j, 2j, 3]).bins)
t("static bool", lambda: B.StaticBinning([False, True]).bins)
