"""C07: is_consecutive() must always agree with the bins (pair representation) of the binning.

BinningBase.is_consecutive(rtol, atol) stores its answer in self._consecutive and returns the
stored answer on every later call - whatever tolerance that call asks for.  One tolerant query
therefore turns a gapped binning into a "consecutive" one for the exact query (and vice versa).
"""
import sys
import warnings

import numpy as np

warnings.simplefilter("ignore")
from physt import h1
from physt.binnings import StaticBinning

failures = []
pairs = [[0.0, 1.0], [1.5, 2.0], [2.0, 3.0]]  # a gap between 1.0 and 1.5

fresh = StaticBinning(pairs)
print("bins:", fresh.bins.tolist())
print("fresh binning        : is_consecutive() =", fresh.is_consecutive(), " (demanded: False, there is a gap)")

asked = StaticBinning(pairs)
tolerant = asked.is_consecutive(atol=1.0)  # a legitimate, documented query: "consecutive within 1.0?"
exact = asked.is_consecutive()
print("after is_consecutive(atol=1.0) ->", tolerant)
print("same object          : is_consecutive() =", exact, " (demanded: False - same bins as above)")
print("equal to the fresh binning:", asked == fresh, "| bins identical:", np.array_equal(asked.bins, fresh.bins))
if exact != fresh.is_consecutive():
    failures.append("is_consecutive() of two equal binnings differs (True for gapped bins)")
try:
    asked.numpy_bins
    print("numpy_bins available although is_consecutive() says True?  yes")
except ValueError as exc:
    print("numpy_bins           :", "refused (%s) although is_consecutive() is True" % exc)

# the other direction: the exact answer is served to the tolerant query
other = StaticBinning(pairs)
first = other.is_consecutive()
second = other.is_consecutive(atol=1.0)
print("exact query first    : is_consecutive() =", first, "then is_consecutive(atol=1.0) =", second,
      " (demanded: True, a fresh binning answers", StaticBinning(pairs).is_consecutive(atol=1.0), ")")
if second != StaticBinning(pairs).is_consecutive(atol=1.0):
    failures.append("is_consecutive(atol=1.0) depends on an earlier call")

# the same through a histogram and through a copy / a slice of the binning
h = h1([0.2, 1.7, 2.5], pairs)
h.binning.is_consecutive(rtol=1.0)
print("histogram binning    : is_consecutive() =", h.binning.is_consecutive(),
      "| copy().is_consecutive() =", h.binning.copy().is_consecutive(),
      "| [0:3].is_consecutive() =", h.binning[0:3].is_consecutive(), " (demanded: all False)")
if h.binning.is_consecutive() != h.binning.copy().is_consecutive():
    failures.append("a binning and its copy() disagree on is_consecutive()")

print()
if failures:
    print("VIOLATIONS:")
    for f in failures:
        print("  -", f)
    sys.exit(1)
print("no violation")
