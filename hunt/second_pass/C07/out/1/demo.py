"""C07: is_regular() must agree with the bins of the binning (at every scale of the data).

BinningBase.is_regular compares the *differences of the bin widths* with an absolute
tolerance of 1e-8 (and a relative tolerance that is multiplied by zero), so the answer
depends on the unit of the data, not on the shape of the bins.
"""
import sys
import warnings

import numpy as np

warnings.simplefilter("ignore")
from physt import h1
from physt.binnings import StaticBinning

failures = []


def widths(binning):
    return binning.bins[:, 1] - binning.bins[:, 0]


# --- 1. small unit: clearly unequal bins are declared regular -------------------------
rng = np.random.default_rng(0)
wavelengths = rng.normal(550e-9, 2e-9, 2000)  # metres: a spectral line 2 nm wide
quantile = h1(wavelengths, "quantile", bin_count=8).binning
w = widths(quantile)
print("1a. quantile bins of wavelengths in metres")
print("    bin widths          :", w)
print("    widest / narrowest  :", w.max() / w.min())
print("    is_regular()        :", quantile.is_regular(), "  (demanded: False, the widths differ several times)")
if quantile.is_regular():
    failures.append("quantile bins (m) declared regular")
# the same bins in nanometres
same_in_nm = StaticBinning(quantile.bins * 1e9)
print("    the same bins in nm :", same_in_nm.is_regular())

explicit = StaticBinning([0.0, 1e-9, 3e-9, 1e-8])
print("1b. StaticBinning([0, 1e-9, 3e-9, 1e-8]).is_regular():", explicit.is_regular(), "  (demanded: False)")
if explicit.is_regular():
    failures.append("explicit bins of widths 1e-9, 2e-9, 7e-9 declared regular")

# --- 2. large offset: equal-width (numpy-style) bins are declared irregular ------------
timestamps = 1.7e9 + rng.uniform(0, 3600.0, 500)  # unix time, one hour
numpy_like = h1(timestamps, 7).binning
w = widths(numpy_like)
print("2.  numpy-style 7 bins over one hour of unix timestamps")
print("    edges identical to numpy.histogram:", np.array_equal(numpy_like.numpy_bins, np.histogram(timestamps, 7)[1]))
print("    bin widths - mean   :", w - w.mean())
print("    relative spread     :", (w.max() - w.min()) / w.mean())
print("    is_regular()        :", numpy_like.is_regular(), "  (demanded: True, equal widths up to one ulp of the edges)")
if not numpy_like.is_regular():
    failures.append("numpy-style equal-width bins at an offset declared irregular")
shifted = h1(timestamps - 1.7e9, 7).binning
print("    same data minus the offset -> is_regular():", shifted.is_regular())

# a fixed-width binning and its own static form / slice disagree
fixed = h1(timestamps, "fixed_width", bin_width=0.1 * 3600 / 7).binning
print("3.  fixed_width binning of the timestamps: is_regular() =", fixed.is_regular(),
      "| as_static().is_regular() =", fixed.as_static().is_regular(),
      "| [1:5].is_regular() =", fixed[1:5].is_regular(), "  (demanded: all True)")
if not (fixed.is_regular() and fixed.as_static().is_regular() and fixed[1:5].is_regular()):
    failures.append("fixed-width binning and its static form / slice disagree on is_regular")

print()
if failures:
    print("VIOLATIONS:")
    for f in failures:
        print("  -", f)
    sys.exit(1)
print("no violation")
