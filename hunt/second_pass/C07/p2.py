import numpy as np, warnings, traceback, itertools
warnings.simplefilter("ignore")
import physt
from physt import h1, binnings as B
rng = np.random.default_rng(1)
problems = {}
def rep(k, msg):
    if k not in problems:
        problems[k] = msg; print("PROBLEM", k, msg)
def check(b, data=None, label="", cover=True, exp=False):
    bins = b.bins
    if bins.ndim != 2 or bins.shape[1] != 2: rep(label+":shape", bins.shape)
    if not np.all(bins[:,0] < bins[:,1]): rep(label+":lr", bins)
    if not np.all(bins[1:,0] >= bins[:-1,1]): rep(label+":overlap", bins)
    if b.bin_count != bins.shape[0]: rep(label+":count", (b.bin_count, bins.shape))
    if bins.shape[0]:
        if b.first_edge != bins[0,0]: rep(label+":first", (b.first_edge, bins[0,0]))
        if b.last_edge != bins[-1,1]: rep(label+":last", (b.last_edge, bins[-1,1]))
    cons = bool(np.all(bins[1:,0] == bins[:-1,1]))
    if b.is_consecutive() != cons: rep(label+":cons", (b.is_consecutive(), cons))
    if cons and bins.shape[0]:
        nb = b.numpy_bins
        if not (np.array_equal(nb[:-1], bins[:,0]) and np.array_equal(nb[1:], bins[:,1])): rep(label+":nb", (nb, bins))
    e, m = b.numpy_bins_with_mask
    if bins.shape[0]:
      if not (np.array_equal(e[m], bins[:,0]) and np.array_equal(e[m+1], bins[:,1])): rep(label+":mask", (e,m,bins))
    c = b.copy()
    if not (c == b and b == c): rep(label+":copyeq", "")
    if not np.array_equal(c.bins, bins): rep(label+":copybins", "")
    if type(c) != type(b): rep(label+":copytype","")
    if c.includes_right_edge != b.includes_right_edge: rep(label+":copyire","")
    w = bins[:,1]-bins[:,0]
    if bins.shape[0] > 1:
        reg = bool(np.allclose(w, w[0], rtol=1e-6, atol=0))
        if b.is_regular() != reg: rep(label+":reg", (b.is_regular(), reg, w[:3]))
    # slicing
    n = bins.shape[0]
    if n >= 2:
        i, j = sorted(rng.integers(0, n+1, 2))
        s = b[i:j]
        if not np.array_equal(s.bins, bins[i:j]): rep(label+":slice", (i,j))
        if s.bin_count != j-i: rep(label+":slicecount", (i,j))
        if not np.array_equal(b[int(i) if i<n else 0], bins[int(i) if i<n else 0]): rep(label+":item", i)
    if data is not None and cover and n:
        lo, hi = data.min(), data.max()
        if exp:
            if not (bins[0,0] <= lo*(1+1e-9) and bins[-1,1] >= hi*(1-1e-9)): rep(label+":cover", (bins[0,0], lo, bins[-1,1], hi))
        else:
            if not (bins[0,0] <= lo): rep(label+":coverlo", (bins[0,0], lo))
            if b.includes_right_edge:
                if not bins[-1,1] >= hi: rep(label+":coverhi", (bins[-1,1], hi))
            else:
                if not bins[-1,1] > hi: rep(label+":coverhi", (bins[-1,1], hi))

def gen():
    mag = 10.0**rng.integers(-7, 8)
    off = rng.choice([0, 0, 1, -1, 10, -100, 1e3, 1e5, -1e6])*mag*rng.choice([0,1,1,10,1000])
    n = rng.choice([2,3,5,10,50,200,1000])
    kind = rng.integers(0,5)
    if kind==0: d = rng.normal(size=n)
    elif kind==1: d = rng.random(n)
    elif kind==2: d = rng.integers(-5,6,size=n).astype(float)
    elif kind==3: d = rng.exponential(size=n)
    else: d = np.round(rng.normal(size=n),1)
    return d*mag+off
for it in range(3000):
    d = gen()
    if d.min()==d.max(): continue
    bc = int(rng.choice([1,2,3,5,7,10,20,33,100]))
    # numpy
    try:
        b = B.calculate_bins(d, bc) if hasattr(B,'calculate_bins') else physt._construction.calculate_1d_bins(d, bc)
        check(b, d, "numpy")
        ne = np.histogram(d, bc)[1]
        if not np.array_equal(ne, b.numpy_bins): rep("numpy:rule", (ne, b.numpy_bins))
    except Exception as e: rep("numpy:exc", repr(e))
    for m in ["sturges","sqrt","rice","doane","default"]:
        try:
            b = physt._construction.calculate_1d_bins(d, m)
            check(b, d, m)
            k = b.bin_count
            ne = np.histogram(d, k)[1]
            if not np.array_equal(ne, b.numpy_bins): rep(m+":rule", "")
            n = d.size
            exp_k = {"sturges": int(np.ceil(np.log2(n))+1), "sqrt": int(np.ceil(np.sqrt(n))), "rice": int(np.ceil(2*n**(1/3)))}.get(m)
            if exp_k and exp_k != k: rep(m+":k", (n,k,exp_k))
        except Exception as e: rep(m+":exc", repr(e)+str(d[:3]))
    # pretty
    try:
        b = physt._construction.calculate_1d_bins(d, "pretty", bin_count=bc)
        check(b, d, "pretty")
        w = b.bin_width
        raw = (d.max()-d.min())/bc
        k = np.floor(np.log10(w))
        mant = w/10**k
        if not min(abs(mant - np.array([1,2,2.5,5,10]))) < 1e-9: rep("pretty:mant", (w, mant))
        cands = np.array([c*10.0**kk for kk in range(int(k)-2,int(k)+3) for c in (1,2,2.5,5)])
        best = cands[np.argmin(np.abs(np.log(cands/raw)))]
        if not np.isclose(best, w, rtol=1e-9): rep("pretty:nearest", (raw, w, best))
        # grid aligned
        r = b.numpy_bins / w
        if not np.allclose(r, np.round(r), atol=1e-6*max(1,np.abs(r).max()*1e-9)): rep("pretty:grid", (b.numpy_bins[:3], w))
    except Exception as e: rep("pretty:exc", repr(e)+str((d.min(), d.max(), bc)))
    # fixed width
    try:
        w = float(rng.choice([1,2,2.5,5,0.3,7]))*10.0**np.floor(np.log10((d.max()-d.min())/bc))
        kw = {}
        if rng.random()<0.3: kw["align"]=False
        if rng.random()<0.3: kw["bin_shift"]=float(rng.random()*w)
        if rng.random()<0.2: kw["includes_right_edge"]=True
        b = physt._construction.calculate_1d_bins(d, "fixed_width", bin_width=w, **kw)
        check(b, d, "fixed"+str(sorted(kw)))
    except Exception as e: rep("fixed:exc", repr(e))
    try:
        b = physt._construction.calculate_1d_bins(d, "integer")
        check(b, d, "integer")
        c = (b.bins[:,0]+b.bins[:,1])/2
        if not np.array_equal(c, np.round(c)): rep("integer:centre", c[:3])
    except Exception as e: rep("integer:exc", repr(e))
    try:
        b = physt._construction.calculate_1d_bins(d, "quantile", bin_count=bc)
        check(b, d, "quantile")
        q = np.quantile(d, np.linspace(0,1,bc+1))
        if not np.allclose(q, b.numpy_bins, rtol=1e-12, atol=0): rep("quantile:rule", (q, b.numpy_bins))
    except ValueError as e:
        if "rising" not in str(e): rep("quantile:exc", repr(e))
    if d.min() > 0:
        try:
            b = physt._construction.calculate_1d_bins(d, "exponential", bin_count=bc)
            check(b, d, "exp", exp=True)
            r = b.numpy_bins[1:]/b.numpy_bins[:-1]
            if not np.allclose(r, r[0], rtol=1e-6): rep("exp:geom", r)
        except ValueError as e:
            if "narrow" not in str(e): rep("exp:exc", repr(e))
print("done", len(problems))
