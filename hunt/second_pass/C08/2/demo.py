"""C08: the data of a HistogramCollection itself (name, title, shared binning) are not
written to JSON: name / title of a collection are silently lost in the round trip and
a collection without members cannot be read back at all.

Run:  PYTHONPATH=/tmp/mut/R6C08/src /venv/bin/python demo.py
"""
import json
import os
import sys
import tempfile

import numpy as np

import physt
from physt.io import load_json, parse_json
from physt.types import HistogramCollection

failures = []
rng = np.random.default_rng(3)
data = {"signal": rng.normal(size=100), "background": rng.normal(size=100) * 2}

# --- 1. name and title of the collection --------------------------------------------
collection = physt.collection(data, "fixed_width", bin_width=0.5, name="run-7", title="Run 7: all events")
document = collection.to_json()
restored = parse_json(document)

fd, path = tempfile.mkstemp(suffix=".json")
os.close(fd)
try:
    collection.to_json(path)
    from_file = load_json(path)
finally:
    os.unlink(path)

print("collection with 2 members")
print(f"  class                : {type(collection).__name__} -> {type(restored).__name__}")
print(f"  restored == original : {restored == collection}   (members are compared one by one - they are fine)")
print(f"  member names         : {[h.name for h in collection]} -> {[h.name for h in restored]}")
print(f"  name   (original)    : {collection.name!r}")
print(f"  name   (parse_json)  : {restored.name!r}      <- the statement demands identical metadata (name, title, ...)")
print(f"  name   (load_json)   : {from_file.name!r}")
print(f"  title  (original)    : {collection.title!r}")
print(f"  title  (parse_json)  : {restored.title!r}")
print(f"  title  (load_json)   : {from_file.title!r}")
print(f"  top-level keys of the document: {sorted(json.loads(document))}")
for label, other in (("parse_json", restored), ("load_json", from_file)):
    if other.name != collection.name:
        failures.append(f"{label}: name of the collection {collection.name!r} became {other.name!r}")
    if other.title != collection.title:
        failures.append(f"{label}: title of the collection {collection.title!r} became {other.title!r}")

# --- 2. a collection that has no members yet ------------------------------------------
binning = physt.binnings.FixedWidthBinning(bin_width=0.5, bin_count=8, min=-2.0)
empty = HistogramCollection(binning=binning, name="to be filled", title="Empty so far")
document = empty.to_json()
print()
print("collection without members (the documented way to start one: HistogramCollection(binning=...), then .create())")
print(f"  document: {document}")
try:
    restored = parse_json(document)
except Exception as exc:  # pylint: disable=broad-except
    print(f"  parse_json(empty.to_json()) raised {type(exc).__name__}: {exc}")
    print("      <- the statement demands an object of the same class that is == to the original")
    failures.append(f"parse_json(empty.to_json()) raised {type(exc).__name__}: the shared binning is not in the document")
else:
    print(f"  restored: {type(restored).__name__}, == original: {restored == empty}, bins equal: "
          f"{np.array_equal(restored.binning.bins, empty.binning.bins)}, name {restored.name!r}, title {restored.title!r}")
    if not (restored == empty and np.array_equal(restored.binning.bins, empty.binning.bins)
            and restored.name == empty.name and restored.title == empty.title):
        failures.append("empty collection not reproduced")

print()
if failures:
    print("VIOLATIONS of C08:")
    for failure in failures:
        print("  -", failure)
    sys.exit(1)
print("no violation observed")
