"""C08: a 1D histogram whose recording of missed values was switched off after values
had been missed (h.keep_missed = False, or a + b with b.keep_missed == False) does not
survive the JSON round trip: `missed` drops to 0 and the re-serialised document differs.

Run:  PYTHONPATH=/tmp/mut/R6C08/src /venv/bin/python demo.py
"""
import json
import os
import sys
import tempfile

import numpy as np

import physt
from physt.io import load_json, parse_json

failures = []


def report(label, original, restored, document, document2):
    print(f"--- {label}")
    print(f"  class                 : {type(original).__name__} -> {type(restored).__name__}")
    print(f"  restored == original  : {restored == original}")
    print(f"  keep_missed           : {original.keep_missed} -> {restored.keep_missed}")
    print(f"  missed   (original)   : {original.missed!r}")
    print(f"  missed   (restored)   : {restored.missed!r}      <- the statement demands the same value")
    m1 = json.loads(document)["missed"]
    m2 = json.loads(document2)["missed"]
    print(f"  document 1 'missed'   : {m1}")
    print(f"  document 2 'missed'   : {m2}      <- the statement demands the same document")
    if not np.array_equal(np.asarray(original.missed, dtype=float), np.asarray(restored.missed, dtype=float), equal_nan=True):
        failures.append(f"{label}: missed {original.missed!r} became {restored.missed!r}")
    # (compared as JSON values, so that the order of keys inside objects does not matter)
    if json.loads(document) != json.loads(document2):
        failures.append(f"{label}: serialising the parsed object gives another document")


data = np.random.default_rng(1).normal(size=200)

# (a) the recording is switched off on an existing histogram (plain public attribute)
h = physt.h1(data, "fixed_width", bin_width=0.5, range=(-1, 1))
assert h.missed == h.underflow + h.overflow > 0
h.keep_missed = False
doc = h.to_json()
restored = parse_json(doc)
report("h.keep_missed = False", h, restored, doc, restored.to_json())

# (b) the library itself produces that state: a + b where b does not keep the missed values
a = physt.h1(data, "fixed_width", bin_width=0.5, range=(-1, 1))
b = physt.h1(data, "fixed_width", bin_width=0.5, range=(-1, 1), keep_missed=False)
total = a + b
doc = total.to_json()
restored = parse_json(doc)
report("a + b (b.keep_missed == False)", total, restored, doc, restored.to_json())

# (c) the same through a file
fd, path = tempfile.mkstemp(suffix=".json")
os.close(fd)
try:
    doc = h.to_json(path)
    restored = load_json(path)
finally:
    os.unlink(path)
report("to_json(path) / load_json(path)", h, restored, doc, restored.to_json())

# (d) for comparison: the N-dimensional classes keep the value in the same situation
h2 = physt.h2(data, data[::-1], "fixed_width", bin_width=0.5, range=((-1, 1), (-1, 1)))
h2.keep_missed = False
r2 = parse_json(h2.to_json())
print(f"--- Histogram2D for comparison: missed {h2.missed!r} -> {r2.missed!r}, same document: {r2.to_json() == h2.to_json()}")

print()
if failures:
    print("VIOLATIONS of C08:")
    for failure in failures:
        print("  -", failure)
    sys.exit(1)
print("no violation observed")
