from rt import *
rng=np.random.default_rng(1)
d=rng.normal(size=200)
for b in ["numpy","fixed_width","integer","pretty","exponential","quantile","static"]:
    kw={}
    dd=d
    if b=="exponential": dd=np.abs(d)+0.1
    if b=="quantile": kw=dict(bin_count=5)
    if b=="static": b=[-1,0,0.5,2]
    if b=="fixed_width": kw=dict(bin_width=0.3)
    for dt in [None,"float32","float16","int32","int16","float64"]:
        hh=h1(dd,b,dtype=dt,name="n",title="t",axis_name="x",foo={"a":[1,2]},**kw)
        check(hh,f"1d {b} {dt}")
    hh=h1(dd,b,weights=rng.random(200),**kw); check(hh,f"1d {b} weighted")
    hh=h1(dd,b,keep_missed=False,**kw); check(hh,f"1d {b} nokeep")
# adaptive
hh=h1(d,"fixed_width",bin_width=0.5,adaptive=True); hh.fill(10); check(hh,"adaptive")
hh=h1(None,"fixed_width",bin_width=0.5,adaptive=True); check(hh,"adaptive empty")
hh=h1(None,"fixed_width",bin_width=0.5,adaptive=True,align=False); check(hh,"adaptive empty noalign")
hh=h1(None,"integer",adaptive=True); check(hh,"adaptive int empty")
# float32 data
check(h1(d.astype("float32"),"exponential" ) if False else h1(np.abs(d).astype("float32")+0.1,"exponential"),"exp f32")
check(h1(d.astype("float32"),"pretty"),"pretty f32")
check(h1(d.astype("float32"),"numpy"),"numpy f32")
check(h1(d.astype("float32"),"quantile",bin_count=4),"quantile f32")
check(h1(d.astype("float32"),"fixed_width",bin_width=np.float32(0.1)),"fw f32")
check(h1(np.arange(10),"integer"),"integer int data")
check(h1(np.arange(10),"fixed_width",bin_width=np.int64(2)),"fw int width")
check(h1(np.arange(10),"fixed_width",bin_width=2, range=(np.int64(0),np.int64(10))),"fw int range")
check(h1(np.arange(1,10),"exponential",bin_count=np.int64(3)),"exp npint count")
check(h1(np.arange(1,10),"exponential",range=(1,100)),"exp range")
check(h1(np.arange(1,10),"exponential",range=(np.float32(1),np.float32(100))),"exp range f32")
