import json, physt, numpy as np
from physt.io import parse_json
hh=physt.h1([1,2,3])
doc=json.loads(hh.to_json())
print(doc["physt_version"],doc["physt_compatible"])
def t(v, key="physt_compatible", coll=False):
    d=json.loads(hh.to_json()) if not coll else json.loads(physt.collection({"a":[1,2,3]}).to_json())
    if v is DEL: d.pop(key,None)
    else: d[key]=v
    try:
        parse_json(json.dumps(d)); print(repr(v),key,"ACCEPTED")
    except Exception as e: print(repr(v),key,"refused",type(e).__name__,e)
DEL=object()
for v in ["0.8.4","0.8.5","0.8.4.1","0.8.4.post1","0.8.5.dev0","0.8.5a1","0.8.5rc1","0.9","1","1.0","0.10.0","0.8.10","1!0.1","0.8.4+local","0.8.4+zzz","v0.8.5","  0.8.5 ","0.8.04","0.8.4.0","0.8.4.0.0.1","00.9.0","0.8.4-1","0.8.4_1","0.8.5.DEV","99",0.9, 1, 99, None, "", "abc", ["0.9"], {"a":1}, True, DEL, "0.8.5b", "0.8.5.post", "0.8.4.post0","0.8.4.rev1","0.8.4-r1","0.8.4c1","0.8.5pre","0.8.5-preview2"]:
    t(v)
for v in ["0.8.5","99",DEL]:
    t(v,coll=True)
# nested: member declares newer
c=json.loads(physt.collection({"a":[1,2,3]}).to_json())
c["histograms"][0]["physt_compatible"]="99.0"
try: parse_json(json.dumps(c)); print("member newer ACCEPTED")
except Exception as e: print("member refused",e)
