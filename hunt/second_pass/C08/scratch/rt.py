import json, numpy as np, physt, tempfile, os
from physt import h1, h2, h3, h, special_histograms as sp
from physt.io import parse_json, load_json
from physt.types import HistogramCollection, Histogram1D, HistogramND, Histogram2D

def bits(a):
    a = np.asarray(a)
    return (a.dtype.str, a.shape, a.tobytes())

def cmp(a, b, label, probs):
    if type(a) is not type(b): probs.append(f"{label}: class {type(a)} vs {type(b)}")
    if isinstance(a, HistogramCollection):
        if len(a) != len(b): probs.append("len"); return
        for i,(x,y) in enumerate(zip(a,b)): cmp(x,y,f"{label}[{i}]",probs)
        if a.name != b.name: probs.append(f"{label}: coll name {a.name!r} vs {b.name!r}")
        if a.title != b.title: probs.append(f"{label}: coll title {a.title!r} vs {b.title!r}")
        return
    if not (a == b): probs.append(f"{label}: not ==")
    for i,(x,y) in enumerate(zip(a._binnings,b._binnings)):
        if type(x) is not type(y): probs.append(f"{label}: binning type {i} {type(x).__name__} vs {type(y).__name__}")
        if bits(x.bins)!=bits(y.bins): probs.append(f"{label}: bins {i} differ {x.bins.tolist()} vs {y.bins.tolist()}")
        try:
            if bits(x.numpy_bins)!=bits(y.numpy_bins): probs.append(f"{label}: numpy_bins {i} differ")
        except Exception as e: pass
        if x.is_adaptive()!=y.is_adaptive(): probs.append(f"{label}: adaptive {i}")
        if x.includes_right_edge!=y.includes_right_edge: probs.append(f"{label}: (includes_right_edge {i} {x.includes_right_edge} vs {y.includes_right_edge})")
    if bits(a.frequencies)!=bits(b.frequencies): probs.append(f"{label}: freq {a.frequencies!r} vs {b.frequencies!r}")
    if bits(a.errors2)!=bits(b.errors2): probs.append(f"{label}: err2 {a.errors2!r} vs {b.errors2!r}")
    if a.dtype!=b.dtype: probs.append(f"{label}: dtype {a.dtype} vs {b.dtype}")
    if a.keep_missed!=b.keep_missed: probs.append(f"{label}: keep_missed")
    if bits(a._missed)!=bits(b._missed): probs.append(f"{label}: _missed {a._missed!r} vs {b._missed!r}")
    if not np.array_equal(np.asarray(a.missed,dtype=float), np.asarray(b.missed,dtype=float), equal_nan=True): probs.append(f"{label}: missed {a.missed} vs {b.missed}")
    if isinstance(a, Histogram1D):
        for attr in ("underflow","overflow","inner_missed"):
            x,y=getattr(a,attr),getattr(b,attr)
            if bits(x)!=bits(y): probs.append(f"{label}: {attr} {x!r} vs {y!r}")
    if a.adaptive!=b.adaptive: probs.append(f"{label}: adaptive")
    if a.meta_data!=b.meta_data: probs.append(f"{label}: meta {a.meta_data} vs {b.meta_data}")
    if list(a.meta_data)!=list(b.meta_data): probs.append(f"{label}: (meta order {list(a.meta_data)} vs {list(b.meta_data)})")
    for attr in ("name","title","axis_names"):
        if getattr(a,attr)!=getattr(b,attr): probs.append(f"{label}: {attr}")

def check(hh, label):
    probs=[]
    try:
        t = hh.to_json()
    except Exception as e:
        print(f"[{label}] to_json raised {type(e).__name__}: {e}"); return
    try:
        p = parse_json(t)
    except Exception as e:
        print(f"[{label}] parse_json raised {type(e).__name__}: {e}"); return
    cmp(hh,p,label,probs)
    t2 = p.to_json()
    if t2!=t:
        if json.loads(t2)!=json.loads(t) and not (repr(json.loads(t2))==repr(json.loads(t))): probs.append(f"{label}: re-serialised doc differs (content)")
        else: probs.append(f"{label}: (re-serialised differs textually only)")
    fd,path=tempfile.mkstemp(suffix=".json"); os.close(fd)
    hh.to_json(path)
    q = load_json(path); os.unlink(path)
    pr2=[]; cmp(hh,q,label+"/file",pr2)
    if len(pr2)!=len([x for x in probs if "re-serial" not in x]): probs.append("file path differs: %s"%pr2)
    for x in probs: print("  PROBLEM", x)
    if not probs: print(f"[{label}] ok")
    return p
