from rt import *
import warnings; warnings.simplefilter("ignore")
import physt
hh=physt.h2(None,None,"fixed_width",bin_width=1,adaptive=True); check(hh,"empty adaptive 2d")
hh.fill([1.5,2.5]); check(hh,"filled adaptive 2d"); hh.fill([-3.2,7],weight=2.5); check(hh,"filled2 adaptive 2d")
hh=physt.h(None,"fixed_width",bin_width=[1,0.5,0.25],adaptive=True,dim=3); check(hh,"empty adaptive 3d"); hh.fill([1,2,3]); check(hh,"3d filled")
hh=physt.h1(None,"fixed_width",bin_width=0.1,adaptive=True); 
for v in [0.3,0.7,-12.34,1e6]: hh.fill(v)
check(hh,"adaptive filled far")
hh=physt.h1(None,"fixed_width",bin_width=0.1,adaptive=True,align=False); hh.fill(0.33); check(hh,"noalign filled"); hh.fill(-5); check(hh,"noalign filled 2")
# adaptive addition
a=physt.h1([1,2,3],"fixed_width",bin_width=1,adaptive=True); b=physt.h1([10,12],"fixed_width",bin_width=1,adaptive=True); check(a+b,"adaptive sum")
# fill_n
hh=physt.h1([1,2,3],"fixed_width",bin_width=1,adaptive=True); hh.fill_n([5,6,-7],weights=[0.5,1,2]); check(hh,"fill_n adaptive")
# set_adaptive toggled
hh=physt.h1([1,2,3],"fixed_width",bin_width=1); hh.adaptive=True; check(hh,"set adaptive after")
hh=physt.h2([1,2,3],[1,2,3],"fixed_width",bin_width=1); hh.adaptive=True; check(hh,"set adaptive after 2d")
hh=physt.h2([1,2,3],[1,2,3],["fixed_width","numpy"],bin_width=1); 
hh._binnings[0].set_adaptive(True); print(hh.adaptive); check(hh,"partial adaptive 2d")
# dtype changes
hh=physt.h1([1,2,3]); hh.dtype="float32"; check(hh,"dtype set f32")
hh=physt.h1([1,2,3]); hh.dtype=">f8"; check(hh,"dtype big endian")
hh=physt.h1([1,2,3],dtype=">i4"); check(hh,"dtype big endian i4")
hh=physt.h1([1,2,3],dtype=np.longdouble); check(hh,"longdouble")
hh=physt.h1([1,2,3],dtype="int64"); hh.fill(1.5,weight=0.5); print(hh.dtype); check(hh,"coerced")
hh=physt.h1([1,2,3],dtype="float16",weights=[0.1,0.2,0.3]); check(hh,"f16 w")
hh=physt.h1([1,2,3],weights=np.array([0.1,0.2,0.3],dtype=np.float32)); print(hh.dtype); check(hh,"f32 w")
hh=physt.h1([1,2,3],weights=np.array([1,2,3],dtype=np.int32)); print(hh.dtype); check(hh,"i32 w")
hh=physt.h1([1,2,3],weights=np.array([True,False,True])); print(hh.dtype); check(hh,"bool w")
