from rt import *
import warnings; warnings.simplefilter("ignore")
import physt
rng=np.random.default_rng(1)
d=rng.normal(size=(300,3))
for f,args in [(physt.polar,(d[:,0],d[:,1])),(physt.radial,(d[:,0],d[:,1])),(physt.radial,(d[:,0],d[:,1],d[:,2])),(physt.azimuthal,(d[:,0],d[:,1])),(physt.spherical,(d,)),(physt.spherical_surface,(d,)),(physt.cylindrical,(d,)),(physt.cylindrical_surface,(d,))]:
    for kw in [{}, dict(dtype="float32"), dict(weights=rng.random(300)), dict(name="nm",title="tt")]:
        try:
            hh=f(*args,**kw)
        except Exception as e:
            print(f.__name__,kw,"construct exc",type(e).__name__,e); continue
        p=check(hh,f"{f.__name__} {list(kw)}")
hh=physt.azimuthal(d[:,0],d[:,1],radius=3.5); print(hh.meta_data); check(hh,"azim radius")
hh=physt.spherical_surface(d); print(hh.meta_data); hh.meta_data["radius"]=2.5; check(hh,"ss radius")
hh=physt.cylindrical_surface(d); hh.radius=7 if hasattr(hh,"radius") else None; print(hh.meta_data); check(hh,"cs radius")
# projections of transformed
hh=physt.polar(d[:,0],d[:,1]); check(hh.projection("r"),"polar->r"); check(hh.projection("phi"),"polar->phi")
hh=physt.spherical(d); 
for ax in ["r","theta","phi"]: check(hh.projection(ax),"sph->"+ax)
check(hh.projection("r","theta"),"sph->r,theta"); check(hh.projection("theta","phi"),"sph->theta,phi")
hh=physt.cylindrical(d)
for ax in ["rho","phi","z"]: check(hh.projection(ax),"cyl->"+ax)
check(hh.projection("rho","phi"),"cyl->rho,phi"); check(hh.projection("phi","z"),"cyl->phi,z");check(hh.projection("rho","z"),"cyl->rho,z")
# collections
c=physt.collection({"a":d[:,0],"b":d[:,1]},name="cn",title="ct"); check(c,"collection")
c=physt.collection({"a":d[:,0],"b":d[:,1]},"fixed_width",bin_width=0.5,adaptive=True); check(c,"collection adaptive")
c=HistogramCollection(binning=[0,1,2]); check(c,"empty coll")
c=HistogramCollection(h1(d[:,0],"numpy",range=(-1,1),dtype="float32"),h1(d[:,1],"numpy",range=(-1,1),weights=rng.random(300),name="w")); check(c,"coll mixed dtypes")
check(c.normalize_bins(),"coll nb"); check(c.normalize_all(),"coll na")
