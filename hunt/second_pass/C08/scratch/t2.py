from rt import *
import warnings; warnings.simplefilter("ignore")
rng=np.random.default_rng(1)
d=rng.normal(size=200)
# keep_missed changed
hh=h1(d,"fixed_width",bin_width=0.5,range=(-1,1)); hh.keep_missed=False; check(hh,"keep_missed set False after")
a=h1(d,"fixed_width",bin_width=0.5,range=(-1,1)); b=h1(d,"fixed_width",bin_width=0.5,range=(-1,1),keep_missed=False); check(a+b,"sum keep/nokeep")
# NaN missed
hh=h1(d,[[-1,0],[0.5,1]]); print(hh._missed, hh.dtype); check(hh,"inconsecutive")
hh=h1(d,"numpy",range=(-1,1)); hh.underflow=np.nan; check(hh,"nan underflow int")
hh=h1(d,"numpy",range=(-1,1),dtype=float); hh.overflow=np.nan; check(hh,"nan overflow float")
hh=h1(d,"numpy",range=(-1,1)); check(hh*np.ones(10),"mult array") if False else None
# custom errors
hh=h1(d,"numpy",range=(-1,1)); hh.errors2=np.arange(10)*1.5 if False else np.arange(10); check(hh,"custom err int")
hh=h1(d,"numpy",range=(-1,1),dtype=float); hh.errors2=np.arange(10)*1.37; check(hh,"custom err float")
hh=Histogram1D([0,1,2],[1,2],errors2=[0.5,0.25]); print(hh.dtype,hh.errors2); check(hh,"int freq float errs")
hh=Histogram1D([0,1,2],[1.5,2],errors2=[0.5,0.25],overflow=1.5,underflow=0.1,inner_missed=3); check(hh,"float all")
hh=Histogram1D([0,1,2],[1,2],overflow=1.5); print(hh._missed); check(hh,"int freq float overflow")
# ops
hh=h1(d,"numpy",range=(-1,1)); check(hh/3,"div"); check(hh*0.1,"mul"); check(hh.normalize(),"norm"); check(hh.densities if False else hh.cumulative if False else hh[2:5],"slice"); check(hh.merge_bins(2),"merge")
check(hh[[1,3,5]],"fancy")
hh=h1(d,"fixed_width",bin_width=0.5); check(hh[2:5],"slice fw"); check(hh.merge_bins(2),"merge fw")
hh=h1(np.abs(d)+.1,"exponential"); check(hh[2:5],"slice exp"); 
# empty
check(h1(None,"fixed_width",bin_width=1),"empty fw")
check(Histogram1D([[0,1]],[3]),"1 bin")
check(Histogram1D(np.zeros((0,2))),"0 bins static")
try: check(h1([], "fixed_width", bin_width=1),"empty data")
except Exception as e: print("exc",e)
# extreme
check(h1([1e-320,5e-320,1e-319],"numpy",bin_count=3),"subnormal")
check(h1([1e300,1.5e300,1.7e308],"numpy",bin_count=3),"huge")
check(h1([0.1,0.2,0.3],"numpy",bin_count=3, weights=[1e-320,0.1+0.2,1/3]),"weights odd")
check(h1([0.1,0.2,0.3],"fixed_width",bin_width=0.1),"fw 0.1")
check(h1([0.1,0.2,0.3,1e9+0.1],"fixed_width",bin_width=1/3),"fw 1/3")
check(h1([1e15,1e15+7],"fixed_width",bin_width=0.7),"fw 1e15")
check(h1([-1e15,-1e15+7],"fixed_width",bin_width=0.7),"fw -1e15")
check(h1([0.1,5.3],"fixed_width",bin_width=0.7,bin_shift=0.13) ,"fw shift")
check(h1([0.1,5.3],"fixed_width",bin_width=0.7,align=False) ,"fw noalign")
check(h1([0.1,5.3],"fixed_width",bin_width=0.7,align=False,adaptive=True) ,"fw noalign adaptive")
check(h1([0.1,5.3],"fixed_width",bin_width=0.7,includes_right_edge=True) ,"fw right")
check(h1([0.1,5.3],"exponential",includes_right_edge=False) ,"exp noright")
check(h1([0.1,5.3],"pretty",bin_count=3) ,"pretty")
check(h1([0.1,5.3],"pretty",kind="time") ,"pretty time")
