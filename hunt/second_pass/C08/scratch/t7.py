from rt import *
import warnings; warnings.simplefilter("ignore")
import physt
rng=np.random.default_rng(1)
d=rng.normal(size=(50,3))
keys=["binnings","binning","frequencies","errors2","dtype","missed","keep_missed","missed_keep","dimension","stats","overflow","underflow","inner_missed","axis_name","axis_names2","histogram_type","meta_data","physt_version","physt_compatible","kwargs","cls","radius","data","adaptive","bins","weights","dim","transformed","args"]
vals=[1, "s", None, [1,2,[3]], {"a":{"b":[1,None,True]}}, 1.5, True, {}, [], float("nan")]
makers={"h1":lambda: physt.h1(d[:,0]),"h2":lambda: physt.h2(d[:,0],d[:,1]),"h3":lambda: physt.h3(d),"polar":lambda: physt.polar(d[:,0],d[:,1]),"azim":lambda: physt.azimuthal(d[:,0],d[:,1]),"radial":lambda: physt.radial(d[:,0],d[:,1]),"sphs":lambda: physt.spherical_surface(d),"cyl":lambda: physt.cylindrical(d),"cyls":lambda: physt.cylindrical_surface(d)}
import io, contextlib
for mn,mk in makers.items():
    for k in keys:
        for v in vals:
            hh=mk(); hh.meta_data[k]=v
            buf=io.StringIO()
            with contextlib.redirect_stdout(buf):
                check(hh,f"{mn} meta {k}={v!r}")
            out=buf.getvalue()
            # NaN != NaN in dict compare -> ignore pure-nan meta compare
            lines=[l for l in out.splitlines() if "] ok" not in l and "meta order" not in l and "textually" not in l]
            if v!=v: lines=[l for l in lines if ": meta " not in l and "re-serialised" not in l]
            for l in lines: print(l)
# name/title variants
for nm,tt in [("n",None),(None,"t"),("","t"),("n",""),(5,6),("n","n"),("ünï ☃","  \"q\" \\ \n"),("n"*3,"\ud800" )]:
    hh=physt.h1(d[:,0]); 
    if nm is not None: hh.name=nm
    if tt is not None: hh.title=tt
    try: check(hh,f"name={nm!r} title={tt!r}")
    except Exception as e: print("exc",type(e).__name__,e)
hh=physt.h1(d[:,0],name="a"); check(hh,"name only via facade")
hh=physt.h1(d[:,0],title="a"); check(hh,"title only via facade")
hh=physt.h1(d[:,0],axis_name=""); check(hh,"axis empty")
hh=physt.h2(d[:,0],d[:,1],axis_names=("","b")); check(hh,"axis names empty one")
hh=physt.h2(d[:,0],d[:,1]); hh.axis_names=["x","y"]; check(hh,"axis names set")
hh=physt.h1(d[:,0]); del hh.meta_data["axis_names"]; check(hh,"axis_names deleted")
hh=physt.h1(d[:,0]); hh.meta_data.clear(); check(hh,"meta cleared")
hh=physt.h2(d[:,0],d[:,1]); hh.meta_data.clear(); check(hh,"meta cleared 2d")
