from rt import *
import warnings; warnings.simplefilter("ignore")
import physt
try:
    hh=HistogramND([],5); print(hh.shape, hh.frequencies); check(hh,"0-dim")
except Exception as e: print("0-dim exc",type(e).__name__,e)
# int histogram with stale float _missed
hh=physt.h1([1,2,3,10],"numpy",range=(0,5)); hh.underflow=np.nan; hh.underflow=3; print(hh._missed.dtype); check(hh,"float missed in int hist")
# h1 with NaN data dropna False
try:
    hh=physt.h1([1,2,np.nan,3],"numpy",range=(0,5),dropna=False); print(hh._missed); check(hh,"nan data")
except Exception as e: print("exc",e)
hh=physt.h1([1,2,3],"numpy",range=(0,5)); hh.fill(np.nan); print(hh._missed); check(hh,"fill nan")
# subtraction
a=physt.h1([1,2,3,3],"numpy",range=(0,5)); b=physt.h1([3],"numpy",range=(0,5)); check(a-b,"sub")
# division by hist / array
with physt.config.config.enable_free_arithmetics() if hasattr(physt.config,"config") else contextlib.nullcontext():
    pass
