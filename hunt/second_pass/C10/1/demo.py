"""C10: merge_bins loses (or invents) whole entries when the contents are float32 / float16.

Run:  PYTHONPATH=/tmp/mut/R5C10/src /venv/bin/python demo.py
"""
import sys

import numpy as np

from physt import h1
from physt.histogram1d import Histogram1D
from physt.histogram_nd import Histogram2D

failures = []


def check(label, observed, demanded):
    ok = bool(np.array_equal(np.asarray(observed, dtype=np.float64), np.asarray(demanded, dtype=np.float64)))
    print(f"  {label:<46} observed {observed!s:<28} demanded {demanded!s:<22} {'ok' if ok else 'VIOLATION'}")
    if not ok:
        failures.append(label)


# ---------------------------------------------------------------- 1D, float32
# All contents are exactly representable float32 numbers (plain counts).
print("1D histogram, dtype float32, contents [16777216, 1, 1, 1], merge_bins(2)")
h = Histogram1D([0, 1, 2, 3, 4], frequencies=np.array([2**24, 1, 1, 1], dtype=np.float32))
before = (h.total, h.frequencies.copy(), h.errors2.copy())
m = h.merge_bins(2)
print(f"  dtype before / after: {h.dtype} / {m.dtype}")
check("bins", m.bins.tolist(), [[0.0, 2.0], [2.0, 4.0]])
check("content of the merged bins", m.frequencies.tolist(), [2**24 + 1, 2])
check("errors2 of the merged bins", m.errors2.tolist(), [2**24 + 1, 2])
check("total (before: %r)" % before[0], m.total, before[0])

print("same histogram, merge_bins(4): the rounding can also invent entries")
m = h.merge_bins(4)
check("content of the single bin", m.frequencies.tolist(), [2**24 + 3])
check("total", m.total, before[0])

print("same histogram, merge_bins(min_frequency=2**25)  ('nothing is lost')")
m = h.merge_bins(min_frequency=2**25)
check("total", m.total, before[0])
check("sum of contents", float(np.sum(m.frequencies, dtype=np.float64)), 2**24 + 3)

# ---------------------------------------------------------------- 1D, float16: ordinary counts suffice
print("histogram made by the h1 facade, dtype=float16, 2048 + 3 values, merge_bins(2)")
data = np.concatenate([np.full(2048, 0.5), [1.5], [2.5], [3.5]])
h = h1(data, np.array([0.0, 1, 2, 3, 4]), dtype=np.float16)
print(f"  contents {h.frequencies.tolist()}  dtype {h.dtype}  total {h.total}")
m = h.merge_bins(2)
check("content of the merged bins", m.frequencies.tolist(), [2049, 2])
check("total", m.total, 2051.0)
m2 = h.copy()
m2.merge_bins(2, inplace=True)
check("in place: total", m2.total, 2051.0)

# ---------------------------------------------------------------- 2D: the library's own marginal is exact
print("2D histogram float32 [[16777216, 1], [1, 1]], merge_bins(2, axis=1) against projection(0)")
h = Histogram2D([[0, 1, 2], [0, 1, 2]], frequencies=np.array([[2**24, 1], [1, 1]], dtype=np.float32))
m = h.merge_bins(2, axis=1)
p = h.projection(0)
print(f"  projection(0) (sums the same bins): {p.frequencies.tolist()} dtype {p.dtype}")
check("merged contents along axis 1", m.frequencies[:, 0].tolist(), [2**24 + 1, 2])
check("total (before: %r)" % h.total, m.total, h.total)
m = h.merge_bins(2)  # all axes
check("all axes: the single bin", m.frequencies.tolist(), [[2**24 + 3]])

print()
if failures:
    print(f"{len(failures)} violation(s) of C10: merged content / squared error is not the run's sum, total changed")
    sys.exit(1)
print("no violation observed")
