"""C10: merge_bins crashes on an axis without bins (scope: "any bin count").

Run:  PYTHONPATH=/tmp/mut/R5C10/src /venv/bin/python demo.py
"""
import sys

import numpy as np

from physt import h1
from physt.binnings import FixedWidthBinning
from physt.histogram1d import Histogram1D
from physt.histogram_nd import Histogram2D

failures = []


def attempt(label, histogram, demanded_shape, **kwargs):
    """Zero bins hold zero runs: the statement demands a histogram with the merged shape and nothing lost."""
    try:
        merged = histogram.merge_bins(**kwargs)
    except Exception as exc:  # noqa: BLE001
        print(f"  {label:<44} observed {type(exc).__name__}: {exc}")
        print(f"  {'':<44} demanded a histogram of shape {demanded_shape}, total {histogram.total}, missed {histogram.missed}")
        failures.append(label)
        return
    ok = merged.shape == demanded_shape and merged.total == histogram.total and merged.missed == histogram.missed
    print(f"  {label:<44} observed shape {merged.shape}, total {merged.total}, missed {merged.missed}"
          f"   demanded shape {demanded_shape}  {'ok' if ok else 'VIOLATION'}")
    if not ok:
        failures.append(label)


print("the documented way to start an adaptive histogram: h1(None, 'fixed_width', bin_width=10, adaptive=True)")
h = h1(None, "fixed_width", bin_width=10, adaptive=True)
print(f"  shape {h.shape}, total {h.total}")
attempt("merge_bins(2)", h, (0,), amount=2)
attempt("merge_bins(1, axis=0, inplace=True)", h.copy(), (0,), amount=1, axis=0, inplace=True)
attempt("merge_bins(min_frequency=5)", h, (0,), min_frequency=5)

print("an empty selection of an ordinary histogram: Histogram1D([0,1,2,3], [1,2,3])[3:]")
s = Histogram1D(np.array([0.0, 1, 2, 3]), frequencies=[1, 2, 3])[3:]
print(f"  shape {s.shape}, total {s.total}, missed {s.missed}")
attempt("merge_bins(2)", s, (0,), amount=2)

print("2D histogram of shape (0, 3): a not yet filled adaptive axis x three ordinary bins")
g = Histogram2D([FixedWidthBinning(bin_width=1, adaptive=True), np.array([0.0, 1, 2, 3])])
print(f"  shape {g.shape}")
attempt("merge_bins(2, axis=1)   (works)", g, (0, 2), amount=2, axis=1)
attempt("merge_bins(2)           (every axis)", g, (0, 2), amount=2)
attempt("merge_bins(2, axis=0)", g, (0, 3), amount=2, axis=0)

print()
if failures:
    print(f"{len(failures)} call(s) inside the scope of C10 (any bin count, amount >= 1) died with an accidental error")
    sys.exit(1)
print("no violation observed")
