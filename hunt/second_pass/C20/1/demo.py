"""C20 - `image` plot of a 2D histogram with narrow irregular bins.

Statement: "2D maps and images draw one cell per bin at the bin's position".
The matplotlib `image` kind can only draw equally sized pixels, so it refuses
histograms with irregular bins (ValueError).  When all bins are narrower than
about 1e-8 (nanoseconds in seconds, nanometres in metres, ...), the refusal
does not happen and the irregular bins are silently drawn as equal pixels,
i.e. the cells are NOT at the bins' positions.
"""
import sys
import warnings

import matplotlib

matplotlib.use("Agg")
import numpy as np

from physt.types import Histogram2D

warnings.simplefilter("ignore")

BASE_X = np.array([0.0, 1.0, 3.0, 6.0])  # widths 1, 2, 3: clearly irregular
EDGES_Y = np.array([0.0, 1.0, 2.0])
CONTENT = np.array([[1, 2], [3, 4], [5, 6]])


def drawn_x_boundaries(ax):
    """x boundaries of the pixel columns that imshow really draws."""
    im = ax.images[0]
    left, right, _, _ = im.get_extent()
    n_columns = im.get_array().shape[1]
    return np.linspace(left, right, n_columns + 1)


failed = False
for scale, unit in [(1.0, "s"), (1e-9, "s (i.e. nanosecond bins)")]:
    edges_x = BASE_X * scale
    h = Histogram2D([edges_x, EDGES_Y], CONTENT.copy(), axis_names=("t", "y"))
    print(f"--- x edges {edges_x} {unit}; bin widths {h.get_bin_widths(0)}")

    # Reference: the `map` kind draws one rectangle per bin at the right place
    ax = h.plot("map", show_colorbar=False)
    rect_lefts = sorted({float(round(p.get_x() / scale, 9)) for p in ax.patches})
    print("  map  : rectangles start at x/scale =", rect_lefts, "(= left bin edges, correct)")

    try:
        ax = h.plot("image", show_colorbar=False)
    except ValueError as exc:
        print("  image: refused ->", exc, "(fine)")
        continue

    drawn = drawn_x_boundaries(ax)
    print("  image: ACCEPTED")
    print("     bin boundaries along x (demanded) / scale :", edges_x / scale)
    print("     pixel boundaries along x (drawn)  / scale :", drawn / scale)
    if not np.allclose(drawn, edges_x, rtol=1e-9, atol=0):
        print("     -> the cells are not at the bins' positions: e.g. bin 0 is "
              f"[{edges_x[0]/scale:g}, {edges_x[1]/scale:g}] but its pixel covers "
              f"[{drawn[0]/scale:g}, {drawn[1]/scale:g}]")
        failed = True

if failed:
    print("\nVIOLATION: `image` silently drew an irregularly binned histogram with equal-sized pixels.")
    sys.exit(1)
print("\nno violation observed")
