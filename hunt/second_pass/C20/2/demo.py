"""C20 - ASCII backend, `map` of a 2D histogram: the picture is transposed.

Statement: "2D maps and images draw one cell per bin at the bin's position with
a colour that is monotone in its value" (matplotlib, plotly and ASCII backends).

The ASCII map labels its frame unambiguously:
    - above / below the frame: "<right edge of axis 0> ->" and "<- <left edge of axis 0>",
      i.e. axis 0 runs horizontally from left to right,
    - right of the top / bottom row: "<last edge of axis 1> ^" and "<first edge of axis 1> v",
      i.e. axis 1 runs vertically from bottom to top.
Hence bin (i, j) has to be the cell in column i (from the left) and row j (from the
bottom), and the frame has to be shape[0] characters wide and shape[1] rows high.
"""
import io
import os
import re
import subprocess
import sys
from contextlib import redirect_stdout

import numpy as np

from physt.plotting import plot
from physt.types import Histogram2D

CHILD_FLAG = "--child"


def make_histogram():
    # 2 bins along x (axis 0), 4 bins along y (axis 1); only bin (x: 0..1, y: 30..40) is filled
    freq = np.zeros((2, 4), dtype=int)
    freq[0, 3] = 9
    return Histogram2D([np.array([0.0, 1.0, 2.0]), np.array([0.0, 10.0, 20.0, 30.0, 40.0])], freq,
                       axis_names=("x", "y"))


def draw():
    plot(make_histogram(), "map", backend="ascii")


if CHILD_FLAG in sys.argv:
    draw()
    sys.exit(0)


def frame_rows(text):
    """Lines of the picture between the two '+---+' frame lines."""
    lines = text.replace("\r", "").split("\n")
    borders = [k for k, line in enumerate(lines) if re.fullmatch(r"\+-*\+", line.strip())]
    return lines[borders[0]:borders[1] + 1], lines


h = make_histogram()
print("histogram: shape", h.shape, "= (bins along x, bins along y)")
print("           x edges", h.get_bin_edges(0), " y edges", h.get_bin_edges(1))
print("           the only non-empty bin: x in [0, 1] (LEFT), y in [30, 40] (TOP)\n")

buffer = io.StringIO()
with redirect_stdout(buffer):
    draw()
plain = buffer.getvalue()
print("ASCII map as printed (stdout is not a terminal here, so without colours):")
print(plain)

frame, all_lines = frame_rows(plain)
n_columns = len(frame[0].strip()) - 2
n_rows = len(frame) - 2
horizontal = [line for line in all_lines if "←" in line or "→" in line]
vertical = [line.split("|")[-1] for line in frame if "↑" in line or "↓" in line]
print("labels: horizontal labels:", [s.strip() for s in horizontal], "(edges of axis 0 = x)")
print("        vertical labels  :", [s.strip() for s in vertical], "(edges of axis 1 = y)")
print(f"demanded: {h.shape[0]} columns (x bins) and {h.shape[1]} rows (y bins)")
print(f"observed: {n_columns} columns and {n_rows} rows")
failed = (n_columns, n_rows) != (h.shape[0], h.shape[1])

# On a real terminal the cells are coloured: repeat on a pseudo-terminal to see which cell is the bright one
try:
    import pty

    master, slave = pty.openpty()
    env = dict(os.environ, TERM="xterm-256color", PYTHONIOENCODING="utf-8")
    proc = subprocess.Popen([sys.executable, os.path.abspath(__file__), CHILD_FLAG],
                            stdout=slave, stderr=subprocess.DEVNULL, env=env, close_fds=True)
    os.close(slave)
    chunks = []
    while True:
        try:
            data = os.read(master, 65536)
        except OSError:
            break
        if not data:
            break
        chunks.append(data)
    proc.wait()
    coloured = b"".join(chunks).decode("utf-8", "replace")
    frame, _ = frame_rows(re.sub(r"\x1b\[0m", "", coloured))
    grid = []
    for line in frame[1:-1]:
        codes = [int(c) for c in re.findall(r"\x1b\[38;5;(\d+)m\x1b\[48;5;\d+m█", line)]
        grid.append(codes)
    grid = np.array(grid)
    print("\non a (pseudo-)terminal, xterm colour codes of the cells, as laid out on screen (top row first):")
    print(grid)
    background = np.bincount(grid.ravel()).argmax()
    (row, col), = np.argwhere(grid != background)
    print(f"the filled bin is drawn in screen row {row} (0 = top) of {grid.shape[0]}, "
          f"column {col} (0 = left) of {grid.shape[1]}")
    print("demanded: top row (y in [30, 40] is the highest y bin), left column (x in [0, 1] is the lowest x bin)")
    if not (row == 0 and col == 0):
        failed = True
        print("-> the filled bin is shown at the BOTTOM RIGHT (largest x, smallest y) instead")
except Exception as exc:  # no pty available: the frame size above is evidence enough
    print("(colour check skipped:", repr(exc), ")")

if failed:
    print("\nVIOLATION: cells are not at the bins' positions - rows follow axis 0 and columns axis 1,"
          " although the frame labels axis 0 horizontally and axis 1 vertically.")
    sys.exit(1)
print("\nno violation observed")
