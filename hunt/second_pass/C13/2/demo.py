"""C13: the constructors cast the given contents / squared errors to the content type unchecked.

HistogramBase.__init__ does `np.array(errors2, dtype=self.dtype)` (and
`np.array(frequencies, dtype=dtype)` for an explicit dtype): fractional squared errors
next to integer frequencies are truncated to integers, squared errors that do not fit a
narrow integer type wrap around, and an explicitly requested integer dtype truncates
fractional contents - all silently.  The very same values assigned through the
`errors2` / `frequencies` setters, or requested through `set_dtype`, are promoted or refused.
"""
import sys
import warnings

import numpy as np

from physt.histogram1d import Histogram1D
from physt.histogram_nd import Histogram2D

warnings.simplefilter("ignore")
failures = []


def check(label, make, frequencies, errors2):
    """The histogram must hold exactly the given numbers (in whatever dtype) or refuse them."""
    print(label)
    try:
        histogram = make()
    except Exception as exc:
        print(f"   refused with {type(exc).__name__}: {exc}   (fine)")
        return
    got_f = histogram.frequencies.astype(float).tolist()
    got_e = histogram.errors2.astype(float).tolist()
    print(f"   given    : frequencies={frequencies}, errors2={errors2}")
    print(f"   observed : dtype={histogram.dtype}, frequencies={histogram.frequencies.tolist()}, "
          f"errors2={histogram.errors2.tolist()}")
    print("   demanded : the given values kept (dtype promoted so that it can hold them), or a refusal")
    if got_f != np.asarray(frequencies, dtype=float).tolist() or got_e != np.asarray(errors2, dtype=float).tolist():
        failures.append(label)
        print("   => VIOLATION: information silently lost at construction")


edges = [0.0, 1.0, 2.0]

# 1) integer contents with fractional squared errors (e.g. weighted events that add up to whole numbers)
check(
    "1) Histogram1D(edges, [1, 2], errors2=[0.25, 0.5])",
    lambda: Histogram1D(edges, [1, 2], errors2=[0.25, 0.5]),
    [1, 2], [0.25, 0.5],
)
check(
    "2) Histogram2D([edges, [0, 1]], [[1], [2]], errors2=[[0.25], [0.5]])",
    lambda: Histogram2D([edges, [0.0, 1.0]], [[1], [2]], errors2=[[0.25], [0.5]]),
    [[1], [2]], [[0.25], [0.5]],
)

# 3) int16 contents, squared errors (weights of 100 .. 265) that need a wider integer type
check(
    "3) Histogram1D(edges, int16 [100, 265], errors2=int64 [10000, 70225])",
    lambda: Histogram1D(edges, np.array([100, 265], dtype=np.int16), errors2=np.array([10000, 70225])),
    [100, 265], [10000, 70225],
)

# 4) explicit integer dtype with fractional contents: must be refused like set_dtype(int) /
#    like an integer histogram requested together with float weights
check(
    "4) Histogram1D(edges, [1.5, 2.5], dtype=np.int64)",
    lambda: Histogram1D(edges, [1.5, 2.5], dtype=np.int64),
    [1.5, 2.5], [1.5, 2.5],
)

# For comparison: the same values through the setter / set_dtype are handled as the statement says
h = Histogram1D(edges, [1, 2])
h.errors2 = [0.25, 0.5]
print(f"(for comparison) h.errors2 = [0.25, 0.5] on the int64 histogram -> dtype={h.dtype}, errors2={h.errors2.tolist()}")
h = Histogram1D(edges, [1.5, 2.5])
try:
    h.set_dtype(np.int64)
    print("(for comparison) set_dtype(int64) on contents [1.5, 2.5]: accepted")
except ValueError as exc:
    print(f"(for comparison) set_dtype(int64) on contents [1.5, 2.5] is refused: {exc}")

print()
if failures:
    print(f"{len(failures)} violation(s) of C13:")
    for item in failures:
        print("  -", item)
    sys.exit(1)
print("no violation observed")
