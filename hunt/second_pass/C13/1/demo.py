"""C13: counting into a histogram of a narrow integer content type wraps around silently.

fill_n() (1D and ND) adds the freshly counted batch to the stored contents with an
in-place `+=` in the histogram's own element type.  Once a bin of an int16 (or int32)
histogram passes the maximum of that type the count wraps around: the histogram
reports a *negative* number of entries, no exception, no change of dtype.
"""
import sys
import warnings

import numpy as np

from physt import h1, h2
from physt.histogram1d import Histogram1D

warnings.simplefilter("ignore")  # (no warning is issued by the array paths anyway)

failures = []


def report(label, histogram, expected_first_bin):
    freq = histogram.frequencies
    err2 = histogram.errors2
    first = int(np.ravel(freq)[0])
    first_err = int(np.ravel(err2)[0])
    print(f"{label}")
    print(f"   observed : dtype={histogram.dtype}, frequencies={freq.tolist()}, "
          f"errors2={err2.tolist()}, total={histogram.total}")
    print(f"   demanded : first bin == {expected_first_bin} (= its squared error) in an integer "
          f"type that can hold it, or the call refused with nothing changed")
    if first != expected_first_bin or first_err != expected_first_bin:
        failures.append(label)
        print("   => VIOLATION: entries were lost (wrap-around in the narrow type)")


def attempt(label, make, act, expected):
    histogram = make()
    before = histogram.frequencies.copy()
    try:
        act(histogram)
    except Exception as exc:  # a refusal is fine as long as nothing changed
        print(f"{label}\n   refused with {type(exc).__name__}: {exc}")
        if not np.array_equal(before, histogram.frequencies):
            failures.append(label + " (refused but changed)")
        return
    report(label, histogram, expected)


batch = np.full(30000, 0.5)

# 1) One-dimensional, int16, plain unweighted counting
attempt(
    "1D int16: h1(30000 values, dtype=int16) then fill_n(30000 more values in the same bin)",
    lambda: h1(batch, [0.0, 1.0, 2.0], dtype=np.int16),
    lambda h: h.fill_n(batch),
    60000,
)

# 2) Two-dimensional, int16
attempt(
    "2D int16: h2(30000 points, dtype=int16) then fill_n(30000 more points in the same cell)",
    lambda: h2(batch, batch, [[0.0, 1.0, 2.0], [0.0, 1.0, 2.0]], dtype=np.int16),
    lambda h: h.fill_n(np.full((30000, 2), 0.5)),
    60000,
)

# 3) int32: contents close to the maximum, a small batch on top
attempt(
    "1D int32: bin holding 2147483000 entries, fill_n(1000 values)",
    lambda: Histogram1D([0.0, 1.0, 2.0], [2147483000, 0], dtype=np.int32),
    lambda h: h.fill_n(np.full(1000, 0.5)),
    2147484000,
)

# 4) For comparison: the same count done at construction is refused (OverflowError),
#    and merging bins widens the type - only filling wraps around.
try:
    h1(np.full(60000, 0.5), [0.0, 1.0, 2.0], dtype=np.int16)
    print("construction of the same 60000 entries as int16: accepted")
except OverflowError as exc:
    print(f"(for comparison) constructing the 60000 entries as int16 at once is refused: {exc}")

print()
if failures:
    print(f"{len(failures)} violation(s) of C13:")
    for item in failures:
        print("  -", item)
    sys.exit(1)
print("no violation observed")
