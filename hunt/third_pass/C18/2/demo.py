"""C18 - scaling by an integer array (free arithmetics) raises half-way / squares in a narrow type.

With `config.free_arithmetics` on, a histogram may be multiplied / divided by any
array-like of matching shape.  `HistogramBase.__imul__` / `__itruediv__` first
assign the new bin contents and only then the new squared errors, which they
compute with `array**2` - in the element type of the array.  For an int16 / int32
array the squares wrap around (200**2 -> -25536 in int16, 50000**2 in int32):

* wrapped to a negative number, the second assignment raises
  "Cannot have negative square errors." - after the bin contents have been
  replaced (and, for a division, the histogram converted to float);
* wrapped to a positive number (300**2 -> 24464), the operation is accepted
  with wrong squared errors.

Statement: "An operation that raises ... leaves every recorded content per bin
interval, squared error and missed count at exactly the value it had (at most
the dtype may already have been promoted losslessly)" - for all histories of
public operations (the clause is not restricted to free arithmetics off).

Run:  PYTHONPATH=/tmp/mut/R9C18/src /venv/bin/python demo.py
"""
import sys
import warnings

import numpy as np

from physt import h1, h2
from physt.config import config

warnings.simplefilter("ignore")

failures = 0


def state(h):
    if h.ndim == 1:
        missed = [float(h.underflow), float(h.overflow), float(h.inner_missed)]
    else:
        missed = [float(h.missed)]
    return {
        "contents": h.frequencies.astype(float).tolist(),
        "errors2": h.errors2.astype(float).tolist(),
        "missed": missed,
    }


def check(title, h, operation, factor):
    """operation: '*=' or '/='"""
    global failures
    print(f"--- {title}: h {operation} {factor!r}")
    before = state(h)
    print(f"    before   : {before}  dtype {h.dtype}")
    try:
        with config.enable_free_arithmetics():
            if operation == "*=":
                h *= factor
            else:
                h /= factor
    except Exception as exc:  # noqa: BLE001
        after = state(h)
        print(f"    raised {type(exc).__name__}: {exc}")
        print(f"    demanded : {before}  (unchanged)")
        print(f"    observed : {after}  dtype {h.dtype}")
        if after != before:
            print("    VIOLATION: the operation raised, yet it replaced the bin contents (half-applied)")
            failures += 1
    else:
        after = state(h)
        wide = np.asarray(factor, dtype=float)
        if operation == "*=":
            expected = (np.asarray(before["errors2"]) * wide**2).tolist()
        else:
            expected = (np.asarray(before["errors2"]) / wide**2).tolist()
        print(f"    accepted : {after}  dtype {h.dtype}")
        if not np.allclose(after["errors2"], expected, rtol=1e-12):
            print(f"    VIOLATION: wrong squared errors, {expected} expected (true squares of the factors)")
            failures += 1


def make_1d():
    h = h1([0.5, 1.5, 1.6, 2.5], [0, 1, 2, 3])  # contents [1, 2, 1]
    h.fill(-1.0)  # underflow
    h.fill(7.0)  # overflow
    return h


check("1D, int16 factors", make_1d(), "*=", np.array([200, 1, 1], dtype=np.int16))
check("1D, int32 factors", make_1d(), "*=", np.array([50000, 1, 1], dtype=np.int32))
check("1D, int16 divisors", make_1d(), "/=", np.array([200, 1, 1], dtype=np.int16))
check(
    "2D, int16 factors",
    h2([0.5, 1.5, 1.5], [0.5, 0.5, 1.5], [[0, 1, 2], [0, 1, 2]]),
    "*=",
    np.array([[200, 1], [1, 1]], dtype=np.int16),
)
check("1D, int16 factors whose squares wrap to a positive number", make_1d(), "*=", np.array([300, 1, 1], dtype=np.int16))

print()
if failures:
    print(f"{failures} violation(s) of C18")
    sys.exit(1)
print("no violation observed")
