"""C18 - a subtraction of compact-integer histograms raises half-way.

`a -= b` of two int16 / int32 histograms with the same bins is a perfectly valid
request here (b holds less than a in every bin, free arithmetics is off).  The
squared errors of the difference, errors2(a) + errors2(b), are cast back to the
compact content type, wrap around to a negative number and make the *second* of
two assignments raise - after the bin contents have already been replaced.

Statement: "An operation that raises ... leaves every recorded content per bin
interval, squared error and missed count at exactly the value it had (at most
the dtype may already have been promoted losslessly)."

Run:  PYTHONPATH=/tmp/mut/R9C18/src /venv/bin/python demo.py
"""
import sys
import warnings

import numpy as np

from physt import h1
from physt.types import Histogram1D, Histogram2D

warnings.simplefilter("ignore")  # "Subtracting histograms is considered to be a bad idea."

failures = 0


def state(h):
    """Everything the statement speaks about, read through the public API."""
    if h.ndim == 1 and isinstance(h, Histogram1D):
        missed = [float(h.underflow), float(h.overflow), float(h.inner_missed)]
    else:
        missed = [float(h.missed)]
    bins = [np.asarray(b, dtype=float).tolist() for b in (h.bins if h.ndim > 1 else [h.bins])]
    return {
        "bins": bins,
        "contents": h.frequencies.astype(float).tolist(),
        "errors2": h.errors2.astype(float).tolist(),
        "missed": missed,
    }


def check(title, a, b):
    global failures
    print(f"--- {title}")
    print(f"    a: contents {a.frequencies.tolist()} errors2 {a.errors2.tolist()} dtype {a.dtype}")
    print(f"    b: contents {b.frequencies.tolist()} errors2 {b.errors2.tolist()} dtype {b.dtype}")
    before = state(a)
    try:
        a -= b
    except Exception as exc:  # noqa: BLE001
        after = state(a)
        print(f"    a -= b raised {type(exc).__name__}: {exc}")
        print(f"    demanded (a unchanged)     : contents {before['contents']} errors2 {before['errors2']}")
        print(f"    observed (a after the raise): contents {after['contents']} errors2 {after['errors2']}")
        if after != before:
            print("    VIOLATION: the operation raised, yet it replaced the bin contents (half-applied)")
            failures += 1
    else:
        after = state(a)
        print(f"    a -= b accepted: contents {after['contents']} errors2 {after['errors2']} dtype {a.dtype}")
        expected = (np.asarray(before["errors2"]) + b.errors2.astype(float)).tolist()
        if after["errors2"] != expected:
            print(f"    VIOLATION: wrong squared errors, {expected} expected")
            failures += 1


bins = [0.0, 1.0, 2.0]

# 1D, int16: 20000 entries minus 15000 entries in the same bin
a = h1(np.concatenate([np.full(20000, 0.5), np.full(5, 1.5)]), bins, dtype=np.int16)
b = h1(np.concatenate([np.full(15000, 0.5), np.full(1, 1.5)]), bins, dtype=np.int16)
check("Histogram1D, int16 (20000 - 15000 entries in the first bin)", a, b)

# 1D, int32 (numpy's default integer on Windows)
a = Histogram1D(bins, [2_000_000_000, 5], dtype=np.int32)
b = Histogram1D(bins, [500_000_000, 1], dtype=np.int32)
check("Histogram1D, int32 (2e9 - 5e8)", a, b)

# 2D, int16
a2 = Histogram2D([bins, bins], [[20000, 1], [2, 3]], dtype=np.int16)
b2 = Histogram2D([bins, bins], [[15000, 0], [1, 1]], dtype=np.int16)
check("Histogram2D, int16", a2, b2)

print()
if failures:
    print(f"{failures} violation(s) of C18: an operation that raised did change the histogram")
    sys.exit(1)
print("no violation observed")
