"""C05: a Histogram1D and a HistogramND with ONE axis over the same bins have the same dimension (1).

Their sum is accepted - but the missed weight of the ND operand is added to each of the three
counters of the 1D one (underflow, overflow, inner_missed), i.e. counted three times, and the
statistics of the 1D operand are passed on as if nothing had been added.
The statement demands h(A) + h(B) == h(A and B together) (or a refusal).
"""
import sys
import warnings

import numpy as np

import physt

warnings.simplefilter("ignore")
failures = []

EDGES = [0.0, 1.0, 2.0, 3.0]
A = np.array([-1.0, 0.5, 0.5, 1.5, 7.0])                       # 1 below, 1 above the bins
B = np.array([-3.0, -2.0, 1.5, 2.5, 2.5, 9.0, 9.0, 9.0])       # 2 below, 3 above the bins

a = physt.h1(A, EDGES)                                 # Histogram1D
b = physt.h(B.reshape(-1, 1), [EDGES])                 # HistogramND with a single axis (as numpy.histogramdd allows)
whole = physt.h1(np.concatenate([A, B]), EDGES)
print("a    :", type(a).__name__, "ndim", a.ndim, "contents", a.frequencies.tolist(), "missed", a.missed,
      "(underflow", a.underflow, "overflow", a.overflow, ")")
print("b    :", type(b).__name__, "ndim", b.ndim, "contents", b.frequencies.tolist(), "missed", b.missed)
print("whole:", "contents", whole.frequencies.tolist(), "missed", whole.missed,
      "(underflow", whole.underflow, "overflow", whole.overflow, ") weight", whole.statistics.weight,
      "mean", whole.statistics.mean())
print()

for label, make in (("a + b", lambda: a + b), ("b + a", lambda: b + a), ("sum([a, b])", lambda: sum([a, b]))):
    try:
        total = make()
    except (TypeError, ValueError) as exc:
        print(label, "refused:", exc, " (fine)")
        continue
    print(f"{label}: {type(total).__name__}, contents {total.frequencies.tolist()}, missed {total.missed}"
          f"   demanded: contents {whole.frequencies.tolist()}, missed {whole.missed} (= {a.missed} + {b.missed})")
    if total.frequencies.tolist() != whole.frequencies.tolist():
        failures.append(f"{label}: contents {total.frequencies.tolist()}")
    if total.missed != a.missed + b.missed:
        failures.append(f"{label}: missed weight {total.missed}, demanded {a.missed + b.missed} "
                        f"(the {b.missed} of the ND operand were counted three times)")
    if isinstance(total, physt.types.Histogram1D):
        print(f"        underflow {total.underflow}, overflow {total.overflow}, inner_missed {total.inner_missed}"
              f"   demanded: {whole.underflow}, {whole.overflow}, {whole.inner_missed} (or 'unknown')")
        stats = total.statistics
        print(f"        statistics: weight {stats.weight}, mean {stats.mean()}, min {stats.min}, max {stats.max}, median {stats.median}")
        print(f"        demanded  : weight {whole.statistics.weight}, mean {whole.statistics.mean()}, "
              f"min {whole.statistics.min}, max {whole.statistics.max} (or invalid / NaN, never those of a alone)")
        if not (np.isnan(stats.weight) or stats.weight == whole.statistics.weight):
            failures.append(f"{label}: statistics of the sum are those of the first operand alone "
                            f"(weight {stats.weight} for a total content + missed of {total.total + total.missed})")

# The operands themselves are untouched
assert a.missed == 2 and b.missed == 5

if failures:
    print("\nVIOLATIONS of C05:")
    for failure in failures:
        print(" -", failure)
    sys.exit(1)
print("\nOK")
