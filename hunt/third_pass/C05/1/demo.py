"""C05: a + b must add the underflow / overflow (missed) weights - also for int16 / int32 contents.

With a compact integer content type the missed counters of the sum silently wrap around
(the bin contents of the same sum are either right or refused, fill_n widens the type).
"""
import sys
import warnings

import numpy as np

import physt

warnings.simplefilter("ignore")
failures = []

EDGES = [0.0, 1.0, 2.0]
A = np.concatenate([np.full(20000, -1.0), [0.5]])        # 20000 values below the bins, 1 inside
B = np.concatenate([np.full(20000, -2.0), [1.5]])        # 20000 values below the bins, 1 inside

# ---- 1D ---------------------------------------------------------------------------------
a = physt.h1(A, EDGES, dtype=np.int16)
b = physt.h1(B, EDGES, dtype=np.int16)
before = (a.frequencies.copy(), a.underflow, b.frequencies.copy(), b.underflow)
print("a:", a, "underflow", a.underflow, "| b:", b, "underflow", b.underflow)

total = a + b
print("a + b      : dtype", total.dtype, "contents", total.frequencies.tolist(),
      "underflow", total.underflow, "missed", total.missed)
print("demanded   : contents [1, 1], underflow 40000 (= 20000 + 20000), in whatever type holds it")
if not (total.underflow == 40000 and total.missed == 40000):
    failures.append(f"1D: (a + b).underflow == {total.underflow}, demanded 40000")

four = sum([a, b, a, b])
print("sum([a, b, a, b]): underflow", four.underflow, " demanded 80000")
if four.underflow != 80000:
    failures.append(f"1D: sum([a, b, a, b]).underflow == {four.underflow}, demanded 80000 (wrong AND positive)")

# The same data in one go / in the library's own incremental way, for comparison
reference = physt.h1(A, EDGES, dtype=np.int16)
reference.fill_n(B)
print("h(A).fill_n(B): dtype", reference.dtype, "underflow", reference.underflow, "(fill_n widens the type)")
wide = physt.h1(A, EDGES, dtype=np.int32) + physt.h1(B, EDGES, dtype=np.int32)
print("same sum with int32 contents: underflow", wide.underflow)

# ---- ND ---------------------------------------------------------------------------------
a2 = physt.h(np.column_stack([A, A]), [EDGES, EDGES], dtype=np.int16)
b2 = physt.h(np.column_stack([B, B]), [EDGES, EDGES], dtype=np.int16)
total2 = a2 + b2
print("2D: a.missed", a2.missed, "b.missed", b2.missed, "(a + b).missed", total2.missed, " demanded 40000")
if total2.missed != 40000:
    failures.append(f"2D: (a + b).missed == {total2.missed}, demanded 40000")

# Operands untouched (they are - just to show that the wrong number is in the result only)
after = (a.frequencies, a.underflow, b.frequencies, b.underflow)
assert all(np.array_equal(x, y) for x, y in zip(before, after))

# ---- same root cause, in place: a refused `a += b` leaves `a` half added ----------------------
c = physt.h1(np.full(5000, 0.5), EDGES, weights=np.full(5000, 2), dtype=np.int16)
d = physt.h1(np.full(5000, 0.5), EDGES, weights=np.full(5000, 2), dtype=np.int16)
print("c: contents", c.frequencies.tolist(), "errors2", c.errors2.tolist())
try:
    c += d
    print("c += d accepted:", c.dtype, c.frequencies.tolist(), c.errors2.tolist())
    if not (c.frequencies[0] == 20000 and c.errors2[0] == 40000):
        failures.append("in place: wrong sum")
except ValueError as exc:
    print("c += d refused:", exc)
    print("   c afterwards: contents", c.frequencies.tolist(), "errors2", c.errors2.tolist(),
          " demanded: unchanged [10000, 0] / [20000, 0] (or the full sum in a wider type)")
    if c.frequencies[0] != 10000:
        failures.append(
            f"in place: refused `c += d` left c with contents {c.frequencies.tolist()} "
            f"but errors2 {c.errors2.tolist()}"
        )

if failures:
    print("\nVIOLATIONS of C05:")
    for failure in failures:
        print(" -", failure)
    sys.exit(1)
print("\nOK")
