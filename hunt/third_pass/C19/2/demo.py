"""C19: negative weight outside of the bins (underflow / overflow / missed) is accepted
while free arithmetics is DISABLED.

The library treats a negative underflow / overflow / missed weight as negative contents
in its arithmetic: with the option off, `a - b` is refused with "Cannot have negative
frequencies" when only the overflow would turn negative, and `h * -2` is refused even
when all bins are empty (because the missed weight would turn negative).
The very same state is accepted without any error, with the option off, when it is
handed over directly: constructor keywords, the property setters, `from_dict` and JSON.
"""
import sys
import warnings

import numpy as np

from physt import h1
from physt.config import config
from physt.histogram1d import Histogram1D
from physt.histogram_nd import Histogram2D, HistogramND
from physt.io import parse_json

warnings.simplefilter("ignore")
violations = []


def attempt(label, func):
    assert config.free_arithmetics is False, "probe must run with the option off"
    try:
        result = func()
    except (ValueError, TypeError) as exc:
        print(f"  refused   {label:44s} {type(exc).__name__}: {exc}")
        return
    if hasattr(result, "underflow"):   # 1D: three counters; ND: one (all public properties)
        missed = np.asarray([result.underflow, result.overflow, result.inner_missed], dtype=float)
    else:
        missed = np.asarray([result.missed], dtype=float)
    if np.any(missed < 0) or result.missed < 0:
        print(f"  ACCEPTED  {label:44s} missed={missed.tolist()} (h.missed={result.missed})"
              f"  <-- demanded: an error (free arithmetics is off)")
        violations.append(label)
    else:
        print(f"  ok        {label:44s} missed={missed.tolist()}")


assert config.free_arithmetics is False  # the default

print("Control - arithmetic refuses a negative weight outside of the bins (option off):")
a = h1([1, 3], bins=[0, 2, 4])                     # overflow 0
b = h1([1, 9], bins=[0, 2, 4])                     # overflow 1; bins of a - b would be [0, 1]
attempt("a - b  (only the overflow would be -1)", lambda: a - b)
empty = h1([7, 8, 9], bins=[0, 2, 4])              # bins [0, 0], overflow 3
attempt("empty_bins * -2 (only overflow negative)", lambda: empty * -2)

print("\nThe same state handed over directly (option off, must be refused as well):")
attempt("Histogram1D(bins, [1, 2], overflow=-1)",
        lambda: Histogram1D([0, 1, 2], [1, 2], overflow=-1))
attempt("Histogram1D(bins, [1, 2], underflow=-2.0)",
        lambda: Histogram1D([0, 1, 2], [1.0, 2.0], underflow=-2.0))
attempt("Histogram1D(bins, [1, 2], inner_missed=-3)",
        lambda: Histogram1D([[0, 1], [2, 3]], [1, 2], inner_missed=-3))
attempt("HistogramND(2 axes, missed=-3)",
        lambda: HistogramND([[0, 1, 2], [0, 1, 2]], [[1, 2], [3, 4]], missed=-3))
attempt("Histogram2D(..., missed=-0.5)",
        lambda: Histogram2D([[0, 1, 2], [0, 1, 2]], [[1.0, 2], [3, 4]], missed=-0.5))


def by_setter(name):
    h = h1([1, 2, 3], bins=[0, 2, 4])
    setattr(h, name, -4)
    return h


attempt("h.overflow = -4", lambda: by_setter("overflow"))
attempt("h.underflow = -4", lambda: by_setter("underflow"))
attempt("h.inner_missed = -4", lambda: by_setter("inner_missed"))

document = h1([1, 2, 3, 9], bins=[0, 2, 4]).to_dict()
document["missed"] = [-1, -2, -3]
attempt("Histogram1D.from_dict(missed=[-1,-2,-3])", lambda: Histogram1D.from_dict(document))
text = h1([1, 2, 3, 9], bins=[0, 2, 4]).to_json()
assert '"missed": [0, 1, 0]' in text
attempt("parse_json(... \"missed\": [0, -1, 0] ...)",
        lambda: parse_json(text.replace('"missed": [0, 1, 0]', '"missed": [0, -1, 0]')))

print("\nWith the option on, all of it is (rightly) accepted, e.g.:")
with config.enable_free_arithmetics():
    h = a - b
    print("  a - b ->", h.frequencies.tolist(), "overflow", h.overflow)

print()
if violations:
    print(f"VIOLATION: {len(violations)} entry points accepted negative underflow / overflow / "
          f"missed weight although free arithmetics was disabled: {violations}")
    sys.exit(1)
print("no violation observed")
