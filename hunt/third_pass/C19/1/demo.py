"""C19: negative contents are accepted while free arithmetics is DISABLED.

A histogram whose bins were made negative inside ``config.enable_free_arithmetics()``
is afterwards scaled (``*``, ``*=``, reflected ``*``, ``/``, ``/=``, ``normalize``) in a
context where the option is off - also in another thread that never enabled it.
The statement demands a refusal (error); the library silently stores the negative
contents (it bypasses the checked ``frequencies`` setter), whereas every other route
to the very same contents (setter, constructor, ``+``, slicing, ``from_dict``) refuses.
"""
import sys
import threading
import warnings

import numpy as np

from physt import h1
from physt.config import config
from physt.histogram1d import Histogram1D

warnings.simplefilter("ignore")

violations = []


def attempt(label, func):
    """Run `func` with free arithmetics off; negative contents must be refused."""
    assert config.free_arithmetics is False, "probe must run with the option off"
    try:
        result = func()
    except (ValueError, TypeError) as exc:
        print(f"  refused   {label:34s} {type(exc).__name__}: {exc}")
        return
    contents = np.asarray(result.frequencies)
    if np.any(contents < 0):
        print(f"  ACCEPTED  {label:34s} contents={contents.tolist()}  "
              f"<-- demanded: ValueError (free arithmetics is off)")
        violations.append(label)
    else:
        print(f"  ok        {label:34s} contents={contents.tolist()}")


assert config.free_arithmetics is False  # default (PHYST_FREE_ARITHMETICS not set to 1)
base = h1([1, 2, 3, 4, 5, 5.5], bins=[0, 2, 4, 6])            # contents [1, 2, 3]

with config.enable_free_arithmetics():
    neg = base * -1                                            # [-1, -2, -3], legitimate here
    mixed = base + [-5, 1, 1]                                  # [-4, 3, 4]
print("option after the with-block:", config.free_arithmetics, "(restored, as demanded)")
print("neg =", neg.frequencies.tolist(), " mixed =", mixed.frequencies.tolist())

print("\nControl - the same negative contents through other routes (all refused, correct):")
attempt("setter  h.frequencies = [-2,-4,-6]",
        lambda: setattr(base.copy(), "frequencies", [-2, -4, -6]) or base)
attempt("Histogram1D(bins, [-2,-4,-6])",
        lambda: Histogram1D(neg.binning, [-2, -4, -6]))
attempt("neg + empty histogram", lambda: neg + neg.copy(include_frequencies=False))
attempt("neg[0:2]", lambda: neg[0:2])
attempt("Histogram1D.from_dict(neg.to_dict())", lambda: Histogram1D.from_dict(neg.to_dict()))
attempt("base * -2", lambda: base * -2)

print("\nScaling with the option off (must be refused as well):")
attempt("neg * 2", lambda: neg * 2)
attempt("2 * neg", lambda: 2 * neg)
attempt("neg * np.float64(1.5)", lambda: neg * np.float64(1.5))
attempt("neg / 2", lambda: neg / 2)


def inplace_mul():
    h = neg.copy()
    h *= 3
    return h


def inplace_div():
    h = neg.copy()
    h /= 4
    return h


attempt("h = neg.copy(); h *= 3", inplace_mul)
attempt("h = neg.copy(); h /= 4", inplace_div)
attempt("mixed.normalize()", lambda: mixed.normalize())

print("\nSame thing in another thread, which never enabled the option:")


def worker():
    print("  option seen by the thread:", config.free_arithmetics)
    attempt("[thread] neg * 2", lambda: neg * 2)


thread = threading.Thread(target=worker)
thread.start()
thread.join()

print()
if violations:
    print(f"VIOLATION: {len(violations)} operations stored negative contents although free "
          f"arithmetics was disabled in the executing context: {violations}")
    sys.exit(1)
print("no violation observed")
