"""C11: a contiguous 1D slice must conserve total + underflow + overflow.

With float32 bin contents the contents that are cut off are summed in float32
(ndarray.sum() of a float32 array), so counts are lost although the exact result
is representable in float32 and although the histogram's own `total` is exact.
"""
import sys

import numpy as np

from physt.histogram1d import Histogram1D

contents = np.array([2**24, 1, 1, 5, 1, 1, 2**24], dtype=np.float32)
h = Histogram1D(np.arange(8.0), contents)          # 7 bins, contents float32
assert h.dtype == np.float32

s = h[3:4]                                          # non-empty contiguous slice

exact_under = float(np.sum(contents[:3], dtype=np.float64))   # 16777218 (a float32 number)
exact_over = float(np.sum(contents[4:], dtype=np.float64))    # 16777218
before = float(h.total) + float(h.underflow) + float(h.overflow)
after = float(s.total) + float(s.underflow) + float(s.overflow)

print("source contents          :", contents.tolist(), contents.dtype)
print("source total+under+over  :", before)
print("slice h[3:4] contents    :", s.frequencies.tolist())
print("slice underflow          :", float(s.underflow), "   statement demands", exact_under)
print("slice overflow           :", float(s.overflow), "   statement demands", exact_over)
print("slice total+under+over   :", after, "   statement demands", before)

# the same histogram with float64 contents behaves as demanded
h64 = Histogram1D(np.arange(8.0), contents.astype(np.float64))
s64 = h64[3:4]
print("(float64 contents: underflow", float(s64.underflow), "overflow", float(s64.overflow), ")")

bad = []
if float(s.underflow) != exact_under:
    bad.append(f"underflow {float(s.underflow)} != {exact_under}")
if float(s.overflow) != exact_over:
    bad.append(f"overflow {float(s.overflow)} != {exact_over}")
if after != before:
    bad.append(f"total+underflow+overflow not conserved: {before} -> {after}")
if bad:
    print("VIOLATION:", "; ".join(bad))
    sys.exit(1)
print("OK")
