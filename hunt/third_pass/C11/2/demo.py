"""C11: a selection must consist of exactly the correspondingly indexed bins.

Numpy-style binnings (the default of h2 / h3 / h with explicit edges or a bin count)
close their LAST bin on the right.  A per-axis slice that drops the last bin keeps
that flag, so the last *selected* bin - the half-open bin [1, 2) of the source -
silently becomes the closed bin [1, 2] in the selection: it now also owns x = 2.0,
which in the source belongs to the next bin [2, 3), a bin that was sliced away.
"""
import sys
import warnings

import numpy as np

from physt import h1, h2, h3

warnings.simplefilter("ignore")
bad = []

edges = np.arange(5.0)                      # bins [0,1) [1,2) [2,3) [3,4]
H = h2([0.5, 1.5, 2.5, 3.5], [0.5, 1.5, 2.5, 3.5], bins=[edges, edges], axis_names=["x", "y"])
print("source 2D: x bins", H.bins[0].tolist())
print("source 2D: find_bin((2.0, 1.5)) ->", H.find_bin([2.0, 1.5]), " i.e. x = 2.0 is in x-bin 2 = [2, 3), not in x-bin 1 = [1, 2)")

for label, S in [("H[0:2]", H[0:2]), ("H[:2, 1:3]", H[:2, 1:3]), ("H[:-2, :]", H[:-2, :]),
                 ("H.select(0, slice(0, 2))", H.select(0, slice(0, 2))),
                 ("H.select('x', slice(0, 2))", H.select("x", slice(0, 2)))]:
    closed = S.binnings[0].includes_right_edge
    found = S.find_bin([2.0, 1.5])
    total0, missed0 = S.total, float(S.missed)
    S.fill_n([[2.0, 1.5]])
    print(f"{label:32s}: x bins {S.bins[0].tolist()} last x bin right-closed: {closed} (demanded: False)")
    print(f"{'':32s}  find_bin((2.0, 1.5)) -> {found} (demanded: None, x = 2.0 lies outside [0,1) and [1,2))")
    print(f"{'':32s}  fill_n([(2.0, 1.5)]): total {total0} -> {S.total}, missed {missed0} -> {float(S.missed)}"
          f" (demanded: total unchanged, missed + 1)")
    if found is not None:
        bad.append(f"{label}: x = 2.0 is attributed to the selected x-bin {found[0]} = [1, 2)")
    if S.total != total0:
        bad.append(f"{label}: fill_n counts x = 2.0 in the selected bin [1, 2)")

# 3D, an integer index (axis dropped) mixed with slices
H3 = h3(np.array([[0.5, 0.5, 0.5], [1.5, 1.5, 1.5], [2.5, 2.5, 2.5], [3.5, 3.5, 3.5]]), bins=[edges, edges, edges])
S3 = H3[1, :, 0:2]
found = S3.find_bin([1.5, 2.0])
print("H3[1, :, 0:2]: last-axis bins", S3.bins[1].tolist(), "find_bin((1.5, 2.0)) ->", found, "(demanded: None)")
if found is not None:
    bad.append("H3[1, :, 0:2]: z = 2.0 is attributed to the selected bin [1, 2)")

# 1D selections carry the same wrong flag (visible in the binning and its dictionary / JSON form)
h = h1([0.5, 1.5, 2.5, 3.5], bins=edges)
for label, s in [("h[0:2]", h[0:2]), ("h[mask TTFF]", h[np.array([True, True, False, False])]),
                 ("h[array([0, 1])]", h[np.array([0, 1])])]:
    flag = s.binning.includes_right_edge
    print(f"1D {label:17s}: bins {s.bins.tolist()} binning.includes_right_edge = {flag}, "
          f"to_dict: {s.binning.to_dict()['includes_right_edge']} (demanded: False - [1, 2) is not the source's closed last bin)")
    if flag:
        bad.append(f"1D {label}: the half-open source bin [1, 2) is marked right-closed")

# control: selections that keep the source's last bin stay right-closed, rightly
K = H[2:]
assert K.binnings[0].includes_right_edge and K.find_bin([4.0, 1.5]) == (1, 1)

if bad:
    print("VIOLATION:")
    for b in bad:
        print("  -", b)
    sys.exit(1)
print("OK")
