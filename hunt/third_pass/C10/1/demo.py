"""C10 - merge_bins must keep the bin boundaries: a merged bin reaches from the run's
first left edge to its last right edge, the outer edges do not move.

With bin edges stored in extended precision (numpy.longdouble - physt keeps such edges
as they are: in the constructor, in the facade, in copy(), in slicing, in fill_n) merge_bins
silently rounds every edge to float64.  Only the public API is used.
"""
import sys

import numpy as np

from physt import h1
from physt.histogram1d import Histogram1D

LD = np.longdouble
if np.finfo(LD).eps >= np.finfo(np.float64).eps:
    print("numpy.longdouble is not wider than float64 on this platform: nothing to show")
    sys.exit(0)

failures = []


def check(label, observed, demanded):
    ok = bool(observed == demanded)
    print(f"  {label}\n      observed: {observed!r}\n      demanded: {demanded!r}   {'ok' if ok else '<-- VIOLATION'}")
    if not ok:
        failures.append(label)


# Five edges, consecutive bins of irregular widths.  The inner edges of the two runs
# (0.5 and 0.75) are float64 numbers, the edges that must survive the merge are not.
edges = np.array([LD(1) / 3, LD(0.5), LD(2) / 3, LD(0.75), LD(1) + LD(2) ** -60])
h = Histogram1D(edges, [1, 2, 3, 4])
print("original edge type:", h.bins.dtype, " bins:", h.bin_count, " total:", h.total)

print("\n(1) merge_bins(2): two runs of two bins")
m = h.merge_bins(2)
print("  contents:", m.frequencies.tolist(), "(sums 3 and 7: fine)")
check("left edge of the 1st new bin == first left edge of its run", m.bins[0, 0], h.bins[0, 0])
check("right edge of the 1st new bin == last right edge of its run", m.bins[0, 1], h.bins[1, 1])
check("right edge of the 2nd new bin == last right edge of its run (outer edge)", m.bins[1, 1], h.bins[3, 1])

# A consequence: a value below the first edge (the float64 neighbour of 1/3, which is
# smaller than the longdouble 1/3) is underflow for the original bins, but inside the
# first merged bin, although that bin is the union of bins that do not contain it.
v = np.array([np.float64(1) / 3], dtype=LD)
print("  v = float64(1/3) < first edge:", bool(v[0] < h.bins[0, 0]))
a = h.copy()
a.fill_n(v)
print("  original after fill_n([v]):  contents", a.frequencies.tolist(), "underflow", a.underflow)
b = m.copy()
b.fill_n(v)
print("  merged   after fill_n([v]):  contents", b.frequencies.tolist(), "underflow", b.underflow)
check("v is underflow for the merged histogram as it is for the original", (b.underflow, b.total), (a.underflow, a.total))

print("\n(2) merge_bins(1): nothing is merged, the binning must be the same")
m1 = h.merge_bins(1)
check("number of edges that moved", int(np.sum(m1.bins != h.bins)), 0)

print("\n(3) min_frequency=3: new bins are unions of old ones, outer edges unchanged")
try:
    m3 = h.merge_bins(min_frequency=3)
    print("  new bins:", m3.bins.tolist(), m3.frequencies.tolist())
    check("first outer edge", m3.bins[0, 0], h.bins[0, 0])
    check("last outer edge", m3.bins[-1, 1], h.bins[-1, 1])
except ValueError as exc:
    print("  refused:", exc)

print("\n(for information) the same rounding makes merge_bins see gaps in consecutive bins:")
d = np.linspace(0.34, 0.66, 50)
g = h1(d, "numpy", bin_count=4, range=(LD(1) / 3, LD(2) / 3))
print("  h1(..., range=(1/3, 2/3) in longdouble):", g.bins.dtype, "consecutive:", g.binning.is_consecutive())
try:
    g.merge_bins(2)
    print("  merge_bins(2) accepted")
except ValueError as exc:
    print("  merge_bins(2) refused:", exc)

if failures:
    print(f"\n{len(failures)} violation(s) of C10")
    sys.exit(1)
print("\nno violation")
