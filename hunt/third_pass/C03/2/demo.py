"""C03, last clause: with keep_missed off, values outside the bins change nothing at all.

fill() obeys it; fill_n() books the outside values into the statistics of the histogram
(and so do fill and fill_n disagree about one and the same value).
"""
import sys
import warnings

import numpy as np

from physt.binnings import StaticBinning
from physt.histogram1d import Histogram1D

warnings.simplefilter("ignore")

EDGES = np.array([0.0, 1.0, 2.0, 4.0])


def filled():
    histogram = Histogram1D(StaticBinning(EDGES.copy()), keep_missed=False)
    histogram.fill_n([0.5, 1.5])
    return histogram


def snapshot(h):
    s = h.statistics
    return {
        "frequencies": h.frequencies.tolist(),
        "errors2": h.errors2.tolist(),
        "missed": h.missed,
        "weight": float(s.weight),
        "sum": float(s.sum),
        "sum2": float(s.sum2),
        "min": float(s.min),
        "max": float(s.max),
        "mean": float(s.mean()),
        "std": float(s.std()),
    }


def differences(before, after):
    return {
        key: (before[key], after[key])
        for key in before
        if not np.array_equal(np.asarray(before[key], dtype=float), np.asarray(after[key], dtype=float), equal_nan=True)
    }


failures = []

reference = snapshot(filled())
print("histogram over [0, 1, 2, 4], keep_missed=False, holding 0.5 and 1.5:")
print("  ", reference)
print()

for label, outside in [("above the last bin", [100.0]), ("below the first bin", [-100.0]), ("both", [-7.0, 100.0])]:
    via_fill = filled()
    returned = [via_fill.fill(value) for value in outside]
    via_fill_n = filled()
    via_fill_n.fill_n(outside)
    via_weighted = filled()
    via_weighted.fill_n(outside, weights=[2.0] * len(outside))

    d_fill = differences(reference, snapshot(via_fill))
    d_fill_n = differences(reference, snapshot(via_fill_n))
    d_weighted = differences(reference, snapshot(via_weighted))
    print(f"values {outside} ({label}); the statement demands: nothing changes")
    print("   fill   returned", returned, " changed:", d_fill or "nothing")
    print("   fill_n            changed:", d_fill_n or "nothing")
    print("   fill_n (weights)  changed:", d_weighted or "nothing")
    if d_fill:
        failures.append(f"fill({outside}) changed {sorted(d_fill)}")
    if d_fill_n:
        failures.append(f"fill_n({outside}) changed {sorted(d_fill_n)}")
    if d_weighted:
        failures.append(f"fill_n({outside}, weights) changed {sorted(d_weighted)}")

if failures:
    print()
    for failure in failures:
        print("VIOLATION:", failure)
    sys.exit(1)
print("no violation")
