"""C03, first clause: fill / fill_n / construction must give identical underflow / overflow.

Bins with a gap ([0, 1) and [2, 3]); NO value of the data set lies in the gap.
"""
import sys
import warnings

import numpy as np

from physt import h1
from physt.binnings import StaticBinning
from physt.histogram1d import Histogram1D

warnings.simplefilter("ignore")

BINS = np.array([[0.0, 1.0], [2.0, 3.0]])
DATA = [-5.0, 0.5, 2.5, 2.5, 7.0, 8.0]  # 1 below, 1 + 2 in the bins, 2 above, none in the gap


def empty():
    return Histogram1D(StaticBinning(BINS.copy()))


def state(h):
    return (h.frequencies.tolist(), h.errors2.tolist(), float(h.underflow), float(h.overflow))


def same(a, b):
    return a[:2] == b[:2] and np.array_equal(a[2:], b[2:], equal_nan=True)


one_by_one = empty()
returned = [one_by_one.fill(value) for value in DATA]

batch = empty()
batch.fill_n(DATA)

chunks = empty()
chunks.fill_n(DATA[:3])
chunks.fill_n([])
chunks.fill_n(DATA[3:])

constructed = h1(DATA, StaticBinning(BINS.copy()))

print("indices returned by fill      :", returned, "(expected [-1, 0, 1, 1, 2, 2]: no gap was hit)")
print("expected (contents, errors2, underflow, overflow): ([1, 2], [1, 2], 1.0, 2.0)")
print("fill, one value at a time      :", state(one_by_one))
print("fill_n, all at once            :", state(batch))
print("fill_n, three chunks           :", state(chunks))
print("h1(data, bins)                 :", state(constructed))

failures = []
reference = state(one_by_one)
for label, histogram in [("fill_n", batch), ("fill_n in chunks", chunks), ("h1", constructed)]:
    if not same(reference, state(histogram)):
        failures.append(f"{label} differs from fill: {state(histogram)} != {reference}")

# The smallest case: ONE value that lies in a bin, entered by fill or by fill_n
a = empty()
a.fill(-5.0)
a.fill(0.5)
b = empty()
b.fill(-5.0)
b.fill_n([0.5])
print()
print("fill(-5); fill(0.5)     -> underflow", float(a.underflow), " missed", a.missed)
print("fill(-5); fill_n([0.5]) -> underflow", float(b.underflow), " missed", b.missed,
      "(the statement demands the same: 1.0)")
if not same(state(a), state(b)):
    failures.append(f"fill(0.5) and fill_n([0.5]) leave different histograms: {state(a)} != {state(b)}")

if failures:
    print()
    for failure in failures:
        print("VIOLATION:", failure)
    sys.exit(1)
print("no violation")
