"""C14: after the bin contents are replaced through the public `frequencies` setter
(an operation that cannot maintain the statistics) `h.statistics` keeps reporting the
moments of the values entered before, as valid looking numbers, instead of NaN.

Run:  PYTHONPATH=/tmp/mut/R9C14/src /venv/bin/python demo.py
"""
import math
import sys
import warnings

import numpy as np

from physt import h1

warnings.simplefilter("ignore")
failures = []


def show(label, h, failed):
    s = h.statistics
    print(f"{label}")
    print(f"    contents = {h.frequencies.tolist()}  total = {h.total}")
    print(
        f"    statistics: weight={float(s.weight)!r} sum={float(s.sum)!r} sum2={float(s.sum2)!r} "
        f"min={s.min!r} max={s.max!r} mean()={float(s.mean())!r} std()={float(s.std())!r} median={float(s.median)!r}"
    )
    print(f"    {'<-- WRONG NUMBERS (demanded: NaN)' if failed else 'ok'}")
    if failed:
        failures.append(label)


def all_invalid(h):
    s = h.statistics
    return all(
        math.isnan(float(x))
        for x in (s.weight, s.sum, s.sum2, s.min, s.max, s.mean(), s.variance(), s.std(), s.median)
    )


values = [0.5, 1.5, 1.6]  # all within the bins
bins = [0.0, 1.0, 2.0]

# Reference behaviour for contents that do not come from entered values: NaN
from physt.histogram1d import Histogram1D

show("Histogram1D(bins, [10, 20])  (bare frequencies)", Histogram1D(bins, [10, 20]), not all_invalid(Histogram1D(bins, [10, 20])))

# 1. New contents assigned: 30 entries, 10 of them below 1 - nothing to do with `values` any more
h = h1(values, bins)
h.frequencies = [10, 20]
show("h = h1([0.5, 1.5, 1.6], bins); h.frequencies = [10, 20]", h, not all_invalid(h))

# 2. Array arithmetic on the contents
h = h1(values, bins)
h.frequencies = h.frequencies * np.array([5, 0])  # only the bin [0, 1) is left: mean must be < 1 if known
show("h.frequencies = h.frequencies * [5, 0]", h, not all_invalid(h))

h = h1(values, bins)
h.frequencies *= 2  # total weight 6, the statistics still say 3
show("h.frequencies *= 2", h, not all_invalid(h))

# 3. ...and the stale numbers travel on: sums, copies and scalings look valid too
h = h1(values, bins)
h.frequencies = [10, 20]
total = h + h1([0.25], bins)
show("(h after the assignment) + h1([0.25], bins)", total, not all_invalid(total))

if failures:
    print(f"\nVIOLATION: statistics read as valid but wrong numbers in {len(failures)} cases")
    sys.exit(1)
print("\nno violation observed")
