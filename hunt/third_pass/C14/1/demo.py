"""C14: variance() / std() are not the population moments of the raw data when the
values are large compared to their spread (e.g. UNIX time stamps within two minutes).

Run:  PYTHONPATH=/tmp/mut/R9C14/src /venv/bin/python demo.py
"""
import sys
import warnings

import numpy as np

from physt import h1

warnings.simplefilter("ignore")

BASE = 1_700_000_000  # a UNIX time stamp (seconds); every value below is an exact float64
offsets = np.arange(100)
values = (BASE + offsets).astype(float)
assert all(int(v) == BASE + k for v, k in zip(values, offsets))  # nothing is rounded on input

# Exact population variance (integer arithmetic; variance does not depend on BASE)
n = len(offsets)
true_var = (n * int((offsets**2).sum()) - int(offsets.sum()) ** 2) / n**2  # 833.25
true_std = true_var**0.5
bins = np.linspace(BASE - 0.5, BASE + 99.5, 11)  # all values lie within the bins

failures = []


def report(label, h, scale_note=""):
    s = h.statistics
    assert h.underflow == 0 and h.overflow == 0 and h.total > 0
    var, std = float(s.variance()), float(s.std())
    bad = not (abs(var - true_var) <= 1e-6 * true_var)
    print(
        f"{label:<44} variance() = {var!r:>10}  std() = {std:.6f}"
        f"   demanded: {true_var} / {true_std:.6f}   {'<-- WRONG' if bad else 'ok'}"
    )
    if bad:
        failures.append(label)


# 1. construction
h = h1(values, bins)
report("h1(values, bins)", h)
report("h1(values, bins, weights=2,2,...)", h1(values, bins, weights=np.full(n, 2.0)))

# 2. fill, one value at a time
g = h1(None, bins)
for v in values:
    g.fill(v)
report("fill() x 100", g)

# 3. fill_n in different chunkings (the result even depends on the chunking)
for chunks in (1, 7, 10):
    g = h1(None, bins)
    for part in np.array_split(values, chunks):
        g.fill_n(part)
    report(f"fill_n in {chunks} chunk(s)", g)

# 4. sum of partial histograms, copy, positive rescaling
parts = [h1(part, bins) for part in np.array_split(values, 4)]
report("sum of 4 partial histograms", sum(parts))
report("copy()", h.copy())
report("h * 3.0", h * 3.0)
report("normalize()", h.normalize())

# 5. the same data moved to the origin: the variance must be (and is) the same
report("control: same data minus 1.7e9", h1(values - BASE, bins - BASE))

# 6. three different values reported as having no spread at all
tiny = h1(np.array([1e9, 1e9 + 1, 1e9 + 2]), 3)
v = float(tiny.statistics.variance())
print(f"h1([1e9, 1e9+1, 1e9+2]).statistics.variance() = {v!r}   demanded: {2/3!r}")
if abs(v - 2 / 3) > 1e-6:
    failures.append("three values")

failures = [f for f in failures if not f.startswith("control")]
if failures:
    print(f"\nVIOLATION: variance()/std() are silently wrong numbers in {len(failures)} cases: {failures}")
    sys.exit(1)
print("\nno violation observed")
