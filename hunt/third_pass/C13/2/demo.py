"""C13: subtraction of histograms with a compact integer content type (int16 / int32).

`a + b` widens the content type when the sums do not fit (int16 + int16 -> int64 here).
`a - b` adds the squared errors as well, but casts them back to the compact type:
they wrap around to a negative number, which is then refused with a misleading message -
and `a -= b` has replaced the bin contents of `a` by then, so the operand is left
half-subtracted (new contents, old errors / missed / statistics).

Run: PYTHONPATH=/tmp/mut/R9C13/src /venv/bin/python demo.py
"""
import sys
import warnings

import numpy as np

import physt
from physt.types import Histogram1D
from physt.config import config

warnings.simplefilter("ignore")
violations = []


def show(label, h):
    print(
        f"    {label}: dtype={h.dtype} frequencies={h.frequencies.tolist()} "
        f"errors2={h.errors2.tolist()} underflow={h.underflow} statistics.weight={h.statistics.weight}"
    )


for dtype, n_a, n_b in ((np.int16, 20000, 18000), (np.int32, 1_200_000_000, 1_100_000_000)):
    print(f"=== {np.dtype(dtype)}")
    if dtype is np.int16:
        # ordinary unweighted counting in a compact type
        a = physt.h1(np.r_[np.full(n_a, 0.5), np.full(3, 1.5), [-1.0] * 2], [0, 1, 2], dtype=dtype)
        b = physt.h1(np.r_[np.full(n_b, 0.5), np.full(1, 1.5), [-1.0] * 1], [0, 1, 2], dtype=dtype)
    else:
        a = Histogram1D([0, 1, 2], [n_a, 3], dtype=dtype, underflow=2)
        b = Histogram1D([0, 1, 2], [n_b, 1], dtype=dtype, underflow=1)
    show("a      ", a)
    show("b      ", b)
    s = a + b
    show("a + b  ", s)
    print("    (addition: the type is widened, contents and errors exact - as demanded)")

    expected_f = [n_a - n_b, 2]
    expected_e = [n_a + n_b, 4]
    print(f"    statement for a - b: frequencies={expected_f} errors2={expected_e} "
          "(numpy promotion, nothing lost), operands untouched")
    try:
        d = a - b
        show("a - b  ", d)
        if d.frequencies.tolist() != expected_f or d.errors2.tolist() != expected_e:
            print("    observed : wrong result -> VIOLATION")
            violations.append(f"{np.dtype(dtype)} a - b wrong")
    except Exception as exc:  # noqa: BLE001
        print(f"    observed : a - b raises {type(exc).__name__}: {exc}")

    # In place: the operand must either hold the difference or be untouched
    c = a.copy()
    before = (c.frequencies.tolist(), c.errors2.tolist(), c.underflow.item())
    try:
        c -= b
        show("a -= b ", c)
        if c.frequencies.tolist() != expected_f or c.errors2.tolist() != expected_e:
            violations.append(f"{np.dtype(dtype)} a -= b wrong")
    except Exception as exc:  # noqa: BLE001
        print(f"    observed : a -= b raises {type(exc).__name__}: {exc}")
        show("a after", c)
        after = (c.frequencies.tolist(), c.errors2.tolist(), c.underflow.item())
        if after != before:
            print(
                "    observed : the refused operation has MODIFIED its operand: contents "
                f"{before[0]} -> {after[0]}, but errors2 {after[1]} and underflow {after[2]} "
                "(and the statistics) are the old ones  -> VIOLATION (inconsistent state)"
            )
            violations.append(f"{np.dtype(dtype)} a -= b half-applied")

    # The result the library itself produces on its other subtraction path
    with config.enable_free_arithmetics():
        d = a - b
    show("a - b (free arithmetics)", d)

if violations:
    print(f"\n{len(violations)} violation(s) of C13: {violations}")
    sys.exit(1)
print("\nno violation")
