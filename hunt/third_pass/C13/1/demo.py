"""C13: an explicit change to a narrower / integer dtype is accepted although the
weight recorded in the underflow / overflow / missed counters does not fit the new
type (or is not integral): the counters silently wrap around or are truncated.

Run: PYTHONPATH=/tmp/mut/R9C13/src /venv/bin/python demo.py
"""
import sys
import warnings

import numpy as np

import physt

warnings.simplefilter("ignore")
violations = []


def report(label, accepted, before, after, lost):
    print(f"--- {label}")
    print(f"    before : {before}")
    print(f"    after  : {after}")
    print(
        "    statement: the change must be refused and nothing may change "
        "(a recorded weight does not fit / is not integral)"
    )
    if accepted and lost:
        print("    observed : ACCEPTED, recorded weight silently changed  -> VIOLATION")
        violations.append(label)
    elif accepted:
        print("    observed : accepted, nothing lost")
    else:
        print("    observed : refused (ok)")


def snapshot(h):
    if h.ndim == 1:
        return (
            f"dtype={h.dtype} frequencies={h.frequencies.tolist()} errors2={h.errors2.tolist()} "
            f"underflow={h.underflow} overflow={h.overflow} total+missed={h.total + h.missed}"
        )
    return (
        f"dtype={h.dtype} frequencies={h.frequencies.tolist()} missed={h.missed} "
        f"total+missed={h.total + h.missed}"
    )


# 1) unweighted counting, 40000 values below the first bin; int64 -> int16
data = np.concatenate([np.full(40000, -5.0), [0.5, 1.5]])
h = physt.h1(data, [0, 1, 2])
before, weight_before = snapshot(h), h.total + h.missed
try:
    h.dtype = np.int16
    accepted = True
except ValueError as exc:
    accepted = False
    print("refused:", exc)
report(
    "h1, 40000 entries in underflow, h.dtype = int16",
    accepted, before, snapshot(h), h.total + h.missed != weight_before,
)

# 2) the same in two dimensions (single `missed` counter), via set_dtype()
h = physt.h2(data, data, [[0, 1, 2], [0, 1, 2]])
before, weight_before = snapshot(h), h.total + h.missed
try:
    h.set_dtype(np.int16)
    accepted = True
except ValueError as exc:
    accepted = False
    print("refused:", exc)
report(
    "h2, 40000 entries missed, h.set_dtype(int16)",
    accepted, before, snapshot(h), h.total + h.missed != weight_before,
)

# 3) float weights: bin contents and squared errors are integral, the underflow (0.5) is not
h = physt.h1([0.5, 1.5, -3.0], [0, 1, 2], weights=[1.0, 2.0, 0.5])
before, weight_before = snapshot(h), h.total + h.missed
try:
    h.dtype = np.int64
    accepted = True
except ValueError as exc:
    accepted = False
    print("refused:", exc)
report(
    "h1 with float weights, underflow weight 0.5, h.dtype = int64",
    accepted, before, snapshot(h), h.total + h.missed != weight_before,
)

# For comparison: the same weight in a *bin* is refused, as the statement demands
h = physt.h1(np.concatenate([np.full(40000, 0.5), [1.5]]), [0, 1, 2])
try:
    h.dtype = np.int16
    print("--- control: 40000 in a bin -> int16 accepted (unexpected)")
except ValueError as exc:
    print(f"--- control: 40000 in a bin -> int16 refused as demanded ({exc})")

if violations:
    print(f"\n{len(violations)} violation(s) of C13")
    sys.exit(1)
print("\nno violation")
