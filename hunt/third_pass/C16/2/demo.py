"""C16: measures of narrow polar-angle bins / thin shells are lost to cancellation.

SphericalSurfaceHistogram / SphericalHistogram form the theta factor of the bin
measure as  cos(th1) - cos(th2)  and the radial factor as  r2**3 - r1**3  (polar,
radial, cylindrical: r2**2 - r1**2).  For a narrow theta bin next to a pole both
cosines are 1 - O(th**2) and the difference keeps few or no digits: the measure
of [0, 1e-8] is exactly 0.0 (true: 5e-17 * dphi), so a filled bin gets an infinite
density and densities * true measure != frequencies; [0, 1e-6] or [pi-1e-6, pi]
are off by 1e-4.  (All of it in float64, with edges that are perfectly ordinary
doubles; the reference below is exact rational arithmetic.)
"""
import sys
import warnings
from fractions import Fraction

import numpy as np

import physt
from physt.special_histograms import (
    RadialHistogram,
    SphericalHistogram,
    SphericalSurfaceHistogram,
)

warnings.simplefilter("ignore")
failures = []

PI = Fraction(
    "3.14159265358979323846264338327950288419716939937510582097494459230781640628620899"
)


def cos_exact(x: Fraction) -> Fraction:
    """cos by its Taylor series in rational arithmetic (|x| <= 4: error < 1e-60)."""
    term, total, x2 = Fraction(1), Fraction(1), x * x
    for k in range(1, 60):
        term = -term * x2 / ((2 * k - 1) * (2 * k))
        total += term
    return total


def report(label, observed, demanded, rtol=1e-9):
    observed = np.asarray(observed, dtype=float)
    demanded = np.asarray(demanded, dtype=float)
    with np.errstate(all="ignore"):
        ok = observed.shape == demanded.shape and np.allclose(
            observed, demanded, rtol=rtol, atol=0
        )
        rel = np.max(np.abs(observed - demanded) / np.abs(demanded))
    print(
        f"{label}\n   observed: {observed}\n   demanded: {demanded}\n"
        f"   max. relative deviation: {rel:.3g}  {'ok' if ok else 'VIOLATION'}"
    )
    if not ok:
        failures.append(label)


# ------------------------------------------------------------------ polar caps
theta = np.array([0.0, 1e-8, 1e-6, 1e-4, 1e-2, 1.0, np.pi - 1e-6, np.pi])
phi = np.array([0.0, 2.0, 2 * np.pi])
th = [Fraction(float(t)) for t in theta]  # the doubles, exactly
ph = [Fraction(float(p)) for p in phi]
true_sizes = np.array(
    [
        [float((cos_exact(th[i]) - cos_exact(th[i + 1])) * (ph[j + 1] - ph[j])) for j in range(2)]
        for i in range(len(th) - 1)
    ]
)

# One point per theta bin (in the middle of it), at phi = 1
mid = (theta[:-1] + theta[1:]) / 2
points = np.stack([np.sin(mid) * np.cos(1.0), np.sin(mid) * np.sin(1.0), np.cos(mid)], axis=1)
h = physt.spherical_surface(points, theta_bins=theta, phi_bins=phi)
print("frequencies (phi bin 0):", h.frequencies[:, 0], " total:", h.total)

report("SphericalSurfaceHistogram.bin_sizes == (cos th1 - cos th2) * dphi", h.bin_sizes, true_sizes)
report(
    "densities * true measure == frequencies   (phi bin 0)",
    (h.densities * true_sizes)[:, 0],
    h.frequencies[:, 0],
)
report("   (the whole sphere is fine) total_size == 4*pi", h.total_size, 4 * np.pi)

# additivity: merging the two polar-most bins
merged = h.merge_bins(2, axis=0)
report(
    "measure of the merged cap [0, 1e-6] == true measure of [0, 1e-8] + [1e-8, 1e-6]",
    merged.bin_sizes[0],
    true_sizes[0] + true_sizes[1],
)

# the same factor in the 3D histogram
s = SphericalHistogram([[0.0, 1.0, 2.0], theta, phi])
r3 = np.array([1.0, 7.0]) / 3
report(
    "SphericalHistogram.bin_sizes == (r2^3-r1^3)/3 * (cos th1 - cos th2) * dphi",
    s.bin_sizes,
    r3[:, None, None] * true_sizes[None, :, :],
)

# ------------------------------------------------------------------ thin shells
# Earth's radius in metres, shells of 1 mm .. 1 m
r = np.array([6371000.0, 6371000.001, 6371000.01, 6371000.1, 6371001.0])
rf = [Fraction(float(x)) for x in r]
true_ring = [float(PI * (rf[i + 1] ** 2 - rf[i] ** 2)) for i in range(4)]
true_shell = [float(Fraction(4, 3) * PI * (rf[i + 1] ** 3 - rf[i] ** 3)) for i in range(4)]
report("RadialHistogram.bin_sizes == pi*(r2^2-r1^2)", RadialHistogram(r).bin_sizes, true_ring)
s = SphericalHistogram([r, [0.0, 1.0, np.pi], [0.0, 2.0, 2 * np.pi]])
report(
    "SphericalHistogram: measure of each shell (full angular range) == 4/3*pi*(r2^3-r1^3)",
    s.bin_sizes.sum(axis=(1, 2)),
    true_shell,
)

print()
if failures:
    print(f"{len(failures)} checks violated")
    sys.exit(1)
print("all fine")
