"""C16: bin geometry is computed in the (narrow) floating-point type of the bin edges.

Bin edges given as a float32 (or float16) array are kept in that type, and
centres, widths and the polar / radial / spherical / cylindrical measures are then
formed in float32 / float16 arithmetic: r2**2 - r1**2 loses most of its digits
(or overflows to inf), l + r overflows, and densities * true measure != frequencies.
The very same bins given as float64 (or even as integers) are handled correctly.
"""
import sys
import warnings

import numpy as np

from physt.histogram1d import Histogram1D
from physt.special_histograms import (
    PolarHistogram,
    RadialHistogram,
    SphericalHistogram,
)

warnings.simplefilter("ignore")
failures = []


def report(label, observed, demanded, rtol=1e-9):
    observed = np.asarray(observed, dtype=float)
    demanded = np.asarray(demanded, dtype=float)
    with np.errstate(all="ignore"):
        ok = observed.shape == demanded.shape and np.allclose(
            observed, demanded, rtol=rtol, atol=0
        )
        rel = np.max(np.abs(observed - demanded) / np.abs(demanded))
    print(f"{label}\n   observed: {observed}\n   demanded: {demanded}\n   max. relative deviation: {rel:.3g}  {'ok' if ok else 'VIOLATION'}")
    if not ok:
        failures.append(label)


# ---------------------------------------------------------------- float32 edges
# A ring 1000 mm from the axis, 0.1 mm bins.
r32 = np.array([1000.0, 1000.1, 1000.2, 1000.3, 1000.4], dtype=np.float32)
r64 = r32.astype(np.float64)  # the same numbers
phi = np.array([0.0, 1.0, 2.5, 2 * np.pi])
contents = np.array([10.0, 20.0, 30.0, 40.0])

true_ring = np.pi * (r64[1:] - r64[:-1]) * (r64[1:] + r64[:-1])  # pi*(r2^2-r1^2)

h32 = RadialHistogram(r32, contents)
# (the facades keep the type of the edges too)
import physt
_f = physt.radial([1000.05, 1000.15], [0.0, 0.0], bins=r32)
print("physt.radial(..., bins=float32 array) keeps float32 edges:", _f.bins.dtype, "; bin_sizes dtype:", _f.bin_sizes.dtype)
h64 = RadialHistogram(r64, contents)
print("edges are the same numbers:", np.array_equal(h32.bins, h64.bins))
report("RadialHistogram(float64 edges).bin_sizes", h64.bin_sizes, true_ring)
report("RadialHistogram(float32 edges).bin_sizes", h32.bin_sizes, true_ring)
report(
    "RadialHistogram(float32 edges).densities * true measure == frequencies",
    h32.densities * true_ring,
    contents,
)

# additivity: the measure of merged bins is the sum of the measures of the parts
merged = h32.merge_bins(2)
report(
    "float32 edges: bin_sizes summed pairwise vs. bin_sizes of merge_bins(2)",
    h32.bin_sizes.reshape(2, 2).sum(axis=1),
    merged.bin_sizes,
)

p32 = PolarHistogram([r32, phi], np.ones((4, 3)))
true_polar = np.outer(true_ring / (2 * np.pi), np.diff(phi))
report("PolarHistogram(float32 r edges).bin_sizes", p32.bin_sizes, true_polar)
report("PolarHistogram(float32 r edges).total_size", p32.total_size, true_polar.sum())

s32 = SphericalHistogram([r32, np.array([0.0, 1.0, np.pi]), phi], np.ones((4, 2, 3)))
true_shell = 4 / 3 * np.pi * (r64[1:] - r64[:-1]) * (
    r64[1:] ** 2 + r64[1:] * r64[:-1] + r64[:-1] ** 2
)
report(
    "SphericalHistogram(float32 r edges): measure of each shell (full angular range)",
    s32.bin_sizes.sum(axis=(1, 2)),
    true_shell,
)

# ---------------------------------------------------------------- float16 edges
r16 = np.array([0, 100, 300], dtype=np.float16)  # exact in float16
h16 = RadialHistogram(r16, [5, 7])
report(
    "RadialHistogram(float16 edges [0, 100, 300]).bin_sizes",
    h16.bin_sizes,
    np.pi * np.array([100.0**2, 300.0**2 - 100.0**2]),
)
report("   ... its densities * true measure", h16.densities * np.pi * np.array([1e4, 8e4]), [5, 7])

e16 = np.array([30000, 40000, 50016], dtype=np.float16)  # exact in float16
g16 = Histogram1D(e16, [1, 2])
e64 = e16.astype(np.float64)
report("Histogram1D(float16 edges [30000, 40000, 50016]).bin_centers", g16.bin_centers, (e64[:-1] + e64[1:]) / 2)

f16 = np.array([3000, 3002, 3004], dtype=np.float16)  # exact in float16
k16 = Histogram1D(f16, [1, 2])
report("Histogram1D(float16 edges [3000, 3002, 3004]).bin_centers (not even inside their bins)", k16.bin_centers, [3001, 3003], rtol=1e-6)

print()
if failures:
    print(f"{len(failures)} checks violated")
    sys.exit(1)
print("all fine")
