"""C09: a projection must equal the histogram built directly from the kept column(s)
whenever no row missed the bins of the DROPPED axes.

It does not when a value of a KEPT column lies exactly on the last edge of a
right-open binning (includes_right_edge == False, e.g. every fixed-width binning):
the N-dimensional histogram leaves that row out, the one-dimensional histogram
built from the very same column and the very same binning counts it in its last bin.
"""
import sys
import warnings

import numpy as np

import physt
from physt.binnings import FixedWidthBinning

warnings.simplefilter("ignore")
failures = 0


def report(label, projected, direct):
    global failures
    same = (
        np.array_equal(projected.bins, direct.bins)
        and np.array_equal(projected.frequencies, direct.frequencies)
        and np.array_equal(projected.errors2, direct.errors2)
    )
    print(f"--- {label}")
    print("   bins (both)             :", direct.bins.tolist())
    print("   projection   contents   :", projected.frequencies.tolist(), " total", projected.total)
    print("   direct h1    contents   :", direct.frequencies.tolist(), " total", direct.total)
    print("   statement demands equal :", "OK" if same else "VIOLATED", "| projection == direct:", projected == direct)
    if not same:
        failures += 1


# 1. Explicit binnings (the same objects' copies are used for the 2D and the 1D histogram)
x = np.array([0.5, 1.5, 2.5, 3.0, 3.0])  # two values on the last edge of the x bins
y = np.array([0.5, 0.5, 1.5, 0.5, 1.5])  # every value strictly inside the y bins
bx = FixedWidthBinning(bin_width=1.0, bin_count=3, min=0.0)  # [0,1) [1,2) [2,3)
by = FixedWidthBinning(bin_width=1.0, bin_count=2, min=0.0)  # [0,1) [1,2)
h2 = physt.h2(x, y, bins=[bx.copy(), by.copy()])
inside_y = (y >= by.numpy_bins[0]) & (y < by.numpy_bins[-1])
print("rows that missed the bins of the dropped axis y:", int((~inside_y).sum()), "(condition of the statement holds)")
report("h2(x, y).projection(0)  vs  h1(x)   [FixedWidthBinning 0..3, width 1]",
       h2.projection(0), physt.h1(x, bx.copy()))

# 2. The same through the facade only: "fixed_width" bins limited by range=
rng = np.random.default_rng(1)
n = 200
x = rng.integers(0, 11, size=n).astype(float)  # marks 0..10, the best mark 10.0 is the last edge
y = rng.uniform(0.1, 0.9, size=n)
h2 = physt.h2(x, y, "fixed_width", bin_width=[1.0, 0.5], range=[(0, 10), (0, 1)], axis_names=["x", "y"])
h1 = physt.h1(x, "fixed_width", bin_width=1.0, range=(0, 10), axis_name="x")
print()
print("rows with y outside [0, 1):", int(((y < 0) | (y >= 1)).sum()), "; rows with x == 10.0:", int((x == 10.0).sum()))
print("parent: total", h2.total, "missed", h2.missed)
report('h2(x, y, "fixed_width", range=...).projection("x")  vs  h1(x, "fixed_width", range=(0, 10))',
       h2.projection("x"), h1)

# 3. and in steps from three dimensions
z = rng.uniform(0.1, 0.9, size=n)
h3 = physt.h3(np.column_stack([x, y, z]), "fixed_width", bin_width=[1.0, 0.5, 0.5],
              range=[(0, 10), (0, 1), (0, 1)], axis_names=["x", "y", "z"])
report('h3(...).projection("x", "z").projection("x")  vs  h1(x)', h3.projection("x", "z").projection("x"), h1)

# (for comparison: between two N-dimensional histograms the edge is treated alike, 3D -> 2D agrees)
direct2 = physt.h2(x, z, "fixed_width", bin_width=[1.0, 0.5], range=[(0, 10), (0, 1)], axis_names=["x", "z"])
p2 = h3.projection("x", "z")
print("--- for comparison: contents of h3.projection('x', 'z') equal those of h2(x, z):",
      np.array_equal(p2.frequencies, direct2.frequencies) and np.array_equal(p2.errors2, direct2.errors2),
      "(both leave the 15 rows with x == 10.0 out)")

print()
if failures:
    print(f"{failures} comparison(s) violate C09 (projection != histogram of the kept column)")
    sys.exit(1)
print("no violation observed")
