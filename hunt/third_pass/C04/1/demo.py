"""C04: a finite value entered with fill() / fill_n() into an adaptive fixed-width
histogram is lost (underflow / missed) when it is an extended-precision numpy
scalar (np.longdouble) lying just below a bin edge.

Run: PYTHONPATH=/tmp/mut/R7C04/src /venv/bin/python demo.py
"""
import sys

import numpy as np

from physt import h, h1

if np.finfo(np.longdouble).eps >= np.finfo(np.float64).eps:
    print("np.longdouble is not wider than float64 on this platform: nothing to show")
    sys.exit(0)

failures = []


def expect(label, observed, demanded):
    ok = observed == demanded
    print(f"  {label}: observed {observed!r}, statement demands {demanded!r} {'ok' if ok else '<-- VIOLATION'}")
    if not ok:
        failures.append(label)


# A finite value one longdouble-ulp below 1.0 (so it belongs to the bin [0, 1))
value = np.longdouble(1) - np.finfo(np.longdouble).epsneg
print(f"value = {value!r}; finite: {bool(np.isfinite(value))}; value < 1.0: {bool(value < 1.0)}")

print("1D, started empty, width 1: h.fill(value)")
hist = h1(None, "fixed_width", bin_width=1, adaptive=True)
returned = hist.fill(value)
edges = hist.numpy_bins
print(f"  fill returned {returned}; bins {edges.tolist()}; contents {hist.frequencies.tolist()}")
expect("value inside the bins", bool(edges[0] <= value < edges[-1]), True)
expect("total", hist.total, 1)
expect("underflow", float(hist.underflow), 0.0)
expect("overflow", float(hist.overflow), 0.0)

print("1D, pre-filled with [5.5], width 1: h.fill(3 - tiny)")
hist = h1([5.5], "fixed_width", bin_width=1, adaptive=True)
value3 = np.longdouble(3) - 4 * np.finfo(np.longdouble).epsneg
hist.fill(value3)
edges = hist.numpy_bins
print(f"  bins {edges.tolist()}; contents {hist.frequencies.tolist()}")
expect("value inside the bins", bool(edges[0] <= value3 < edges[-1]), True)
expect("total", hist.total, 2)
expect("underflow", float(hist.underflow), 0.0)

print("1D, pre-filled with [0.5]: an extra bin beyond the highest one ever needed")
hist = h1([0.5], "fixed_width", bin_width=1, adaptive=True)
hist.fill(value3)  # belongs to [2, 3): bins 0..3 are needed
print(f"  bins {hist.numpy_bins.tolist()}; contents {hist.frequencies.tolist()}")
expect("last edge (span up to the highest bin needed)", float(hist.numpy_bins[-1]), 3.0)

print("2D, started empty: h.fill([value, value])")
hist2 = h(None, "fixed_width", dim=2, bin_width=1, adaptive=True)
returned = hist2.fill([value, value])
print(f"  fill returned {returned}; edges {[e.tolist() for e in hist2.edges]}")
expect("total", hist2.total, 1)
expect("missed", float(hist2.missed), 0.0)

print("2D, started empty: h.fill_n(longdouble array with one row)")
hist2 = h(None, "fixed_width", dim=2, bin_width=1, adaptive=True)
hist2.fill_n(np.array([[value, value]]))
print(f"  edges {[e.tolist() for e in hist2.edges]}")
expect("total", hist2.total, 1)
expect("missed", float(hist2.missed), 0.0)

print("(for comparison) 1D fill_n converts to float64 first and keeps the value:")
hist = h1(None, "fixed_width", bin_width=1, adaptive=True)
hist.fill_n(np.array([value]))
print(f"  bins {hist.numpy_bins.tolist()}; contents {hist.frequencies.tolist()}; underflow {hist.underflow}")

if failures:
    print(f"\n{len(failures)} violation(s) of C04: {failures}")
    sys.exit(1)
print("\nno violation observed")
