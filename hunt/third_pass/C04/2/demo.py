"""C04: an adaptive fixed-width histogram pre-filled through the facades with the
(adaptive) binning of another histogram / a FixedWidthBinning object as `bins`
does not cover its data: the values outside go to underflow / overflow / missed,
and when the bins grow later they are not in the bins that now cover them.

Run: PYTHONPATH=/tmp/mut/R7C04/src /venv/bin/python demo.py
"""
import sys

import numpy as np

from physt import h, h1, h2
from physt.binnings import FixedWidthBinning

failures = []


def expect(label, observed, demanded):
    ok = observed == demanded
    print(f"  {label}: observed {observed!r}, statement demands {demanded!r} {'ok' if ok else '<-- VIOLATION'}")
    if not ok:
        failures.append(label)


print("1D: second sample histogrammed on the grid of a first adaptive histogram")
first = h1([0.5, 1.5, 2.5], "fixed_width", bin_width=1, adaptive=True)
data = [0.5, 10.2, -4.0]
second = h1(data, first.binning)  # bins = the adaptive FixedWidthBinning of `first`
print(f"  adaptive: {second.is_adaptive()}; bins {second.numpy_bins.tolist()}; contents {second.frequencies.tolist()}")
expect("pre-filled: is adaptive", second.is_adaptive(), True)
expect("pre-filled: all values inside the bins",
       bool(second.numpy_bins[0] <= min(data) and max(data) < second.numpy_bins[-1]), True)
expect("pre-filled: total", second.total, 3)
expect("pre-filled: underflow", float(second.underflow), 0.0)
expect("pre-filled: overflow", float(second.overflow), 0.0)

print("  ... then fill(10.7), fill_n([-4.5]) make the bins grow over the values lost before")
second.fill(10.7)
second.fill_n([-4.5])
everything = data + [10.7, -4.5]
edges = second.numpy_bins
reference = h1(everything, edges)  # fixed bins = the final bins
print(f"  bins from {edges[0]} to {edges[-1]}")
print(f"  adaptive  contents {second.frequencies.tolist()}")
print(f"  fixed-bin contents {reference.frequencies.tolist()}")
expect("after growth: equals the fixed-bin histogram over the final bins",
       second.frequencies.tolist(), reference.frequencies.tolist())
expect("after growth: total", second.total, 5)
expect("after growth: underflow", float(second.underflow), 0.0)
expect("after growth: overflow", float(second.overflow), 0.0)

print("1D: the same with an explicitly constructed adaptive binning")
binning = FixedWidthBinning(bin_width=0.5, bin_count=4, min=0.0, adaptive=True)
hist = h1([0.25, 7.3], binning)
print(f"  adaptive: {hist.is_adaptive()}; bins {hist.numpy_bins.tolist()}; contents {hist.frequencies.tolist()}")
expect("total", hist.total, 2)
expect("overflow", float(hist.overflow), 0.0)

print("2D: h2(x, y, <adaptive binning>) and h(data, [binning, binning])")
hist2 = h2([0.25, 7.3], [0.25, 1.2], binning)
print(f"  adaptive: {hist2.is_adaptive()}; shape {hist2.shape}")
expect("h2 total", hist2.total, 2)
expect("h2 missed", float(hist2.missed), 0.0)
hist2.fill([7.4, 1.3])  # the bins grow over the point (7.3, 1.2) that was dropped before
expect("h2 total after fill", hist2.total, 3)
histn = h(np.array([[0.25, 0.25], [7.3, 1.2]]), [binning, binning])
expect("h total", histn.total, 2)
expect("h missed", float(histn.missed), 0.0)

print("(for comparison) the same data with range= and adaptive=True are covered:")
covered = h1([0.25, 7.3], "fixed_width", bin_width=0.5, range=(0, 2), adaptive=True)
print(f"  bins from {covered.numpy_bins[0]} to {covered.numpy_bins[-1]}; total {covered.total}; overflow {covered.overflow}")

if failures:
    print(f"\n{len(failures)} violation(s) of C04: {failures}")
    sys.exit(1)
print("\nno violation observed")
