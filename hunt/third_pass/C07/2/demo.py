"""C07: is_regular() of a binning disagrees with is_regular() of its own copy-as-static / slice.

The statement: "fixed_width/pretty/integer bins are equal-width ..." and
"The pair (bins), edge (numpy_bins) and masked-edge representations, bin_count, first/last edge,
is_consecutive, is_regular, copy(), == and slicing of a binning always agree with one another."

Data: time stamps (seconds since 1970, about 1.7e9) within 10 ms, binned in 100 microsecond bins.
(offset / bin width = 1.7e13, offset / spread = 1.7e11: inside "14 orders of magnitude and offsets".)

Run:  PYTHONPATH=/tmp/mut/R9C07/src /venv/bin/python demo.py
"""
import sys
import warnings
from fractions import Fraction

import numpy as np

import physt

warnings.simplefilter("ignore")

data = 1.7e9 + np.linspace(0, 0.01, 50)
failures = []

for label, histogram in [
    ("h1(data, 'fixed_width', bin_width=1e-4)", physt.h1(data, "fixed_width", bin_width=1e-4)),
    ("h1(data, 'pretty', bin_count=100)", physt.h1(data, "pretty", bin_count=100)),
]:
    binning = histogram.binning
    edges = binning.numpy_bins
    widths = np.diff(edges)
    # exact (rational) distance of every edge from its grid position k * bin_width, in ulp
    width = Fraction(binning.bin_width)
    off_grid = max(
        abs(Fraction(float(edge)) - round(Fraction(float(edge)) / width) * width) for edge in edges
    ) / Fraction(float(np.spacing(edges.max())))
    print(label)
    print(f"    {type(binning).__name__}: bin_count={binning.bin_count}, bin_width={binning.bin_width!r}")
    print(f"    every edge is within {float(off_grid):.2f} ulp of its exact grid position k * bin_width; "
          f"widths {float(widths.min())!r} ... {float(widths.max())!r}")
    answers = {
        "binning.is_regular()": binning.is_regular(),
        "binning.copy().is_regular()": binning.copy().is_regular(),
        "binning.as_static().is_regular()": binning.as_static().is_regular(),
        "binning[:].is_regular()         (full slice)": binning[:].is_regular(),
        "binning[2:7].is_regular()       (slice)": binning[2:7].is_regular(),
        "histogram[2:7].binning.is_regular()": histogram[2:7].binning.is_regular(),
    }
    for what, answer in answers.items():
        print(f"    {what:48s} -> {answer}")
    same_bins = np.array_equal(binning.bins, binning[:].bins)
    print(f"    (binning.bins equal to binning[:].bins: {same_bins})")
    if len(set(answers.values())) != 1:
        print("    statement: all of these agree (and the bins of a fixed-width binning are equal-width)")
        failures.append(label)

# The same bins as numpy.histogram makes them (np.linspace): equal-width by their rule
histogram = physt.h1(data, 100)
print("h1(data, 100)")
print(f"    numpy_bins equal to numpy.histogram_bin_edges: "
      f"{np.array_equal(histogram.numpy_bins, np.histogram_bin_edges(data, 100))}; "
      f"binning.is_regular() -> {histogram.binning.is_regular()}")

if failures:
    print(f"\nVIOLATION: is_regular() of a binning and of its static copy / slices disagree in {len(failures)} cases.")
    sys.exit(1)
print("\nOK")
