"""C07: fixed-width / pretty binnings with zero-width (left == right) bins.

The statement: "Every binning produced from data and arguments (... fixed_width, pretty, ...)
has strictly rising, non-overlapping bins with left < right".

Data: five finite values around 1e7 that are 5e-8 apart (spread / offset = 2e-14, inside the
"14 orders of magnitude and offsets" of the scope).  200 "pretty" bins give a width of 1e-9,
which is below the spacing of the doubles at 1e7 (1.86e-9).

Run:  PYTHONPATH=/tmp/mut/R9C07/src /venv/bin/python demo.py
"""
import sys
import warnings

import numpy as np

import physt
from physt import binnings

warnings.simplefilter("ignore")

data = 1e7 + np.array([0.0, 0.5e-7, 1.0e-7, 1.5e-7, 2.0e-7])
print(f"data: {data.min()!r} ... {data.max()!r}, spacing of doubles there: {np.spacing(1e7)!r}")

violations = []


def report(label, binning):
    bins = binning.bins
    empty = int(np.sum(bins[:, 0] >= bins[:, 1]))
    print(f"{label}:")
    print(f"    {type(binning).__name__}, bin_count={binning.bin_count}, "
          f"bin_width={getattr(binning, 'bin_width', None)}")
    print(f"    bins with left >= right: {empty}   (statement: 0, every bin has left < right)")
    if empty:
        first = int(np.argmax(bins[:, 0] >= bins[:, 1]))
        print(f"    e.g. bin {first}: [{bins[first, 0]!r}, {bins[first, 1]!r}]")
        print(f"    is_regular()={binning.is_regular()}, is_consecutive()={binning.is_consecutive()}")
        violations.append(label)


# 1) The binning functions themselves
report("pretty_binning(data, bin_count=200)", binnings.pretty_binning(data, 200))
report("fixed_width_binning(data, bin_width=1e-9)", binnings.fixed_width_binning(data, bin_width=1e-9))
report(
    "binning_methods['fixed_width'](data, bin_width=1e-9, includes_right_edge=True)",
    binnings.binning_methods["fixed_width"](data, bin_width=1e-9, includes_right_edge=True),
)

# For comparison: the numpy-style binning copes with exactly this situation (narrowest bins)
reference = binnings.numpy_binning(data, 200)
report("numpy_binning(data, 200)   [for comparison]", reference)

# 2) An adaptive histogram ends up holding such a binning (nothing is refused)
histogram = physt.h1(None, "fixed_width", bin_width=1e-9, adaptive=True)
histogram.fill_n(data)
print(f"adaptive histogram after fill_n(data): {histogram!r}")
report("h1(None, 'fixed_width', bin_width=1e-9, adaptive=True) + fill_n(data)", histogram.binning)
widths = histogram.bin_widths
print(f"    bin_widths: min={widths.min()!r}, max={widths.max()!r}; "
      f"densities finite: {bool(np.all(np.isfinite(histogram.densities)))}")

if violations:
    print(f"\nVIOLATION: {len(violations)} binnings with empty-width bins were produced (not refused).")
    sys.exit(1)
print("\nOK: all bins have left < right")
