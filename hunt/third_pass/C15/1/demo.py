"""C15 - the deprecated facade aliases `spherical_histogram` and `spherical_surface_histogram`
construct POLAR histograms: they refuse 3D points and accept 2D ones.

Run:  PYTHONPATH=/tmp/mut/R9C15/src /venv/bin/python demo.py
"""
import sys
import warnings

import numpy as np

from physt import special_histograms as sh

warnings.simplefilter("ignore", FutureWarning)  # the aliases announce their deprecation

rng = np.random.default_rng(15)
points = rng.normal(size=(200, 3))
points[:5] = [[0, 0, 0], [0, 0, -1], [-1, -0.0, 0], [1, -1e-17, 2], [0, 3, 4]]
x, y = points[:, 0], points[:, 1]

failures = []


def same(a, b):
    return (
        type(a) is type(b)
        and a.shape == b.shape
        and all(np.array_equal(p, q) for p, q in zip(a.bins, b.bins))
        and np.array_equal(a.frequencies, b.frequencies)
        and np.array_equal(a.missed, b.missed)
    )


# Control: an alias that is wired correctly is the same facade under an old name
control = same(sh.cylindrical_histogram(points), sh.cylindrical(points))
print(f"cylindrical_histogram(points) == cylindrical(points): {control}   (demanded: True)")
if not control:
    failures.append("cylindrical_histogram differs from cylindrical")

for alias_name, facade, klass in [
    ("spherical_histogram", sh.spherical, sh.SphericalHistogram),
    ("spherical_surface_histogram", sh.spherical_surface, sh.SphericalSurfaceHistogram),
]:
    alias = getattr(sh, alias_name)
    expected = facade(points)
    print(f"\n--- {alias_name} (facade alias of {facade.__name__}) ---")
    print(f"demanded: {alias_name}(points[N,3]) -> {klass.__name__} with the contents of "
          f"{facade.__name__}(points): shape {expected.shape}, total {expected.total}")

    # 1. The 3D points the statement wants binned by (r,) theta, phi
    try:
        result = alias(points)
    except Exception as exc:  # noqa: BLE001
        print(f"observed: {alias_name}(points[N,3]) raises {type(exc).__name__}: {exc}")
        failures.append(f"{alias_name} refuses 3D points")
    else:
        ok = same(result, expected)
        print(f"observed: {type(result).__name__}, shape {result.shape}, same as facade: {ok}")
        if not ok:
            failures.append(f"{alias_name}(points) differs from {facade.__name__}(points)")

    # 2. Input of the wrong dimensionality (two coordinates only) must be refused
    print(f"demanded: {alias_name}(x, y) - only two coordinates for a 3D transform - is refused")
    try:
        result = alias(x, y)
    except Exception as exc:  # noqa: BLE001
        print(f"observed: refused with {type(exc).__name__}: {exc}")
    else:
        print(f"observed: ACCEPTED -> {type(result).__name__}, axes {result.axis_names}, "
              f"shape {result.shape}, total {result.total}")
        failures.append(
            f"{alias_name} accepts 2D input and returns a {type(result).__name__} "
            f"instead of a {klass.__name__}"
        )
        # The point (0, 3) is binned by r = 3, phi = pi/2 of the *plane*: no theta axis at all
        print(f"          find_bin((0, 3)) = {result.find_bin((0.0, 3.0))} "
              f"(a polar (r, phi) cell; a {klass.__name__} has no 2D points)")

print()
if failures:
    print("VIOLATIONS:")
    for failure in failures:
        print("  -", failure)
    sys.exit(1)
print("no violation")
