"""C15 - the projection of a transformed histogram onto ALL of its coordinates is a plain
(Cartesian) Histogram2D / HistogramND: the special type is lost and Cartesian points entered
into the projection are binned by their raw x, y(, z) as if these were r, phi(, ...).

Run:  PYTHONPATH=/tmp/mut/R9C15/src /venv/bin/python demo.py
"""
import sys

import numpy as np

import physt
from physt import special_histograms as sh

rng = np.random.default_rng(15)
points3 = rng.normal(size=(300, 3))
points2 = points3[:, :2]
more3 = rng.normal(size=(100, 3))
more3[:4] = [[0, 0, 0], [-1, -0.0, 0.5], [0, -2, -1], [1, -1e-17, 2]]

cases = [
    ("polar", physt.polar(points2[:, 0], points2[:, 1]), 2),
    ("spherical", physt.spherical(points3), 3),
    ("spherical_surface", physt.spherical_surface(points3), 3),
    ("cylindrical", physt.cylindrical(points3), 3),
    ("cylindrical_surface", physt.cylindrical_surface(points3), 3),
]

failures = []
for label, h, source_dim in cases:
    klass = type(h)
    new_points = more3[:, :source_dim]
    probe = new_points[2]
    for how, axes in [("indices", tuple(range(h.ndim))), ("names", tuple(h.axis_names))]:
        p = h.projection(*axes)
        marginal_ok = np.array_equal(p.frequencies, h.frequencies)
        print(f"{label}.projection{axes}:")
        print(f"   demanded: {klass.__name__} (the subset is the whole coordinate set), "
              f"contents unchanged")
        print(f"   observed: {type(p).__name__}, axes {p.axis_names}, contents unchanged: {marginal_ok}")
        if type(p) is not klass:
            failures.append(f"{label}.projection{axes} is a {type(p).__name__}, not a {klass.__name__}")
        if not marginal_ok:
            failures.append(f"{label}.projection{axes} changed the contents")
        if how == "names":
            continue

        # Consequence: the same Cartesian points go elsewhere (or are refused) in the projection
        expected_bin = h.find_bin(probe)
        try:
            got_bin = p.find_bin(probe)
        except Exception as exc:  # noqa: BLE001
            got_bin = f"{type(exc).__name__}: {exc}"
        print(f"   find_bin({probe.round(3).tolist()}): histogram -> {expected_bin}, "
              f"its projection -> {got_bin}")
        reference = h.copy()
        reference.fill_n(new_points)
        try:
            p.fill_n(new_points)
        except Exception as exc:  # noqa: BLE001
            print(f"   fill_n(100 more points): projection raises {type(exc).__name__}: {exc}")
        else:
            same = np.array_equal(p.frequencies, reference.frequencies)
            print(f"   fill_n(100 more points): histogram total {reference.total} "
                  f"(missed {float(np.sum(reference.missed))}), projection total {p.total} "
                  f"(missed {float(np.sum(p.missed))}); same contents: {same}   (demanded: True)")
            if not same:
                failures.append(
                    f"{label}.projection{axes}: points filled afterwards are binned as if their "
                    f"Cartesian coordinates were {p.axis_names}"
                )
    # Control: a proper subset that is in the class map keeps a special type
print()
print("control: cylindrical.projection('phi', 'z') ->",
      type(cases[3][1].projection("phi", "z")).__name__, "(special type kept)")
print()
if failures:
    print("VIOLATIONS:")
    for failure in failures:
        print("  -", failure)
    sys.exit(1)
print("no violation")
