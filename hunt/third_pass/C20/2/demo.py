"""C20: the ASCII backend does not refuse a plot kind for a histogram of the wrong dimension.

Statement: "For the matplotlib, plotly and ASCII backends ... a plot type is refused for
histograms of the wrong dimension".
The ASCII `map` kind is declared for 2D histograms only (physt.plotting.ascii.dims["map"] == [2]).
"""
import contextlib
import io
import sys

import numpy as np

import physt
from physt import plotting
from physt.plotting import ascii as ascii_backend

rng = np.random.default_rng(0)
data = rng.normal(size=(200, 3))
h3 = physt.h3(data, bins=3)  # 3 x 3 x 3 bins
h3_flat = physt.h3(data, bins=[np.linspace(-4, 4, 4), np.linspace(-4, 4, 4), np.array([-10.0, 10.0])])  # 3 x 3 x 1

print("declared dimensions of the ASCII kinds:", ascii_backend.dims)
if "map" not in ascii_backend.types:
    print("xtermcolor is not installed - the ASCII map kind is not available, nothing to show")
    sys.exit(0)


def attempt(histogram, kind, backend):
    """Return (accepted, text printed / error message)."""
    buffer = io.StringIO()
    try:
        with contextlib.redirect_stdout(buffer):
            plotting.plot(histogram, kind, backend=backend)
    except Exception as exc:  # a refusal of any kind
        return False, f"{type(exc).__name__}: {exc}"
    return True, buffer.getvalue()


violations = 0
for name, h in (("3D histogram 3x3x3", h3), ("3D histogram 3x3x1", h3_flat)):
    for backend, kind in (("matplotlib", "map"), ("plotly", "map"), ("ascii", "map")):
        accepted, detail = attempt(h, kind, backend)
        verdict = "ACCEPTED (violation)" if accepted else "refused (as demanded)"
        print(f"{name}, ndim={h.ndim}: plot(kind={kind!r}, backend={backend!r}) -> {verdict}")
        if accepted:
            violations += 1
            print("   a picture was printed for a histogram that has no 2D map:")
            print("   " + detail.replace("\n", "\n   ").rstrip())
        else:
            print("   " + detail.splitlines()[0][:110])

# The same through the histogram's own accessor
buffer = io.StringIO()
try:
    with contextlib.redirect_stdout(buffer):
        h3.plot.map(backend="ascii")
    print("h3.plot.map(backend='ascii') -> ACCEPTED (violation)")
    violations += 1
except Exception as exc:
    print("h3.plot.map(backend='ascii') -> refused:", type(exc).__name__)

if violations:
    print(f"\n{violations} plots of a wrong-dimension histogram were drawn instead of being refused")
    sys.exit(1)
print("\nall wrong-dimension plots were refused")
