"""C20: title (and its override) are dropped by the matplotlib kinds polar_map / globe_map /
cylinder_map / surface_map.

Statement: "... 2D maps and images draw one cell per bin ..., and title and axis labels come
from the histogram's metadata unless overridden."
"""
import sys
import warnings

import matplotlib

matplotlib.use("Agg")
import matplotlib.pyplot as plt
import numpy as np

from physt import special_histograms
from physt.types import Histogram2D

warnings.simplefilter("ignore")

rng = np.random.default_rng(0)
xy = rng.normal(size=(300, 2))

polar = special_histograms.polar(xy[:, 0], xy[:, 1], radial_bins=3, phi_bins=4)
polar.title = "Hits in the detector"
plain = Histogram2D(
    [[0, 1, 2], [0, 1, 2]], frequencies=[[1, 2], [3, 4]], title="Hits in the detector"
)

failures = 0


def check(label, histogram, kind, expected, **kwargs):
    global failures
    ax = histogram.plot(kind, backend="matplotlib", **kwargs)
    got = ax.get_title()
    ok = got == expected
    print(f"{label:<52} demanded title {expected!r:<24} observed {got!r:<24} {'ok' if ok else 'VIOLATION'}")
    if not ok:
        failures += 1
    plt.close("all")


print("reference kinds (behave as the statement says):")
check("PolarHistogram.plot('map')", polar, "map", "Hits in the detector")
check("PolarHistogram.plot('map', title='Run 7')", polar, "map", "Run 7", title="Run 7")
check("Histogram2D.plot('image')", plain, "image", "Hits in the detector")
check("Histogram2D.plot('bar3d')", plain, "bar3d", "Hits in the detector")

print("\nkinds that lose the title:")
check("PolarHistogram.plot('polar_map')", polar, "polar_map", "Hits in the detector")
check("PolarHistogram.plot('polar_map', title='Run 7')", polar, "polar_map", "Run 7", title="Run 7")
for kind in ("surface_map", "globe_map", "cylinder_map"):
    check(f"Histogram2D.plot('{kind}')", plain, kind, "Hits in the detector")
    check(f"Histogram2D.plot('{kind}', title='Run 7')", plain, kind, "Run 7", title="Run 7")

if failures:
    print(f"\n{failures} plots do not carry the histogram's title / the explicitly given title")
    sys.exit(1)
print("\nall titles as demanded")
