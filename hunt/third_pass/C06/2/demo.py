"""C06: dividing a histogram by a very small (subnormal, but finite and non-zero) scalar
ruins the recorded statistics although contents and missed values are divided correctly.

Run with: PYTHONPATH=/tmp/mut/R7C06/src /venv/bin/python demo.py
"""
import math
import sys
import warnings

import numpy as np

import physt

warnings.simplefilter("ignore")
failures = []


def report(label, observed, demanded, rtol=1e-9):
    ok = bool(np.allclose(observed, demanded, rtol=rtol, atol=0))  # NaN / inf never match
    print(f"  {label:<34} observed {observed!s:<26} demanded {demanded!s:<22} {'ok' if ok else 'VIOLATION'}")
    if not ok:
        failures.append(label)


values = [0.5, 1.5, 1.6, 2.5, 7.0]
c = 1e-310  # finite, non-zero (1 / c is not)
print(f"factor c = {c!r}: finite={math.isfinite(c)}, non-zero={c != 0}\n")

# A) (h * c) / c must reproduce h
h = physt.h1(values, "fixed_width", bin_width=1.0, range=(0, 3))
s = h.statistics
back = (h * c) / c
print("A) (h * c) / c   [h: contents %s, overflow %s, weight %s, mean %s]"
      % (h.frequencies.tolist(), h.overflow, s.weight, s.mean()))
report("contents", back.frequencies.tolist(), h.frequencies.tolist())
report("overflow", float(back.overflow), float(h.overflow))
report("statistics.weight", float(back.statistics.weight), float(s.weight))
report("statistics.mean()", float(back.statistics.mean()), float(s.mean()))
report("statistics.variance()", float(back.statistics.variance()), float(s.variance()))
report("statistics.min / max", [back.statistics.min, back.statistics.max], [s.min, s.max])

# B) a single division; the same through `h /= c`
w = 1e-10
g = physt.h1(values, "fixed_width", bin_width=1.0, range=(0, 3), weights=[w] * 5)
s = g.statistics
print("\nB) g / c   [g: weights of 1e-10; contents %s, weight %s, mean %s]"
      % (g.frequencies.tolist(), s.weight, s.mean()))
d = g / c
gi = g.copy()
gi /= c
for label, r in (("g / c", d), ("g /= c", gi)):
    report(f"{label}: contents", r.frequencies.tolist(), (g.frequencies / c).tolist())
    report(f"{label}: statistics.weight", float(r.statistics.weight), float(s.weight / c))
    report(f"{label}: statistics.mean()", float(r.statistics.mean()), float(s.mean()))
    report(f"{label}: statistics.variance()", float(r.statistics.variance()), float(s.variance()))

if failures:
    print(f"\n{len(failures)} checks violated: the statistics are multiplied by 1 / c = {1 / c} "
          "instead of being divided by c.")
    sys.exit(1)
print("\nNo violation observed.")
