"""C06: scaling a histogram with a compact integer content type (int16 / int32) by a
numpy integer factor wraps around silently - contents, squared errors and missed values.

Run with: PYTHONPATH=/tmp/mut/R7C06/src /venv/bin/python demo.py
"""
import sys
import warnings

import numpy as np

import physt

warnings.simplefilter("ignore")
failures = []


def report(label, observed, demanded):
    ok = np.array_equal(np.asarray(observed, dtype=float), np.asarray(demanded, dtype=float))
    print(f"  {label:<28} observed {np.asarray(observed).tolist()!s:<28} demanded {np.asarray(demanded).tolist()!s:<24} {'ok' if ok else 'VIOLATION'}")
    if not ok:
        failures.append(label)


def check(title, h, c):
    print(title)
    f0 = h.frequencies.astype(np.int64)
    e0 = h.errors2.astype(np.int64)
    m0 = np.array([h.underflow, h.overflow, h.inner_missed]).astype(np.int64)
    ci = int(c)
    print(f"  histogram: dtype={h.dtype}, contents={f0.tolist()}, errors2={e0.tolist()}, "
          f"underflow/overflow/inner={m0.tolist()};  factor {c!r} ({type(c).__name__})")
    for label, r in (("h * c", h * c), ("c * h", c * h)):
        report(f"{label}: contents", r.frequencies, f0 * ci)
        report(f"{label}: errors2", r.errors2, e0 * ci * ci)
        report(f"{label}: missed", [r.underflow, r.overflow, r.inner_missed], m0 * ci)
    g = h.copy()
    g *= c
    report("h *= c: contents", g.frequencies, f0 * ci)
    report("h *= c: errors2", g.errors2, e0 * ci * ci)
    back = (h * c) / c
    report("(h * c) / c: contents", back.frequencies, f0)
    report("(h * c) / c: errors2", back.errors2, e0)
    same = h * ci  # the same factor as a python integer
    report("h * int(c) (for comparison)", same.frequencies, f0 * ci)
    report("h * int(c) (for comparison)", same.errors2, e0 * ci * ci)
    print()


# 1) int32 counts (the default integer of numpy < 2 on Windows), factor taken from an int32 array
values = np.repeat([0.5, 1.5, 7.0], [3, 200, 2])
h32 = physt.h1(values, "fixed_width", bin_width=1.0, range=(0, 2), dtype=np.int32)
factor32 = np.array([70000], dtype=np.int32)[0]
check("int32 histogram * np.int32(70000): every product fits int64 easily (max 9.8e11)", h32, factor32)

# 2) int16 counts, int16 factor: the contents themselves turn negative
values = np.repeat([0.5, 1.5, -3.0], [400, 3, 400])
h16 = physt.h1(values, "fixed_width", bin_width=1.0, range=(0, 2), dtype=np.int16)
check("int16 histogram * np.int16(100): 400 * 100 = 40000", h16, np.int16(100))

if failures:
    print(f"{len(failures)} checks violated: scaling is not linear (values wrapped around in the compact type).")
    sys.exit(1)
print("No violation observed.")
