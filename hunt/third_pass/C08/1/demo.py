"""C08: a histogram collection with adaptive bins does not survive the JSON round trip.

Run with: PYTHONPATH=/tmp/mut/R9C08/src /venv/bin/python demo.py
"""
import json
import sys

import numpy as np

import physt
from physt.binnings import FixedWidthBinning
from physt.histogram_collection import HistogramCollection
from physt.io import parse_json

failures = []


def report(what, observed, demanded, ok):
    print(f"{what}\n    observed: {observed}\n    demanded: {demanded}\n    -> {'ok' if ok else 'VIOLATION'}")
    if not ok:
        failures.append(what)


# ---------------------------------------------------------------------------
# 1. Silent: collection declared with an (empty) adaptive binning, one member created in it
# ---------------------------------------------------------------------------
print("== 1. empty adaptive collection + create() ==")
col = HistogramCollection(binning=FixedWidthBinning(bin_width=1.0, adaptive=True), name="runs")
col.create("a", [1.2, 2.5, 3.7])          # the member adapts (its own copy of) the binning

doc = col.to_json()
back = parse_json(doc)

report(
    "same class and == to the original",
    (type(back).__name__, back == col),
    ("HistogramCollection", True),
    type(back) is HistogramCollection and back == col,
)
report(
    "edges of the collection (collection.numpy_bins / .bins / .binning)",
    back.numpy_bins.tolist(),
    f"bit-identical to the original: {col.numpy_bins.tolist()}",
    back.numpy_bins.shape == col.numpy_bins.shape
    and back.numpy_bins.tobytes() == col.numpy_bins.tobytes(),
)
report(
    "number of bins of the collection's binning",
    back.binning.bin_count,
    col.binning.bin_count,
    back.binning.bin_count == col.binning.bin_count,
)
doc2 = back.to_json()
report(
    "serialising the parsed object again gives the same document",
    json.loads(doc2)["binning"],
    json.loads(doc)["binning"],
    json.loads(doc2) == json.loads(doc),
)

# ---------------------------------------------------------------------------
# 2. The library's own document is refused: two adaptive members, one of them filled later
# ---------------------------------------------------------------------------
print("\n== 2. collection of adaptive histograms, one member grows ==")
data = {"a": np.array([0.5, 1.5, 2.5]), "b": np.array([0.7, 1.1, 2.9])}
col = physt.collection(data, "fixed_width", bin_width=1.0, adaptive=True, name="runs")
col["b"].fill(7.3)                         # an adaptive histogram grows when filled: 3 -> 8 bins
print("    members:", [(h.name, h.bin_count, h.is_adaptive()) for h in col])

doc = col.to_json()                        # is written without complaint
try:
    back = parse_json(doc)
except Exception as exc:                   # noqa: BLE001
    report(
        "parse_json(collection.to_json())",
        f"raises {type(exc).__name__}: {exc}",
        "returns an equal HistogramCollection (member by member)",
        False,
    )
else:
    same = back == col and all(
        m1.bins.tobytes() == m2.bins.tobytes()
        and m1.frequencies.tobytes() == m2.frequencies.tobytes()
        for m1, m2 in zip(col, back)
    )
    report("parse_json(collection.to_json())", f"== original: {same}", "== original: True", same)

print()
if failures:
    print(f"{len(failures)} violation(s) of C08:")
    for failure in failures:
        print("  -", failure)
    sys.exit(1)
print("no violation")
