"""C08: histograms with exponential bins cannot be written to JSON when the binning
was specified with numpy scalars (range taken from float32 data, bin count from an array).

Run with: PYTHONPATH=/tmp/mut/R9C08/src /venv/bin/python demo.py
"""
import sys

import numpy as np

import physt
from physt.io import parse_json

failures = []


def same_bits(a, b):
    a, b = np.asarray(a), np.asarray(b)
    return a.dtype == b.dtype and a.shape == b.shape and a.tobytes() == b.tobytes()


def round_trip(label, h):
    print(f"{label}\n    histogram: {h!r}, binning {type(h.binning).__name__ if h.ndim == 1 else [type(b).__name__ for b in h._binnings]}")
    demanded = "parse_json(h.to_json()) is an equal histogram with bit-identical edges and contents"
    try:
        back = parse_json(h.to_json())
    except Exception as exc:  # noqa: BLE001
        print(f"    observed: h.to_json() raises {type(exc).__name__}: {exc}")
        print(f"    demanded: {demanded}\n    -> VIOLATION")
        failures.append(label)
        return
    ok = (
        type(back) is type(h)
        and back == h
        and all(type(a) is type(b) and same_bits(a.bins, b.bins) for a, b in zip(h._binnings, back._binnings))
        and same_bits(h.frequencies, back.frequencies)
        and same_bits(h.errors2, back.errors2)
    )
    print(f"    observed: round trip done, identical: {ok}")
    print(f"    demanded: {demanded}\n    -> {'ok' if ok else 'VIOLATION'}")
    if not ok:
        failures.append(label)


# Measurements stored in single precision (very common), log-spaced bins over their range
data = np.array([1.5, 3.0, 20.0, 70.0, 120.0], dtype=np.float32)

# Reference: the same with python numbers works
round_trip(
    "0. exponential bins, range given as python floats (reference)",
    physt.h1(data, "exponential", bin_count=3, range=(1.0, 200.0)),
)
round_trip(
    "1. exponential bins, range=(data.min(), data.max()) of float32 data",
    physt.h1(data, "exponential", bin_count=3, range=(data.min(), data.max())),
)
round_trip(
    "2. exponential bins, bin_count is a numpy integer (e.g. some_array.max())",
    physt.h1(data, "exponential", bin_count=np.array([2, 3]).max()),
)
round_trip(
    "3. 2D histogram, exponential bins on both axes, float32 ranges",
    physt.h2(data, data[::-1], "exponential", bin_count=2, range=((data.min(), data.max()),) * 2),
)

print()
if failures:
    print(f"{len(failures)} violation(s) of C08:")
    for failure in failures:
        print("  -", failure)
    sys.exit(1)
print("no violation")
