"""C12: a histogram built over the bins of another one (`Histogram1D(h.binning)`,
`HistogramND(h.binnings)`) shares the binning *object* with it.  A later fill of either
one that makes the adaptive bins grow silently changes the bins of the other, whose
contents are not reshaped: it reports other bins for the same contents and is no
longer well-formed.
"""
import sys

import numpy as np

from physt import h1, h2
from physt.histogram1d import Histogram1D
from physt.histogram_nd import Histogram2D

failures = []


def check(label, observed, demanded, ok=None):
    if ok is None:
        ok = observed == demanded
    print(f"{label}\n    observed: {observed}\n    demanded: {demanded}   {'ok' if ok else '<-- VIOLATION'}")
    if not ok:
        failures.append(label)


# --- 1D ---------------------------------------------------------------------------------
h = h1(np.array([1.5, 2.5, 2.6]), "fixed_width", bin_width=1.0, adaptive=True)
bins_before = h.bins.tolist()           # [[1, 2], [2, 3]]
freq_before = h.frequencies.tolist()    # [1, 2]

g = Histogram1D(h.binning)              # a new, empty histogram over the same bins
g.fill(-0.5)                            # later fill of g only: its adaptive bins grow to the left

check("h.bins after g.fill(-0.5)", h.bins.tolist(), bins_before)
check("h.frequencies after g.fill(-0.5)", h.frequencies.tolist(), freq_before)
check("h well-formed: frequencies.shape == shape", (h.frequencies.shape, h.shape), "equal",
      ok=h.frequencies.shape == h.shape)
try:
    observed = h.densities.tolist()
except Exception as exc:  # noqa: BLE001
    observed = repr(exc)
check("h.densities", observed, [1.0, 2.0])
try:
    h.fill(2.5)
    observed = h.frequencies.tolist()
except Exception as exc:  # noqa: BLE001
    observed = repr(exc)
check("h.fill(2.5) then h.frequencies", observed, [1, 3])

# --- the other direction, and the source being itself a derived histogram (a copy) -------
src = h1(np.array([1.5, 2.5, 2.6]), "fixed_width", bin_width=1.0, adaptive=True).copy()
new = Histogram1D(src.binning, [5, 6])
src.fill(7.5)                           # later fill of the source
check("new.bins after src.fill(7.5)", new.bins.tolist(), [[1.0, 2.0], [2.0, 3.0]])
check("new well-formed", (new.frequencies.shape, new.shape), "equal", ok=new.frequencies.shape == new.shape)

# --- 2D ---------------------------------------------------------------------------------
H = h2(np.array([0.5, 1.5]), np.array([0.5, 1.5]), "fixed_width", bin_width=1.0, adaptive=True)
G = Histogram2D(H.binnings)
G.fill([5.5, -3.5])
check("H.shape after G.fill([5.5, -3.5])", H.shape, (2, 2))
check("H well-formed", (H.frequencies.shape, H.shape), "equal", ok=H.frequencies.shape == H.shape)

# --- not only growth: the adaptive flag is shared too -------------------------------------
a = h1(np.array([1.5, 2.5]), "fixed_width", bin_width=1.0)
b = Histogram1D(a.binning)
b.set_adaptive(True)
check("a.is_adaptive() after b.set_adaptive(True)", a.is_adaptive(), False)

if failures:
    print(f"\n{len(failures)} check(s) violate C12 (derived histograms are independent of their sources).")
    sys.exit(1)
print("\nno violation observed")
