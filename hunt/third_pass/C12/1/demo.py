"""C12: a copy stops being independent once contents are moved between the two
histograms with the public `frequencies` / `errors2` setters.

History (only public API):  backup = h.copy()  ->  fills of h  ->
h.frequencies = backup.frequencies ; h.errors2 = backup.errors2  (restore the snapshot)
->  h.fill(...) / h.fill_n(...).
The statement demands that later fills of one object never change what the other reports.
"""
import sys

import numpy as np

from physt import h1, h2

failures = []


def check(label, observed, demanded):
    ok = np.array_equal(np.asarray(observed), np.asarray(demanded))
    print(f"{label}\n    observed: {np.asarray(observed).tolist()}\n    demanded: {np.asarray(demanded).tolist()}   {'ok' if ok else '<-- VIOLATION'}")
    if not ok:
        failures.append(label)


# --- 1. snapshot / restore with copy() -------------------------------------------------
edges = np.array([0.0, 1.0, 2.0, 3.0])
h = h1(np.array([0.5, 1.5, 1.6, 2.5]), edges)
backup = h.copy()                      # derived histogram (listed derivation: copy)
snapshot = (backup.frequencies.copy(), backup.errors2.copy(), backup.total)

h.fill_n([0.1, 0.2])                   # some experiment on h ...
h.frequencies = backup.frequencies     # ... then the contents of the snapshot are put back
h.errors2 = backup.errors2
assert h == backup

h.fill(1.5)                            # later fill of ONE object
h.fill_n([2.2, 2.3])                   # (fill_n as well)

check("backup.frequencies after h.fill(1.5); h.fill_n([2.2, 2.3])", backup.frequencies, snapshot[0])
check("backup.errors2 after the same fills of h", backup.errors2, snapshot[1])
check("backup.total", backup.total, snapshot[2])
check("h.frequencies (the fills themselves are counted once)", h.frequencies, [1, 3, 3])

# --- 2. copy(include_frequencies=False) "fully usable", loaded with contents ------------
src = h1(np.array([0.5, 1.5, 1.6, 2.5]), edges)
empty = src.copy(include_frequencies=False)
empty.frequencies = src.frequencies
empty.errors2 = src.errors2
empty.fill(0.5, weight=2)              # fill of the derived object
check("src.frequencies after empty.fill(0.5, weight=2)", src.frequencies, [1, 2, 1])
check("src.errors2 after empty.fill(0.5, weight=2)", src.errors2, [1, 2, 1])

# --- 3. same in 2D (in-place partial_normalize of one object) ----------------------------
x = np.array([0.5, 1.5, 1.5])
y = np.array([0.5, 0.5, 1.5])
H = h2(x, y, "fixed_width", bin_width=1.0, dtype=float)
G = H.copy()
G.frequencies = H.frequencies          # e.g. "reset G to the contents of H"
G.partial_normalize(0, inplace=True)   # in-place operation on G only
check("H.frequencies after G.partial_normalize(0, inplace=True)", H.frequencies, [[1, 0], [1, 1]])

if failures:
    print(f"\n{len(failures)} check(s) violate C12 (derived histograms are independent of their sources).")
    sys.exit(1)
print("\nno violation observed")
