"""C17: non-numeric inputs are refused.

Dates and time spans are refused when they come as a datetime64 / timedelta64 array, as a plain
list of such values or as a pandas Series - but the very same values are accepted and histogrammed
as "days since 1970" (or a bare count of time units) as soon as numpy stores them with dtype=object,
which is what happens e.g. for a list of dates with one missing (None) entry.
"""
import sys
import warnings

import numpy as np
import pandas as pd

import physt
import physt.compat.pandas  # noqa: F401

warnings.simplefilter("ignore")

dates = [np.datetime64("2020-01-01"), np.datetime64("2020-01-03"), np.datetime64("2020-03-03")]
spans = [np.timedelta64(5, "s"), np.timedelta64(7, "s"), np.timedelta64(90, "s")]

inputs = {
    # references: how the library treats the same values in the other containers
    "datetime64 array (reference)": (physt.h1, np.array(dates)),
    "list of datetime64 (reference)": (physt.h1, dates),
    "pandas Series of dates (reference)": (physt.h1, pd.Series(dates)),
    # the same values, dtype=object
    "object array of datetime64": (physt.h1, np.array(dates, dtype=object)),
    "list of datetime64 with a missing entry": (physt.h1, dates[:1] + [None] + dates[1:]),
    "tuple of timedelta64 with a missing entry": (physt.h1, tuple(spans[:1] + [None] + spans[1:])),
    "object array of timedelta64": (physt.h1, np.array(spans, dtype=object)),
    "h: rows (date, number)": (physt.h, [[d, i] for i, d in enumerate(dates)]),
}

accepted = []
for label, (function, data) in inputs.items():
    try:
        result = function(data, 2)
    except (ValueError, TypeError) as exc:
        print(f"refused  : {label:45} {type(exc).__name__}: {str(exc)[:70]}")
        continue
    edges = [np.asarray(e).tolist() for e in (result.numpy_bins if result.ndim > 1 else [result.numpy_bins])]
    print(f"ACCEPTED : {label:45} {result}, bin edges {edges}")
    if "reference" not in label:
        accepted.append(label)

print()
print("demanded: dates / time spans are not numbers - every one of these inputs is refused")
if accepted:
    print(f"observed: {len(accepted)} non-numeric inputs were histogrammed -> VIOLATION")
    sys.exit(1)
print("observed: all refused")
