"""C17: a dask array must give the histogram of its numpy array whatever its chunks are.

physt.compat.dask.h1 takes multi-dimensional dask arrays (tests/compat/test_dask.py::test_huge_2d),
but only if all blocks in one "row" of the chunk grid happen to have the same shape.
A trailing remainder chunk (101 columns in chunks of 50 -> 50, 50, 1) is refused.
"""
import sys
import warnings

import dask.array as da
import numpy as np

import physt
from physt.compat import dask as physt_dask

warnings.simplefilter("ignore")

array = np.vstack(100 * [np.arange(0, 101, dtype=float)])  # shape (100, 101)
array[3, 5] = np.nan

expected = physt.h1(array, "fixed_width", bin_width=10, adaptive=True)
print("numpy array              :", expected, expected.frequencies.tolist())

failures = 0
for chunks in [(100, 101), (50, 101), (50, 50), (30, 40), (100, 100)]:
    dask_array = da.from_array(array, chunks=chunks)
    blocks = [[(r, c) for c in dask_array.chunks[1]] for r in dask_array.chunks[0]]
    try:
        result = physt_dask.h1(dask_array, "fixed_width", bin_width=10)
    except Exception as exc:  # the statement demands the same histogram, not a refusal
        failures += 1
        print(f"dask chunks={chunks!s:10} : REFUSED {type(exc).__name__}: {exc}   (blocks {blocks[0]})")
        continue
    same = (
        np.array_equal(result.bins, expected.bins)
        and np.array_equal(result.frequencies, expected.frequencies)
        and np.array_equal(result.errors2, expected.errors2)
    )
    print(f"dask chunks={chunks!s:10} : {result} {result.frequencies.tolist()}  same as numpy: {same}")
    failures += not same

print()
print("demanded: every chunking gives the histogram of the numpy array")
if failures:
    print(f"observed: {failures} chunking(s) refused / different -> VIOLATION")
    sys.exit(1)
print("observed: all the same")
