"""C04 violation: a far-away value that cannot be accommodated corrupts the histogram.

fill / fill_n enlarge the (shared, mutable) binning first and allocate the new arrays
afterwards.  When the allocation is refused (MemoryError / ValueError), the binning stays
enlarged while frequencies keep the old layout: the earlier contents are detached from
their intervals, the bins cannot be evaluated any more and even values inside the old bins
are refused from then on.
"""
import sys

import numpy as np

import physt

failures = []


def state(h):
    try:
        bins = np.asarray(h.numpy_bins if h.ndim == 1 else h.edges[0])
        bins_text = f"{len(bins) - 1} bins from {float(bins[0])} to {float(bins[-1])}"
    except Exception as exc:  # noqa: BLE001
        bins_text = f"bins cannot be evaluated ({type(exc).__name__})"
    return f"shape={h.shape}, frequencies.shape={h.frequencies.shape}, total={h.total}, {bins_text}"


def scenario(label, h, far_call, near_call, entered):
    print(f"{label}\n    before : {state(h)}")
    try:
        far_call(h)
        print("    far-away value accepted")
    except Exception as exc:  # noqa: BLE001
        print(f"    far-away value refused with {type(exc).__name__} (a refusal alone would be acceptable)")
    print(f"    after  : {state(h)}")
    problems = []
    if tuple(h.shape) != tuple(h.frequencies.shape):
        problems.append(f"shape {h.shape} != frequencies.shape {h.frequencies.shape}")
    try:
        _ = h.bins
    except Exception as exc:  # noqa: BLE001
        problems.append(f"h.bins raises {type(exc).__name__}: earlier contents are detached from their intervals")
    try:
        near_call(h)
        entered += 1
    except Exception as exc:  # noqa: BLE001
        problems.append(f"a value inside the previous bins is now refused ({type(exc).__name__})")
    if h.total != entered:
        problems.append(f"total {h.total} != {entered}")
    print(f"    demanded: histogram unchanged and usable after the refusal; observed problems: {problems or 'none'}")
    failures.extend(f"{label}: {p}" for p in problems)


scenario(
    "1D fill(1e18), width 1, pre-filled [1.5, 2.5]",
    physt.h1([1.5, 2.5], "fixed_width", bin_width=1, adaptive=True),
    lambda h: h.fill(1e18),
    lambda h: h.fill(2.5),
    entered=2,
)
scenario(
    "1D fill_n([-3e15]), width 0.001, pre-filled [1.5, 2.5]",
    physt.h1([1.5, 2.5], "fixed_width", bin_width=0.001, adaptive=True),
    lambda h: h.fill_n([-3e15]),
    lambda h: h.fill_n([2.5]),
    entered=2,
)
scenario(
    "2D fill([1e18, 0.5]), width 1, pre-filled",
    physt.h2([1.5, 2.5], [0.5, 0.5], "fixed_width", bin_width=1, adaptive=True),
    lambda h: h.fill([1e18, 0.5]),
    lambda h: h.fill([2.5, 0.5]),
    entered=2,
)

if failures:
    print("\nVIOLATIONS:")
    for f in failures:
        print(" -", f)
    sys.exit(1)
print("no violation")
