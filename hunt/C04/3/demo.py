"""C04 violation: a float32 / float16 numpy scalar as `bin_shift` (or `min`) loses values.

The bins are evaluated in double precision, but the code that decides which bins have to
exist adds the shift in the shift's own (single / half) precision.  Values between the two
versions of an edge are left outside the bins and end up in underflow.
"""
import sys

import numpy as np

import physt

failures = []


def report(label, h, values):
    values = np.asarray(values, dtype=float)
    edges = h.numpy_bins
    inside = bool(values.min() >= edges[0] and values.max() < edges[-1])
    print(f"{label}:")
    shown = edges.tolist() if len(edges) <= 6 else f"{len(edges) - 1} bins from {float(edges[0])!r} to {float(edges[-1])!r}"
    print(f"    bins {shown}; lowest / highest value {float(values.min())!r} / {float(values.max())!r}")
    print(
        f"    all values inside the bins: {inside} (demanded True); total={h.total} (demanded {len(values)}); "
        f"underflow={h.underflow}, overflow={h.overflow} (demanded 0, 0)"
    )
    if not inside or h.total != len(values) or h.underflow != 0 or h.overflow != 0:
        failures.append(f"{label}: inside={inside}, total={h.total}/{len(values)}, underflow={h.underflow}, overflow={h.overflow}")


shift = np.float32(0.1)  # e.g. taken from float32 data: shift = data32.min()

# 1) adaptive, started empty, one fill()
h = physt.h1(None, "fixed_width", bin_width=1.0, bin_shift=shift, adaptive=True)
h.fill(1000.1)
report("adaptive, empty, bin_shift=float32(0.1), fill(1000.1)", h, [1000.1])

# 2) adaptive, pre-filled, bins must grow
h = physt.h1([1010.5, 1011.5], "fixed_width", bin_width=1.0, bin_shift=shift, adaptive=True)
h.fill(1000.1)
report("adaptive, pre-filled [1010.5, 1011.5], fill(1000.1)", h, [1010.5, 1011.5, 1000.1])

# 3) non-adaptive fixed_width binning derived from the data
data = np.array([1000.1, 1000.2, 1003.7])
h = physt.h1(data, "fixed_width", bin_width=1.0, bin_shift=shift)
report("non-adaptive fixed_width derived from data [1000.1, 1000.2, 1003.7]", h, data)

# 4) 2D, fill_n
h = physt.h2(None, None, "fixed_width", bin_width=1.0, bin_shift=shift, adaptive=True)
h.fill([1000.1, 123456.1])
print(f"2D adaptive fill([1000.1, 123456.1]): total={h.total} (demanded 1), missed={h.missed} (demanded 0)")
if h.total != 1 or h.missed != 0:
    failures.append(f"2D: total={h.total}, missed={h.missed}")

# 5) half precision makes it visible for nearly every value
h = physt.h1(None, "fixed_width", bin_width=0.1, bin_shift=np.float16(0.1), adaptive=True)
values = [-34.228, 6.846, 32.19]
h.fill_n(values)
report("adaptive, bin_shift=float16(0.1), fill_n([-34.228, 6.846, 32.19])", h, values)

# reference: the same shift as a python float / float64 is fine
h = physt.h1(None, "fixed_width", bin_width=1.0, bin_shift=float(shift), adaptive=True)
h.fill(1000.1)
print(f"(reference) bin_shift=float(np.float32(0.1)): bins {h.numpy_bins.tolist()}, total={h.total}, underflow={h.underflow}")

if failures:
    print("\nVIOLATIONS:")
    for f in failures:
        print(" -", f)
    sys.exit(1)
print("no violation")
