"""C04 violation: histograms of a HistogramCollection share ONE adaptive binning object.

When one member grows its bins, the other members keep their old frequency arrays:
their earlier contents silently move to other intervals, and later fills are
double-booked / fail.
"""
import sys

import numpy as np

import physt

col = physt.collection(
    {"a": [1.5, 2.5, 3.5], "b": [2.5, 2.6]},
    "fixed_width",
    bin_width=1.0,
    adaptive=True,
)
a, b = col["a"], col["b"]


def content_at(h, value):
    """Content of the bin of `h` whose interval contains `value` (public accessors only)."""
    for (left, right), freq in zip(h.bins, h.frequencies):
        if left <= value < right:
            return freq
    return None


print("before: bins of b     ", b.numpy_bins, " frequencies of b", b.frequencies)
print("        b has", content_at(b, 2.5), "entries in the bin containing 2.5 (demanded: 2)")
assert content_at(b, 2.5) == 2

# Fill the *other* histogram with a value left of the current bins => the bins grow by one.
a.fill(0.5)

failures = []
print("after a.fill(0.5):")
print("        bins of b     ", b.numpy_bins, " frequencies of b", b.frequencies)

# clause: the histogram stays consistent (one content per bin)
if b.frequencies.shape != (b.bins.shape[0],):
    failures.append(
        f"b has {b.bins.shape[0]} bins but {b.frequencies.shape[0]} contents (demanded: equal)"
    )

# clause: contents recorded earlier stay attached to the same interval
got = content_at(b, 2.5)
print("        b has", got, "entries in the bin containing 2.5 (demanded: still 2)")
if got != 2:
    failures.append(
        f"the 2 entries of b recorded in [2, 3) are now reported for another interval "
        f"(bin containing 2.5 holds {got})"
    )

# clause: result equals a fixed-bin histogram of the same data over the final bins
b.fill(2.5)  # accepted without any complaint
reference, _ = np.histogram([2.5, 2.6, 2.5], bins=b.numpy_bins)
print("after b.fill(2.5): frequencies of b", b.frequencies, " demanded (np.histogram over b's bins)", reference)
if b.frequencies.shape != reference.shape or not np.array_equal(b.frequencies, reference):
    failures.append(
        f"b.frequencies={b.frequencies.tolist()} differ from the fixed-bin histogram "
        f"{reference.tolist()} of b's data over b's bins {b.numpy_bins.tolist()}"
    )

# growing by more than the size of b's array makes b unusable
a.fill(-5.5)
try:
    b.fill(2.5)
except Exception as exc:  # noqa: BLE001
    print("after a.fill(-5.5): b.fill(2.5) raises", type(exc).__name__, exc)
    failures.append(f"b.fill(2.5) of a value inside the bins raises {type(exc).__name__}")

if failures:
    print("\nVIOLATIONS:")
    for f in failures:
        print(" -", f)
    sys.exit(1)
print("no violation")
