"""C04 violation: HistogramND.fill_n casts the batch's bin sums to the dtype of the weights.

With weights of a narrow element type (int8, uint8, int16, float16, ...) the per-bin sums
wrap around / overflow, so `total` differs from the weight entered and `missed` is not zero,
although every value got its own adaptive bin.
"""
import sys

import numpy as np

import physt

failures = []


def run(label, histogram, values, weights):
    histogram.fill_n(values, weights=weights)
    entered = float(np.sum(np.asarray(weights, dtype=float)))
    print(
        f"{label}: dtype={histogram.dtype}, frequencies={histogram.frequencies.tolist()}, "
        f"total={histogram.total} (demanded {entered}), missed={histogram.missed} (demanded 0)"
    )
    if not (histogram.total == entered and histogram.missed == 0):
        failures.append(f"{label}: total={histogram.total}, missed={histogram.missed}, entered weight={entered}")


points = [[0.5, 0.5], [0.6, 0.6]]  # both in the bin [0, 1) x [0, 1)

# 2D, started empty, int8 weights: 100 + 100 = 200 does not fit into int8
run("2D empty, int8 weights  ", physt.h2(None, None, "fixed_width", bin_width=1, adaptive=True),
    points, np.array([100, 100], dtype=np.int8))

# 2D, started empty, uint8 weights
run("2D empty, uint8 weights ", physt.h2(None, None, "fixed_width", bin_width=1, adaptive=True),
    points, np.array([200, 100], dtype=np.uint8))

# 3D, pre-filled, int16 weights, bins have to grow
h3 = physt.h3(np.array([[0.5, 0.5, 0.5]]), "fixed_width", bin_width=1, adaptive=True)
h3.fill_n([[5.5, -2.5, 0.5], [5.6, -2.4, 0.6]], weights=np.array([30000, 30000], dtype=np.int16))
entered = 1 + 60000
print(f"3D pre-filled, int16 weights: total={h3.total} (demanded {entered}), missed={h3.missed} (demanded 0)")
if not (h3.total == entered and h3.missed == 0):
    failures.append(f"3D int16: total={h3.total}, missed={h3.missed}, entered weight={entered}")

# 2D, float16 weights: 40000 + 40000 overflows float16 (max 65504) although the histogram is float64
run("2D empty, float16 weights", physt.h2(None, None, "fixed_width", bin_width=1, adaptive=True),
    points, np.array([40000, 40000], dtype=np.float16))

# For comparison: the same weights entered one by one through fill() are fine
h = physt.h2(None, None, "fixed_width", bin_width=1, adaptive=True)
for p, w in zip(points, np.array([100, 100], dtype=np.int8)):
    h.fill(p, w)
print(f"(reference) same int8 weights through fill(): total={h.total}, missed={h.missed}")

if failures:
    print("\nVIOLATIONS:")
    for f in failures:
        print(" -", f)
    sys.exit(1)
print("no violation")
