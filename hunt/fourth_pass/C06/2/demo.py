"""C06: multiplying a histogram by a finite non-zero numpy integer scalar must scale it (and commute).

An ordinary int64 histogram (default for unweighted data) times np.uint64(2) does not scale the
histogram but crashes with an internal "Invalid integer data type 'f'" ValueError, while
h / np.uint64(2), h * np.uint32(2), h * np.int64(2) and h * 2 all work; a float histogram
times np.uint64(2) works as well.
"""
import sys
import warnings

import numpy as np

from physt import h1, h2

warnings.simplefilter("ignore")

rng = np.random.default_rng(0)
x = rng.normal(size=100)
histograms = {
    "1D int64": h1(x, bins=np.linspace(-1, 1, 5)),
    "1D int32": h1(x, bins=np.linspace(-1, 1, 5), dtype=np.int32),
    "2D int64": h2(x, x[::-1], bins=[np.linspace(-1, 1, 3), np.linspace(-1, 1, 4)]),
}
bad = False
for name, h in histograms.items():
    c = np.uint64(2)
    reference = h * 2  # the python int of the same value
    for label, operation in (
        ("h * c", lambda: h * c),
        ("c * h", lambda: c * h),
        ("h *= c", lambda: h.copy().__imul__(c)),
    ):
        try:
            result = operation()
        except Exception as exc:  # noqa
            print(f"{name}: {label} with c = np.uint64(2): observed {type(exc).__name__}: {exc}")
            print(f"     demanded: contents {reference.frequencies.tolist()}, missed {reference._missed.tolist() if hasattr(reference, '_missed') else ''}")
            bad = True
            continue
        ok = (
            np.array_equal(result.frequencies, reference.frequencies)
            and np.array_equal(result.errors2, reference.errors2)
            and np.isclose(result.missed, reference.missed)
        )
        print(f"{name}: {label} with c = np.uint64(2): contents {result.frequencies.tolist()} {'ok' if ok else 'WRONG'}")
        bad = bad or not ok
    # what does work (same value, other spellings)
    print(f"{name}: h / np.uint64(2) -> {(h / c).frequencies.tolist()}")
    print(f"{name}: h * np.uint32(2) -> {(h * np.uint32(2)).frequencies.tolist()}")

if bad:
    print("VIOLATION: a finite non-zero numpy integer scalar is not accepted as a factor (internal error), c*h == h*c cannot be evaluated")
    sys.exit(1)
print("no violation observed")
