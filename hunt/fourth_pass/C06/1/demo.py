"""C06: scaling by an integer must multiply every squared error by c*c and (h*c)/c must reproduce h.

A histogram with a million unit entries in one bin (integer contents, the default of h1 for
unweighted data) is multiplied by the integer 5_000_000.  Contents and factor are ordinary
numbers (far below 2**53, their product 5e12 as well), but the squared error e2*c*c = 2.5e19
does not fit int64: it wraps around to a positive garbage value without any warning.
"""
import sys
import warnings

import numpy as np

from physt import h1

warnings.simplefilter("ignore")

h = h1(np.full(1_000_000, 0.5), bins=np.array([0.0, 1.0, 2.0]))
print("h.frequencies =", h.frequencies.tolist(), " h.errors2 =", h.errors2.tolist(), " dtype =", h.dtype)

bad = False
for c in (5_000_000, np.int64(5_000_000), np.int32(5_000_000)):
    for label, scaled in (("h * c", h * c), ("c * h", c * h)):
        expected_e2 = [float(int(e) * int(c) ** 2) for e in h.errors2.tolist()]
        expected_f = [float(int(f) * int(c)) for f in h.frequencies.tolist()]
        got_e2 = [float(e) for e in scaled.errors2.tolist()]
        got_f = [float(f) for f in scaled.frequencies.tolist()]
        ok_f = np.allclose(got_f, expected_f, rtol=1e-12, atol=0)
        ok_e2 = np.allclose(got_e2, expected_e2, rtol=1e-12, atol=0)
        print(f"{label} with c = {c!r} ({type(c).__name__}), result dtype {scaled.dtype}")
        print(f"   contents      : observed {scaled.frequencies.tolist()}  demanded {expected_f}  {'ok' if ok_f else 'WRONG'}")
        print(f"   squared errors: observed {scaled.errors2.tolist()}  demanded {expected_e2}  {'ok' if ok_e2 else 'WRONG'}")
        back = scaled / c
        ok_back = np.allclose(back.errors2, h.errors2, rtol=1e-12, atol=0) and np.allclose(
            back.frequencies, h.frequencies, rtol=1e-12, atol=0
        )
        print(f"   (h*c)/c       : errors2 observed {back.errors2.tolist()}  demanded {h.errors2.tolist()}  {'ok' if ok_back else 'WRONG'}")
        bad = bad or not (ok_f and ok_e2 and ok_back)

# The float factor of the same value is handled correctly (shows what the answer should be)
reference = h * 5_000_000.0
print("h * 5e6 (float) : errors2", reference.errors2.tolist())

if bad:
    print("VIOLATION: squared errors are not multiplied by c*c (silent int64 wrap-around); (h*c)/c != h")
    sys.exit(1)
print("no violation observed")
