"""C18: an operation that raises must leave contents, squared errors and missed counts untouched.

Histogram1D.fill_n() adds the new batch to the bins first and only then writes the
underflow / overflow counters through their checked setters.  When the histogram
carries a negative underflow or overflow (the result of a subtraction made while
free arithmetics was enabled), that setter refuses -> fill_n raises ValueError, but
the bin contents, the squared errors (and possibly the underflow) have been changed already.
"""
import sys
import warnings

import numpy as np

from physt import h1
from physt.config import config

warnings.simplefilter("ignore")

bins = [0.0, 1.0, 2.0, 3.0]
a = h1([0.5, 1.5, 1.6, 2.5, 7.0], bins)              # overflow 1
b = h1([0.5, 7.0, 8.0, 9.0, -4.0], bins)             # overflow 3, underflow 1

with config.enable_free_arithmetics():
    d = a - b                                         # legal here: overflow -2, underflow -1
assert not config.free_arithmetics                    # ... and switched off again

def state(h):
    return (h.frequencies.tolist(), h.errors2.tolist(), np.asarray(h._missed, dtype=float).tolist())

print("histogram d = a - b (made under free arithmetics):")
print("  frequencies, errors2, (underflow, overflow, inner_missed) =", state(d))

failures = 0
for label, call in [
    ("d.fill_n([1.2, 1.7, 2.2])            (all values inside the bins)", lambda h: h.fill_n([1.2, 1.7, 2.2])),
    ("d.fill_n([1.2, 2.2], weights=[.5, 2]) (weighted, inside the bins)", lambda h: h.fill_n([1.2, 2.2], weights=[0.5, 2.0])),
    ("d.fill_n([-9.0, 1.2])                 (one value below the bins)", lambda h: h.fill_n([-9.0, 1.2])),
]:
    h = d.copy()
    before = state(h)
    try:
        call(h)
        raised = None
    except Exception as exc:  # noqa: BLE001
        raised = exc
    after = state(h)
    print()
    print(label)
    print("  raised   :", repr(raised))
    print("  before   :", before)
    print("  after    :", after)
    if raised is not None:
        print("  demanded : identical state after an operation that raised")
        if before != after:
            print("  VIOLATION: the call failed, yet bin contents / squared errors / missed counts changed")
            failures += 1

# The scalar variant is atomic (for comparison): fill() of an underflowing value is refused with nothing changed
h = d.copy(); before = state(h)
try:
    h.fill(-9.0, weight=0.25)
except ValueError:
    pass
print()
print("for comparison, failing d.fill(-9.0, weight=.25) leaves contents and missed counts alone:", state(h)[0] == before[0] and state(h)[2] == before[2])

sys.exit(1 if failures else 0)
