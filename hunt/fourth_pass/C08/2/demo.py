"""C08: "... identical per-axis binning types and bit-identical edges ..."

Bin edges given as a float32 (or int32 / int16) array are kept by the library in that type.
After parse_json(h.to_json()) the edges are float64 (int64) arrays: the numbers are equal, the
arrays are not bit-identical (other element type, other bytes).
"""
import sys

import numpy as np

from physt import h1, h2
from physt.binnings import NumpyBinning, StaticBinning
from physt.io import parse_json
from physt.types import Histogram1D

values = np.array([0.05, 0.15, 0.15, 0.3, 0.45])
edges32 = np.array([0, 0.1, 0.2, 0.5], dtype=np.float32)

cases = {
    "h1(values, float32 edges)": h1(values, edges32),
    "Histogram1D(float32 edges, contents)": Histogram1D(edges32, [1, 2, 2]),
    "Histogram1D(NumpyBinning(float32 edges))": Histogram1D(NumpyBinning(edges32), [1, 2, 2]),
    "h1(values, 3, range=(float32, float32))": h1(values, 3, range=(np.float32(0.0), np.float32(0.5))),
    "h1(values, int32 edges)": h1(values * 10, np.array([0, 1, 2, 5], dtype=np.int32)),
    "h2(x, y, [float32 edges, 2])": h2(values, values, [edges32, 2]),
}

failures = 0
for label, histogram in cases.items():
    parsed = parse_json(histogram.to_json())
    print(f"{label}:   parsed == original: {parsed == histogram}")
    for axis, (before, after) in enumerate(zip(histogram.binnings, parsed.binnings)):
        same_type = type(before) is type(after)
        identical = (
            before.bins.dtype == after.bins.dtype
            and before.bins.tobytes() == after.bins.tobytes()
            and before.numpy_bins.dtype == after.numpy_bins.dtype
            and before.numpy_bins.tobytes() == after.numpy_bins.tobytes()
        )
        print(
            f"   axis {axis}: {type(before).__name__} -> {type(after).__name__}, "
            f"edges {before.numpy_bins.dtype} ({before.numpy_bins.nbytes} bytes) -> "
            f"{after.numpy_bins.dtype} ({after.numpy_bins.nbytes} bytes), "
            f"bit-identical: {identical}   (demanded: True)"
        )
        if not (same_type and identical):
            failures += 1

if failures:
    print(f"\nVIOLATION: the edges of {failures} axes are not bit-identical after the JSON round trip.")
    sys.exit(1)
print("\nOK: all edges are bit-identical.")
