"""C08: "Serialising the parsed object again gives the same document."

Ordinary histograms are written to a JSON document, the document is parsed, and the parsed
object is written again: the second document is not the text of the first one (the entries
of "meta_data" change places).

Cases 1-3 are deterministic.  The sums (cases 4-6) depend on the iteration order of a set of
strings (PYTHONHASHSEED): they show the defect in about two of three interpreter runs.
"""
import sys
import warnings

import numpy as np

from physt import h1, h2
from physt.io import parse_json
from physt.types import Histogram1D

warnings.simplefilter("ignore")

data = np.random.default_rng(0).normal(size=100)

# 1. a custom entry added to the meta data of a finished histogram
tagged = h1(data, 5, name="a")
tagged.meta_data["run"] = 7

# 2. the title set after the construction
titled = Histogram1D([0, 1, 2], [3, 4], name="a")
titled.title = "A title"

# 3. the same in 2D
grid = h2(data, data[::-1], 3, axis_names=("x", "y"))
grid.meta_data["source"] = {"file": "a.csv", "rows": [1, 2]}

a = h1(data, 5, name="a")
b = h1(data + 0.1, a.binning, name="b")

cases = {
    "1. h.meta_data['run'] = 7": (tagged, True),
    "2. h.title = 'A title'": (titled, True),
    "3. h2: h.meta_data['source'] = {...}": (grid, True),
    "4. a + b": (a + b, False),
    "5. a - 0.5 * a": (a - 0.5 * a, False),
    "6. h2 + h2": (grid + grid, False),
}

failures = 0
for label, (histogram, deterministic) in cases.items():
    first = histogram.to_json()
    parsed = parse_json(first)
    second = parsed.to_json()
    same = first == second
    print(f"{label}:")
    print(f"   parsed == original                  : {parsed == histogram}   (demanded: True)")
    print(f"   parse_json(doc).to_json() == doc     : {same}   (demanded: True)")
    if not same:
        failures += 1
        print("   entries of meta_data in the first document :", list(histogram.meta_data))
        print("   entries of meta_data in the second document:", list(parsed.meta_data))

if failures:
    print(f"\nVIOLATION: {failures} of {len(cases)} histograms are not written again as the same document.")
    sys.exit(1)
print("\nOK: every document is reproduced.")
