"""C13: "requesting an integer histogram with float weights is refused".

Four of the seven special-histogram facades (azimuthal, radial, spherical,
cylindrical_surface) accept such a request and silently hand back a float64
histogram; the same facades also ignore any other requested dtype
(dtype=float32 / int32 -> int64).  The three sister facades (polar,
spherical_surface, cylindrical) and h1 / h2 / h3 / h refuse, as the statement demands.
"""
import sys
import warnings

import numpy as np

import physt
from physt import special_histograms as sp

warnings.simplefilter("ignore")

rng = np.random.default_rng(1)
pts3 = rng.random((8, 3))
x, y = pts3[:, 0], pts3[:, 1]
weights = np.linspace(0.25, 2.0, 8)  # genuinely fractional float weights

facades = {
    # reference points that behave as the statement says
    "h1": lambda **k: physt.h1(x, 4, **k),
    "h2": lambda **k: physt.h2(x, y, 3, **k),
    "polar": lambda **k: sp.polar(x, y, **k),
    "spherical_surface": lambda **k: sp.spherical_surface(pts3, **k),
    "cylindrical": lambda **k: sp.cylindrical(pts3, **k),
    # the ones under test
    "azimuthal": lambda **k: sp.azimuthal(x, y, **k),
    "radial": lambda **k: sp.radial(x, y, **k),
    "spherical": lambda **k: sp.spherical(pts3, **k),
    "cylindrical_surface": lambda **k: sp.cylindrical_surface(pts3, **k),
}

violations = 0
print("request: dtype=<integer>, weights=<float array>   (statement: must be refused)")
for name, make in facades.items():
    for dtype in (np.int64, "int32", np.int16):
        try:
            hist = make(weights=weights, dtype=dtype)
        except ValueError as exc:
            print(f"  {name:20s} dtype={np.dtype(dtype).name:6s} refused ({exc})  -> OK")
        else:
            violations += 1
            print(
                f"  {name:20s} dtype={np.dtype(dtype).name:6s} ACCEPTED, returned dtype={hist.dtype}, "
                f"total={hist.total}  -> VIOLATION (should have been refused)"
            )

print()
print("same root cause: any requested content dtype is dropped (no weights)")
for name in ("azimuthal", "radial", "spherical", "cylindrical_surface", "polar"):
    for dtype in (np.float32, np.int32):
        hist = facades[name](dtype=dtype)
        flag = "OK" if hist.dtype == np.dtype(dtype) else "requested dtype ignored"
        print(f"  {name:20s} dtype={np.dtype(dtype).name:8s} -> histogram dtype {hist.dtype}  ({flag})")

print()
if violations:
    print(f"{violations} integer-histogram-with-float-weights requests were accepted instead of refused")
    sys.exit(1)
print("all requests refused")
