"""C13: "never loses information ... float weights ... promote to float instead of truncating".

The weight recorded outside the bins (underflow / overflow / inner_missed in 1D,
`missed` in ND) is part of the histogram's content: it lives in an array of the
content dtype, `set_dtype` judges it together with the bins ("Data contain
non-integer values"), and `fill(x_outside, weight=0.5)` promotes the whole
histogram to float to keep it.  But handing such a weight to the constructor of an
integer histogram, or assigning it through the public setters, truncates it silently.
"""
import sys
import warnings

import numpy as np

from physt.histogram1d import Histogram1D
from physt.histogram_nd import Histogram2D

warnings.simplefilter("ignore")
bad = 0


def report(label, got, expected_value):
    global bad
    got = float(got)
    ok = got == expected_value
    print(f"  {label:58s} stored {got!r:6}  given {expected_value!r:5}  {'OK' if ok else 'LOST (truncated)'}")
    if not ok:
        bad += 1


print("reference behaviour (what the statement describes):")
ref = Histogram1D([0, 1, 2, 3], [1, 2, 3])
ref.fill(-1.0, weight=0.5)  # a float weight that lands in the underflow
print(f"  fill(-1, weight=0.5) on an int64 histogram -> dtype {ref.dtype}, underflow {ref.underflow!r} (promoted, kept)")
flt = Histogram1D([0, 1, 2, 3], [1.0, 2.0, 3.0], underflow=0.5)
try:
    flt.set_dtype(np.int64)
    print("  set_dtype(int64) with underflow 0.5 accepted ?!")
except ValueError as exc:
    print(f"  set_dtype(int64) with underflow 0.5 -> refused: {exc}")

print()
print("1D constructor, integer contents, fractional weights outside the bins:")
h = Histogram1D([0, 1, 2, 3], [1, 2, 3], underflow=0.5, overflow=2.75, inner_missed=0.25)
print(f"  dtype {h.dtype}, frequencies {h.frequencies.dtype}, _missed {h.to_dict()['missed']}")
report("Histogram1D(..., underflow=0.5).underflow", h.underflow, 0.5)
report("Histogram1D(..., overflow=2.75).overflow", h.overflow, 2.75)
report("Histogram1D(..., inner_missed=0.25).inner_missed", h.inner_missed, 0.25)
report("its .missed (sum of the three)", h.missed, 3.5)

print()
print("ND constructor:")
h2 = Histogram2D([[0, 1, 2], [0, 1, 2]], [[1, 2], [3, 4]], missed=0.5)
print(f"  dtype {h2.dtype}")
report("Histogram2D(..., missed=0.5).missed", h2.missed, 0.5)

print()
print("public setters on an integer histogram:")
for dtype in (np.int16, np.int32, np.int64):
    g = Histogram1D([0, 1, 2, 3], [1, 2, 3], dtype=dtype)
    g.underflow = 0.5
    g.overflow = 1.5
    report(f"{np.dtype(dtype).name}: h.underflow = 0.5", g.underflow, 0.5)
    report(f"{np.dtype(dtype).name}: h.overflow = 1.5", g.overflow, 1.5)
    assert g.dtype == np.dtype(dtype)  # neither promoted ...
# ... nor refused; compare with the NaN marker, for which the setter does widen the counters:
g = Histogram1D([0, 1, 2, 3], [1, 2, 3])
g.underflow = np.nan
print(f"  (h.underflow = nan on int64 is kept: {g.underflow!r} - the counters are widened for it)")

print()
if bad:
    print(f"{bad} float weights were truncated without promotion or refusal")
    sys.exit(1)
print("nothing lost")
