"""C12: a copied HistogramCollection is not a self-contained, well-formed collection.

HistogramCollection.copy() rebuilds the copy through the "from members" constructor,
so the copy's OWN binning is the very binning object of its first member (the original
keeps a binning of its own), and the constructor's "all members share the binning"
check is applied to members that are allowed to have grown.

Only the public API is used.
"""
import sys
import warnings

import physt
from physt.io import parse_json

warnings.simplefilter("ignore")
failures = []


def make():
    # An ordinary adaptive collection (3 bins: [0,1), [1,2), [2,3))
    return physt.collection(
        {"a": [0.5, 1.5, 2.5], "b": [0.5, 0.7]}, "fixed_width", bin_width=1, adaptive=True
    )


def report(col):
    return {
        "collection bins": len(col.bins),
        "member bins": [h.bin_count for h in col],
        "json binning": parse_json(col.to_json()).binning.bin_count,
    }


# --- 1. the same later fill, applied to the original and to its copy -----------------
original = make()
copied = make().copy()
print("before the fill   original:", report(original))
print("before the fill   copy    :", report(copied))

original["a"].fill(10.5)  # adaptive growth of member "a" only
copied["a"].fill(10.5)
r_orig, r_copy = report(original), report(copied)
print("after a.fill(10.5) original:", r_orig)
print("after a.fill(10.5) copy    :", r_copy)
print("   demanded: the copy reports what the original reports (copy() is == / behaves as the original)")
if r_orig != r_copy:
    failures.append("after the same fill the copy reports other bins than the original")

new_orig = original.create("c", [0.5])
new_copy = copied.create("c", [0.5])
print("create('c', [0.5]) -> bins of the new member: original", new_orig.bin_count, "/ copy", new_copy.bin_count)
if new_orig.bin_count != new_copy.bin_count:
    failures.append("create() on the copy books over a member's grown bins, not over the collection's bins")

# --- 2. a longer history: copy -> adaptive growth -> copy / normalize -----------------
history = make().copy()
history["a"].fill(10.5)
for label, operation in [
    ("copy()", lambda: history.copy()),
    ("normalize_all()", lambda: history.normalize_all()),
]:
    try:
        result = operation()
        print(f"copy -> fill -> {label}: ok, members {[h.bin_count for h in result]}")
    except Exception as exc:  # noqa: BLE001
        print(f"copy -> fill -> {label}: raises {exc!r}")
        print("   demanded: the derived collection stays well-formed and can be derived from again")
        print("   (the same state IS accepted by parse_json(col.to_json()):",
              [h.bin_count for h in parse_json(history.to_json())], ")")
        failures.append(f"{label} of a collection whose adaptive member has grown raises")

print()
if failures:
    print("VIOLATIONS:")
    for f in failures:
        print(" -", f)
    sys.exit(1)
print("no violation observed")
