"""C05: the sum adds the missed weights; an adaptive sum loses nothing.

An adaptive histogram h(A) plus a histogram h(B) on the same grid that was told not to
track what it missed (keep_missed=False) and did miss a value.  The library
 * refuses the addition when h(B) tracked the missed value ("Cannot adapt histogram with
   missed values" - the new bins may cover what was missed),
 * reports the missed weight of the sum as unknown (keep_missed=False, NaN) when the
   bins of both operands are equal,
but on the adaptive path it produces a sum that claims to know that NOTHING was missed
(keep_missed=True, underflow = overflow = 0) although a value of B is in no bin and in
no counter: the sum differs from h(A and B together) and says it is complete.
"""
import sys
import warnings

import numpy as np

from physt import h1

warnings.simplefilter("ignore")

A = np.array([0.5, 1.5])
B = np.array([5.5, 6.5, 100.0])  # 100.0 lies outside the bins of h(B)

grid = dict(bins="fixed_width", bin_width=1.0)
h_a = h1(A, adaptive=True, **grid)                                 # bins [0, 2)
h_b = h1(B, range=(5, 7), keep_missed=False, **grid)               # bins [5, 7), 100.0 dropped, not counted
h_b_tracking = h1(B, range=(5, 7), keep_missed=True, **grid)       # the same, 100.0 counted as overflow
reference = h1(np.concatenate([A, B]), adaptive=True, **grid)      # h(A and B together)

print("h(B), keep_missed=False     : contents", h_b.frequencies, "overflow", h_b.overflow)
print("h(B), keep_missed=True      : contents", h_b_tracking.frequencies, "overflow", h_b_tracking.overflow)
print("h(A and B together)         : total", reference.total, "missed", reference.missed)

try:
    h_a + h_b_tracking
    print("h(A) + tracking h(B)        : accepted")
except ValueError as exc:
    print("h(A) + tracking h(B)        : refused -", exc)

# Equal bins: the library's own rule for an operand that does not know what it missed
h_same = h1(np.array([5.2]), range=(5, 7), adaptive=True, **grid)
same_bins_sum = h_same + h_b
print("equal bins + h(B)           : keep_missed", same_bins_sum.keep_missed, "overflow", same_bins_sum.overflow)

# Adaptive path
total = h_a + h_b
print("h(A) + h(B) (adaptive path) : contents", total.frequencies, "bins", total.numpy_bins)
print("                              keep_missed", total.keep_missed,
      "underflow", total.underflow, "overflow", total.overflow, "missed", total.missed)
print("                              total", total.total, "+ missed", total.missed,
      "=", total.total + total.missed, "of", A.size + B.size, "values")

print()
print("The statement demands: the sum carries the missed weights of the operands and equals")
print("h(A and B together); for adaptive histograms nothing is lost.  An operand whose missed")
print("weight is unknown cannot give a sum whose missed weight is known to be 0.")

claims_complete = bool(total.keep_missed) and total.missed == 0 and not np.isnan(total.overflow)
value_gone = total.total + total.missed != A.size + B.size
if claims_complete and value_gone:
    print("VIOLATED: the value 100.0 of B is in no bin and in no counter of the sum, and the sum")
    print("          reports overflow = 0 as a known number (keep_missed=True).")
    sys.exit(1)
print("no violation observed")
