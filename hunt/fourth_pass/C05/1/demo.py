"""C05: sum() over a collection / a partition of the data gives the same histogram.

The sum of an EMPTY HistogramCollection is the neutral element of the addition (the
histogram of no data over the collection's bins).  The object that
HistogramCollection.sum() hands out for it cannot be added to any histogram with the
very same bins: `+` and the builtin sum() die with an unrelated ValueError, although
the bins are equal (and `+=` of the same two operands works).
"""
import sys
import warnings

import numpy as np

from physt import h1
from physt.binnings import NumpyBinning
from physt.histogram_collection import HistogramCollection

warnings.simplefilter("ignore")

edges = np.array([0.0, 1.0, 2.0, 3.0])
data = np.array([0.5, 1.5, 1.7, 2.2])

# A data set partitioned into two collections over the same bins; one part got no data set at all
part1 = HistogramCollection(binning=NumpyBinning(edges))
part2 = HistogramCollection(binning=NumpyBinning(edges))
part2.create("run-1", data[:2])
part2.create("run-2", data[2:])

empty_sum = part1.sum()
full_sum = part2.sum()
reference = h1(data, bins=edges)

print("sum of the empty collection :", empty_sum, "bins", empty_sum.numpy_bins)
print("sum of the other collection :", full_sum, "bins", full_sum.numpy_bins)
print("same bins?                  :", empty_sum.has_same_bins(full_sum))
print("meta data of the empty sum  :", empty_sum.meta_data)

failures = []


def attempt(label, operation):
    try:
        result = operation()
    except Exception as exc:  # noqa: BLE001
        print(f"{label:32s}: raised {type(exc).__name__}: {exc}")
        failures.append(label)
        return
    ok = (
        np.array_equal(result.frequencies, reference.frequencies)
        and np.array_equal(result.errors2, reference.errors2)
        and np.array_equal(result.numpy_bins, reference.numpy_bins)
    )
    print(f"{label:32s}: {result.frequencies} (demanded {reference.frequencies}) {'ok' if ok else 'WRONG'}")
    if not ok:
        failures.append(label)


attempt("empty_sum + full_sum", lambda: empty_sum + full_sum)
attempt("full_sum + empty_sum", lambda: full_sum + empty_sum)
attempt("sum([empty_sum, full_sum])", lambda: sum([empty_sum, full_sum]))
attempt("sum(c.sum() for c in parts)", lambda: sum(c.sum() for c in (part2, part1)))


def in_place():
    target = empty_sum.copy()
    target += full_sum  # the same operands: accepted, the bins ARE compatible
    return target


attempt("copy of empty_sum += full_sum", in_place)

try:
    empty_sum.to_json()
    print("empty_sum.to_json()             : ok")
except Exception as exc:  # noqa: BLE001
    print(f"empty_sum.to_json()             : raised {type(exc).__name__}: {exc}")

print()
print("The statement demands: histograms with equal bins are added (contents, errors, missed,")
print("statistics), and sum() over any collection / partition gives the histogram of all data.")
if failures:
    print("VIOLATED for:", ", ".join(failures))
    sys.exit(1)
print("no violation observed")
