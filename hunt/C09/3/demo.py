"""C09: "contents and squared errors are the sums over all dropped axes ... its total equals
the parent's total ... Projecting in steps equals projecting once ... accumulate gives
cumulative sums" - scope "any contents/errors".

For histograms whose dtype is float32 / float16 (both in HistogramBase.SUPPORTED_DTYPES;
float32 is what you get automatically from float32 weights) the marginal is accumulated in
that narrow type. Entries are silently lost although the exact marginal IS representable
in the dtype, the projection's total differs from the parent's total, chains differ from
the one-step projection and finite contents give an infinite marginal. Narrow *integer*
contents do not suffer from this (numpy widens them to int64) - see the control.
"""
import sys
import warnings

import numpy as np

import physt
from physt.types import Histogram2D, HistogramND

warnings.simplefilter("ignore")
failures = 0


def report(label, observed, demanded, ok):
    global failures
    print(f"{label}\n     observed: {observed}\n     demanded: {demanded}" + ("" if ok else "\n     -> VIOLATION"))
    if not ok:
        failures += 1


# ---- 1) float32 histogram created by the facade from float32 weights ----------------
x = np.array([0.5] * 5 + [1.5] * 5)
y = np.array([0.5, 1.5, 2.5, 3.5, 4.5] * 2)
w = np.array([2**24, 1, 1, 1, 1, 4, 4, 4, 4, 4], dtype=np.float32)
bins = [np.array([0.0, 1.0, 2.0]), np.arange(6.0)]
H = physt.h2(x, y, bins, weights=w, axis_names=["a", "b"])
P = H.projection("a")
exact = H.frequencies.astype(np.float64).sum(axis=1)
print("parent dtype:", H.dtype, " contents:\n", H.frequencies)
report(
    "1a) projection('a') contents (float32 parent)",
    P.frequencies.tolist(),
    f"{exact.tolist()}  (exactly representable in float32: {bool((exact.astype(np.float32) == exact).all())})",
    np.array_equal(P.frequencies, exact),
)
report("1b) total of the projection vs total of the parent", P.total, H.total, P.total == H.total)

# ---- 2) float16: a chain of projections differs from the one-step projection ----------
f = np.zeros((2, 5, 2), dtype=np.float16)
f[0, :, 0] = [2048, 1, 1, 1, 1]
f[0, :, 1] = 1
f[1] = 4
H3 = HistogramND([np.arange(3.0), np.arange(6.0), np.arange(3.0)], f, axis_names=list("abc"))
once = H3.projection("a")
steps = H3.projection("a", "c").projection("a")
report(
    "2) float16 3D: projection('a','c').projection('a') vs projection('a')",
    f"{steps.frequencies.tolist()} vs {once.frequencies.tolist()}  (== gives {steps == once})",
    f"equal, and both {f.astype(np.float64).sum(axis=(1, 2)).tolist()} up to the resolution of float16 (2056 or 2058)",
    bool(steps == once),
)

# ---- 3) float16: finite contents, infinite marginal / running sum ---------------------
g = np.array([[40000.0, 40000.0], [1.0, 1.0]], dtype=np.float16)
H2 = Histogram2D([np.arange(3.0), np.arange(3.0)], g)
p0 = H2.projection(0)
acc = H2.accumulate(1)
report("3a) float16 contents [[40000, 40000], [1, 1]]: projection(0)", p0.frequencies.tolist(), [80000.0, 2.0], bool(np.isfinite(p0.frequencies).all()))
report("3b) same histogram: accumulate(1)", acc.frequencies.tolist(), [[40000.0, 80000.0], [1.0, 2.0]], bool(np.isfinite(acc.frequencies).all()))

# ---- control: narrow integers are widened -------------------------------------------
I = Histogram2D([np.arange(3.0), np.arange(3.0)], np.array([[30000, 30000], [1, 1]], dtype=np.int16))
report("control) int16 contents [[30000, 30000], [1, 1]]: projection(0)", f"{I.projection(0).frequencies.tolist()} ({I.projection(0).dtype})", [60000, 2], I.projection(0).frequencies.tolist() == [60000, 2])

print(f"\n{failures} violation(s)")
sys.exit(1 if failures else 0)
