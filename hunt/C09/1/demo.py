"""C09: a projection must equal the histogram built directly from the kept column
whenever no row missed the DROPPED axes' bins.

It does not when the kept axis has a half-open last bin (includes_right_edge=False,
the default of every fixed-width / pretty / integer binning) and a value sits
exactly on the last edge: the ND histogram (and hence its marginal) leaves the value
out, the directly built 1D histogram puts it into the last bin.
"""
import sys

import numpy as np

import physt
from physt.binnings import FixedWidthBinning, NumpyBinning, StaticBinning

failures = 0

data = np.array(
    [
        [0.5, 0.5],
        [1.5, 0.5],
        [2.5, 1.5],
        [3.0, 1.5],  # x sits exactly on the last x edge; y = 1.5 is well inside the y bins
    ]
)

# ---- 1) through the facades ------------------------------------------------------
H = physt.h(data, "fixed_width", bin_width=1.0, range=[(0, 3), (0, 2)], axis_names=["x", "y"])
D = physt.h1(data[:, 0], "fixed_width", bin_width=1.0, range=(0, 3), axis_name="x")
P = H.projection("x")

y_edges = H.get_bin_edges("y")
rows_missing_y = int(((data[:, 1] < y_edges[0]) | (data[:, 1] >= y_edges[-1])).sum())
print("x edges                      :", H.get_bin_edges("x"), " y edges:", y_edges)
print("x binning closes last bin?   :", H.binnings[0].includes_right_edge, "(1D:", D.binning.includes_right_edge, ")")
print("rows that missed the DROPPED axis (y):", rows_missing_y, " -> the statement's condition holds")
print("same bins in both histograms :", np.array_equal(P.bins, D.bins))
print("projection('x') contents     :", P.frequencies, " (parent missed =", H.missed, ")")
print("h1 of the x column, contents :", D.frequencies, " (overflow =", D.overflow, ")")
print("demanded                     : identical contents")
if not np.array_equal(P.frequencies, D.frequencies):
    print("  -> VIOLATION: marginal != directly built histogram\n")
    failures += 1

# ---- 2) same thing with explicit binning objects of every class --------------------
cases = {
    "FixedWidthBinning": lambda: FixedWidthBinning(bin_width=1.0, bin_count=3, min=0.0),
    "NumpyBinning(includes_right_edge=False)": lambda: NumpyBinning([0.0, 1.0, 2.0, 3.0], includes_right_edge=False),
    "StaticBinning(includes_right_edge=False)": lambda: StaticBinning([[0, 1], [1, 2], [2, 3]], includes_right_edge=False),
    "NumpyBinning(includes_right_edge=True) [control]": lambda: NumpyBinning([0.0, 1.0, 2.0, 3.0], includes_right_edge=True),
}
for label, make in cases.items():
    Hn = physt.h(data, [make(), NumpyBinning([0.0, 1.0, 2.0])], axis_names=["x", "y"])
    Dn = physt.h1(data[:, 0], make(), axis_name="x")
    Pn = Hn.projection(0)
    same = np.array_equal(Pn.frequencies, Dn.frequencies)
    print(f"{label:50s} projection {Pn.frequencies}  direct {Dn.frequencies}  equal: {same}")
    if not same:
        failures += 1

# ---- 3) and with incremental filling ---------------------------------------------
He = physt.h(None, [FixedWidthBinning(bin_width=1.0, bin_count=3, min=0.0), NumpyBinning([0.0, 1.0, 2.0])], dim=2)
De = physt.h1(None, FixedWidthBinning(bin_width=1.0, bin_count=3, min=0.0))
for row in data:
    He.fill(row)
    De.fill(row[0])
print("\nfilled one by one: projection", He.projection(0).frequencies, " direct", De.frequencies)
print("find_bin(3.0): ND axis 0 ->", He.find_bin(3.0, axis=0), "  1D ->", De.find_bin(3.0))
if not np.array_equal(He.projection(0).frequencies, De.frequencies):
    failures += 1

print(f"\n{failures} mismatching comparison(s)")
sys.exit(1 if failures else 0)
