"""C09: "Projecting in steps equals projecting once onto the final axes."

For the transformed ND histograms (cylindrical / spherical) this fails whenever the
intermediate projection is one for which no special class exists - (rho, z), (r, theta),
(r, phi): the intermediate result is a plain Histogram2D that has forgotten that its
first axis is a radius, so the second step yields a plain Histogram1D, while the one-step
projection yields a RadialHistogram. The two results compare unequal and report different
bin sizes / densities for the very same marginal.
"""
import sys

import numpy as np

import physt

rng = np.random.default_rng(42)
data = rng.normal(size=(2000, 3))

failures = 0
cases = [
    ("cylindrical", physt.cylindrical(data), ("rho", "z"), "rho"),
    ("spherical", physt.spherical(data), ("r", "theta"), "r"),
    ("spherical", physt.spherical(data), ("r", "phi"), "r"),
    # controls: chains that go through classes that do exist
    ("cylindrical [control]", physt.cylindrical(data), ("rho", "phi"), "rho"),
    ("cylindrical [control]", physt.cylindrical(data), ("phi", "z"), "phi"),
]
for label, H, first, final in cases:
    step = H.projection(*first)
    in_steps = step.projection(final)
    at_once = H.projection(final)
    same_contents = np.array_equal(in_steps.frequencies, at_once.frequencies)
    eq1, eq2 = in_steps == at_once, at_once == in_steps
    same_sizes = np.allclose(in_steps.bin_sizes, at_once.bin_sizes)
    same_dens = np.allclose(in_steps.densities, at_once.densities)
    print(f"{label}: {type(H).__name__}.projection{first} -> {type(step).__name__}")
    print(f"   .projection({final!r}) in steps : {type(in_steps).__name__}")
    print(f"   .projection({final!r}) at once  : {type(at_once).__name__}")
    print(f"   contents equal: {same_contents};  in_steps == at_once: {eq1};  at_once == in_steps: {eq2}")
    print(f"   bin_sizes equal: {same_sizes};  densities equal: {same_dens}")
    if not same_dens:
        print("     densities[:3] in steps:", in_steps.densities[:3])
        print("     densities[:3] at once :", at_once.densities[:3])
    print("   demanded: the two results are equal")
    if not (eq1 and eq2 and type(in_steps) is type(at_once) and same_dens):
        if "control" in label:
            print("   (unexpected failure of a control)")
        print("   -> VIOLATION")
        failures += 1

print(f"\n{failures} chain(s) differ from the one-step projection")
sys.exit(1 if failures else 0)
