"""C16: bin centres / bin_sizes / densities must be the true geometry of `bins`.

Bin edges given as an integer array are stored in the caller's integer type, and the
geometry accessors do their arithmetic (l + r, products of widths, r**2, r**3) in that
type. The results silently wrap around:
  * uint8 / int16 / int32 edges (grey levels, ADC channels, np.arange(..., dtype=...)):
    bin_centers, ND bin_sizes, densities, total_size, radial / polar bin sizes are wrong;
  * even default int64 edges (a plain python list of ints) overflow in r**3 of
    SphericalHistogram.bin_sizes once r >= 2097152.
The bin contents themselves are correct - only the geometry is.
"""
import sys
import warnings

import numpy as np

import physt
from physt import special_histograms as sp

warnings.simplefilter("ignore")
failures = 0


def compare(label, observed, demanded):
    global failures
    observed = np.asarray(observed, dtype=float)
    demanded = np.asarray(demanded, dtype=float)
    ok = observed.shape == demanded.shape and np.allclose(observed, demanded, rtol=1e-9)
    print(f"  {label}")
    print(f"      observed: {observed.ravel().tolist()}")
    print(f"      demanded: {demanded.ravel().tolist()}")
    if not ok:
        failures += 1
        print("      => VIOLATION")


def float_bins(bins):
    return np.asarray(bins, dtype=float)


# ---------------------------------------------------------------- 1D, uint8 edges
pixels = np.array([10, 60, 120, 130, 180, 210, 220, 240], dtype=np.uint8)
edges = np.arange(0, 256, 51, dtype=np.uint8)  # 0, 51, 102, 153, 204, 255
h = physt.h1(pixels, edges)
b = float_bins(h.bins)
print("1) h1(pixels, np.arange(0, 256, 51, dtype=uint8)); bins =", b.tolist(), "frequencies =", h.frequencies.tolist())
compare("bin_centers vs (left + right) / 2 of bins", h.bin_centers, (b[:, 0] + b[:, 1]) / 2)

# ---------------------------------------------------------------- 2D, uint8 edges
edges = np.array([0, 100, 200, 250], dtype=np.uint8)
h2 = physt.h2(pixels, pixels[::-1], [edges, edges])
w = [float_bins(bb)[:, 1] - float_bins(bb)[:, 0] for bb in h2.bins]
true_sizes = np.outer(w[0], w[1])
print("2) h2(pixels, pixels[::-1], [uint8 edges 0,100,200,250] * 2); frequencies =", h2.frequencies.tolist())
compare("bin_sizes vs product of widths", h2.bin_sizes, true_sizes)
compare("densities * (true bin measure) vs frequencies", h2.densities * true_sizes, h2.frequencies)
compare("total_size vs measure of the covered region (250 * 250)", h2.total_size, 250.0 * 250.0)
compare("get_bin_centers(0) vs centres of bins[0]", h2.get_bin_centers(0), float_bins(h2.bins[0]).mean(axis=1))
merged = h2.merge_bins(2, axis=0)
compare("additivity: bin_sizes[0] + bin_sizes[1] vs the size of their union after merge_bins(2, axis=0)", h2.bin_sizes[0] + h2.bin_sizes[1], merged.bin_sizes[0])

# ---------------------------------------------------------------- 2D, int32 edges
e32 = np.array([0, 50_000, 150_000], dtype=np.int32)
h2 = physt.h2([10.0, 60_000.0], [20.0, 70_000.0], [e32, e32])
print("3) h2 with int32 edges 0, 50000, 150000 on both axes")
compare("bin_sizes vs product of widths", h2.bin_sizes, np.outer([5e4, 1e5], [5e4, 1e5]))

# ---------------------------------------------------------------- radial, int16 / uint8 edges
x = np.array([5.0, 15.0, 50.0, 150.0])
y = np.zeros(4)
for dtype, last in ((np.uint8, 200), (np.int16, 300)):
    r_edges = np.array([0, 10, 20, 100, last], dtype=dtype)
    r = sp.radial(x, y, bins=r_edges)
    rb = float_bins(r.bins)
    true = np.pi * (rb[:, 1] ** 2 - rb[:, 0] ** 2)
    print(f"4) radial(x, y, bins={dtype.__name__} edges 0,10,20,100,{last}); frequencies =", r.frequencies.tolist())
    compare("bin_sizes vs pi * (r2^2 - r1^2)", r.bin_sizes, true)
    compare("densities * (true bin measure) vs frequencies", r.densities * true, r.frequencies)
    compare("sum of bin_sizes vs pi * R^2", r.bin_sizes.sum(), np.pi * float(last) ** 2)

# ---------------------------------------------------------------- spherical, python ints (int64)
s = sp.SphericalHistogram(
    [[0, 1_000_000, 3_000_000], np.array([0.0, np.pi]), np.array([0.0, 2 * np.pi])],
    np.array([[[5]], [[7]]]),
)
true = 4 / 3 * np.pi * np.array([1e18, 27e18 - 1e18]).reshape(2, 1, 1)
print("5) SphericalHistogram, r edges = [0, 1000000, 3000000] (python ints), full angular range")
compare("bin_sizes vs (r2^3 - r1^3)/3 * (cos th1 - cos th2) * dphi", s.bin_sizes, true)
compare("total_size vs 4/3 * pi * R^3", s.total_size, 4 / 3 * np.pi * 27e18)
compare("densities * (true bin measure) vs frequencies", s.densities * true, s.frequencies)

print()
print(f"{failures} violation(s)")
sys.exit(1 if failures else 0)
