"""C16: bin_sizes of the spherical classes must be the true measure
(cos th1 - cos th2) * dphi  [* (r2^3 - r1^3) / 3], and densities * bin_sizes == frequencies.

The library evaluates `np.cos(th1) - np.cos(th2)` literally. Close to the pole
(theta -> 0, and equally theta -> pi) both cosines round to 1.0 (to -1.0), so bins of a
positive, perfectly representable measure get bin_sizes == 0 exactly (densities == inf or
nan) or a measure that is off by tens of percent, and total_size is not the measure of the cap.

Scenario: directions of a narrow beam around the z axis, histogrammed in nano-/micro-radians.
"""
import sys
import warnings

import numpy as np

from physt import special_histograms as sp

warnings.simplefilter("ignore")
failures = 0


def true_cos_difference(th1, th2):
    # cos(th1) - cos(th2) == 2 sin((th1 + th2) / 2) sin((th2 - th1) / 2): no cancellation
    th1, th2 = np.asarray(th1, dtype=float), np.asarray(th2, dtype=float)
    return 2 * np.sin((th1 + th2) / 2) * np.sin((th2 - th1) / 2)


def compare(label, observed, demanded, rtol=1e-6):
    global failures
    observed = np.asarray(observed, dtype=float)
    demanded = np.asarray(demanded, dtype=float)
    with np.errstate(all="ignore"):
        ok = np.allclose(observed, demanded, rtol=rtol, atol=0)
    print(f"  {label}")
    print(f"      observed: {observed.ravel().tolist()}")
    print(f"      demanded: {demanded.ravel().tolist()}")
    if not ok:
        failures += 1
        print("      => VIOLATION (relative tolerance %g)" % rtol)


rng = np.random.default_rng(0)
n = 2000
theta = np.abs(rng.normal(scale=3e-8, size=n))  # a beam with ~30 nrad divergence
phi = rng.uniform(0, 2 * np.pi, n)
points = np.column_stack([np.sin(theta) * np.cos(phi), np.sin(theta) * np.sin(phi), np.cos(theta)])

theta_bins = np.array([0.0, 5e-9, 1e-8, 2e-8, 5e-8, 1e-7, 1e-6])
phi_bins = np.array([0.0, np.pi, 2 * np.pi])

# ---------------------------------------------------------------- surface of the sphere
h = sp.spherical_surface(points, theta_bins=theta_bins, phi_bins=phi_bins)
th = np.asarray(h.bins[0], dtype=float)
ph = np.asarray(h.bins[1], dtype=float)
true_sizes = np.outer(true_cos_difference(th[:, 0], th[:, 1]), ph[:, 1] - ph[:, 0])
print("1) spherical_surface(points, theta_bins=[0, 5e-9, 1e-8, 2e-8, 5e-8, 1e-7, 1e-6], phi_bins=[0, pi, 2pi])")
print("   frequencies[:, 0] =", h.frequencies[:, 0].tolist())
compare("bin_sizes[:, 0] vs (cos th1 - cos th2) * dphi", h.bin_sizes[:, 0], true_sizes[:, 0])
with np.errstate(all="ignore"):
    compare("densities[:, 0] * (true measure) vs frequencies[:, 0]", h.densities[:, 0] * true_sizes[:, 0], h.frequencies[:, 0])
compare("total_size vs measure of the cap, 2 pi (1 - cos 1e-6)", h.total_size, 2 * np.pi * true_cos_difference(0.0, 1e-6))

# ---------------------------------------------------------------- full spherical histogram
s = sp.spherical(points * rng.uniform(1, 2, n)[:, np.newaxis], radial_bins=np.array([0.0, 1.0, 2.0]), theta_bins=theta_bins, phi_bins=phi_bins)
r = np.asarray(s.bins[0], dtype=float)
true3 = (
    ((r[:, 1] ** 3 - r[:, 0] ** 3) / 3)[:, None, None]
    * true_cos_difference(th[:, 0], th[:, 1])[None, :, None]
    * (ph[:, 1] - ph[:, 0])[None, None, :]
)
print("2) spherical(points, radial_bins=[0, 1, 2], same theta / phi bins); frequencies[1, :, 0] =", s.frequencies[1, :, 0].tolist())
compare("bin_sizes[1, :, 0] vs (r2^3 - r1^3)/3 (cos th1 - cos th2) dphi", s.bin_sizes[1, :, 0], true3[1, :, 0])
with np.errstate(all="ignore"):
    compare("densities[1, :, 0] * (true measure) vs frequencies[1, :, 0]", s.densities[1, :, 0] * true3[1, :, 0], s.frequencies[1, :, 0])

# ---------------------------------------------------------------- the other pole
h = sp.SphericalSurfaceHistogram([np.pi - theta_bins[::-1], phi_bins], np.ones((6, 2)))
th = np.asarray(h.bins[0], dtype=float)
print("3) SphericalSurfaceHistogram with theta bins = pi - [1e-6, 1e-7, 5e-8, 2e-8, 1e-8, 5e-9, 0]")
compare("bin_sizes[:, 0] vs (cos th1 - cos th2) * dphi", h.bin_sizes[:, 0], true_cos_difference(th[:, 0], th[:, 1]) * np.pi)

print()
print(f"{failures} violation(s)")
sys.exit(1 if failures else 0)
