"""C16: `cumulative_frequencies` must be the running sum of the bin contents, ending at `total`.

With bin contents of a narrow floating type (dtype=float16 / float32 - both are
among HistogramBase.SUPPORTED_DTYPES) the running sum is accumulated in that narrow
type: it overflows to inf or stops growing, while `total` (and HistogramND.accumulate)
are computed in double precision.
"""
import sys
import warnings

import numpy as np

import physt
from physt.histogram1d import Histogram1D

warnings.simplefilter("ignore")
failures = 0


def report(label, h):
    global failures
    cumulative = np.asarray(h.cumulative_frequencies)
    expected = np.cumsum(np.asarray(h.frequencies, dtype=np.float64))
    print(f"--- {label} (dtype={h.dtype})")
    print("  frequencies                    :", h.frequencies.tolist())
    print("  cumulative_frequencies         :", cumulative.tolist())
    print("  demanded (running sum)         :", expected.tolist())
    print("  total                          :", h.total)
    last = float(cumulative[-1])  # (compared as python floats, not in the narrow type)
    bad = not np.array_equal(cumulative.astype(np.float64), expected) or last != h.total
    print("  last cumulative value == total :", last == h.total)
    if bad:
        failures += 1
        print("  => VIOLATION")


# 1. float16 contents, built with the facade: six entries of weight 20000 in bins 0 and 1
values = [0.5, 0.5, 0.5, 1.5, 1.5, 1.5, 2.5]
weights = np.array([20000, 20000, 20000, 20000, 20000, 20000, 1], dtype=np.float16)
h = physt.h1(values, np.array([0.0, 1.0, 2.0, 3.0]), weights=weights, dtype=np.float16)
report("h1(..., dtype=float16)", h)

# 2. float32 contents: the running sum stops growing at 2**24
h = Histogram1D(
    np.array([0.0, 1.0, 3.0, 4.0, 10.0]),
    np.array([16777216, 1, 1, 1], dtype=np.float32),
)
report("Histogram1D with float32 frequencies", h)

# 3. the same after a conversion of an ordinary histogram
h = physt.h1(np.repeat([0.5, 1.5, 2.5, 3.5], [2048, 1, 1, 1]), np.array([0.0, 1, 2, 3, 4]))
h.dtype = np.float16
report("int64 histogram converted with h.dtype = float16", h)

# For comparison: the N-dimensional counterpart accumulates in double precision
h2 = physt.h2(
    [0.5, 0.5, 0.5, 1.5, 1.5, 1.5], [0.5] * 6, [np.array([0.0, 1, 2]), np.array([0.0, 1])],
    weights=np.array([20000] * 6, dtype=np.float16), dtype=np.float16,
)
print("--- HistogramND.accumulate(0) of float16 contents:", h2.accumulate(0).frequencies.ravel().tolist(), "total", h2.total)

print()
print(f"{failures} violation(s)")
sys.exit(1 if failures else 0)
