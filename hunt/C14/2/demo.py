"""C14 violation: adding a histogram WITHOUT valid statistics (built from bare frequencies)
to one WITH statistics leaves plain, wrong numbers in the statistics of the sum
instead of NaN.

Run: PYTHONPATH=/tmp/mut/R4C14/src /venv/bin/python demo.py
"""
import math
import sys
import warnings

import numpy as np

import physt
from physt import h1
from physt.types import Histogram1D

warnings.simplefilter("ignore")
failures = []
edges = np.array([0.0, 1.0, 2.0, 3.0, 4.0])


def show(label, hist):
    s = hist.statistics
    print(f"--- {label}")
    print(f"    bin contents {hist.frequencies.tolist()}  total {hist.total}")
    print(
        f"    statistics: sum={float(s.sum)} sum2={float(s.sum2)} weight={float(s.weight)} "
        f"min={float(s.min)} max={float(s.max)} median={float(s.median)} mean()={float(s.mean())}"
    )
    return s


def must_be_invalid(label, hist):
    s = show(label, hist)
    wrong = {
        name: float(getattr(s, name))
        for name in ("sum", "sum2", "weight", "min", "max", "median")
        if not math.isnan(float(getattr(s, name)))
    }
    if wrong:
        print(f"    demanded: every field NaN (the operand has no raw data);  observed plain numbers: {wrong}")
        print("    => VIOLATION")
        failures.append(label)
    else:
        print("    => ok (all NaN)")


# The histogram with statistics: values 1.5, 2.5, 3.5
with_stats = h1([1.5, 2.5, 3.5], edges)
# Construction from bare frequencies: 5 entries somewhere in [0, 1) - the raw values are unknown
bare = Histogram1D(with_stats.binning.copy(), [5, 0, 0, 0])
show("operand `bare` (from bare frequencies)", bare)

# A. the order of the operands decides whether min / max are invalidated
must_be_invalid("bare + with_stats   [control]", bare + with_stats)
must_be_invalid("with_stats + bare", with_stats + bare)
total = with_stats.copy()
total += bare
must_be_invalid("with_stats += bare", total)
s = (with_stats + bare).statistics
print(
    f"    (the sum has {(with_stats + bare).frequencies[0]} entries in the bin [0, 1), "
    f"yet statistics.min says {float(s.min)})"
)

# B. the other operand is a one-dimensional HistogramND (what physt.h returns for (n, 1) data):
#    it has no statistics at all - the addition is accepted, the bins are added,
#    the statistics stay as if nothing had been added.
nd = physt.h(np.array([[0.5], [0.6], [3.5]]), bins=[edges])
print(f"\n    physt.h((n, 1) data) -> {type(nd).__name__}, ndim={nd.ndim}")
must_be_invalid("with_stats + 1-dim HistogramND", with_stats + nd)
s = (with_stats + nd).statistics
print(
    f"    (6 entries in the bins, statistics.weight = {float(s.weight)}, "
    f"median still {float(s.median)}, min still {float(s.min)} although 0.5 was added)"
)

if failures:
    print("\nVIOLATED (C14, 'read as invalid (NaN), never as wrong numbers'):", failures)
    sys.exit(1)
print("\nno violation observed")
