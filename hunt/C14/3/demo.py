"""C14 violation: HistogramCollection.normalize_bins() divides the bin contents of every
member histogram by an ARRAY (one divisor per bin) but leaves their statistics untouched:
they keep reading as valid numbers that no longer describe the histogram.

Run: PYTHONPATH=/tmp/mut/R4C14/src /venv/bin/python demo.py
"""
import math
import sys
import warnings

import numpy as np

from physt.types import HistogramCollection

warnings.simplefilter("ignore")
failures = []
edges = np.array([0.0, 1.0, 2.0, 3.0])

collection = HistogramCollection.multi_h1(
    {"a": [0.5, 0.6, 1.5, 2.5], "b": [0.5, 2.5, 2.6, 2.7]}, bins=edges
)


def show(label, hist):
    s = hist.statistics
    print(f"--- {label}")
    print(f"    bin contents {hist.frequencies.tolist()}  total {hist.total}")
    print(
        f"    statistics: sum={float(s.sum)} sum2={float(s.sum2)} weight={float(s.weight)} "
        f"min={float(s.min)} max={float(s.max)} mean()={float(s.mean())}"
    )
    return s


def check(label, hist):
    s = show(label, hist)
    invalid = all(math.isnan(float(getattr(s, f))) for f in ("sum", "sum2", "weight"))
    consistent = np.isclose(float(s.weight), hist.total)
    if invalid:
        print("    => ok (read as invalid)")
    elif consistent:
        print("    => ok (total weight agrees with the bin contents)")
    else:
        print(
            f"    demanded: NaN after array arithmetic (or at least weight == total == {hist.total});"
            f" observed weight={float(s.weight)}, mean()={float(s.mean())}"
        )
        print("    => VIOLATION")
        failures.append(label)


check("member 'a' before", collection["a"])

# not in place: the copies carry the stale statistics
normalized = collection.normalize_bins()
check("member 'a' of normalize_bins()", normalized["a"])
check("member 'b' of normalize_bins()", normalized["b"])

# in place
collection.normalize_bins(inplace=True)
check("member 'a' after normalize_bins(inplace=True)", collection["a"])

# consequences: sums of such members go on reporting plain numbers
total = normalized.sum()
check("normalize_bins().sum()", total)

if failures:
    print("\nVIOLATED (C14, 'after array arithmetic they read as invalid (NaN), never as wrong numbers'):")
    for f in failures:
        print("   ", f)
    sys.exit(1)
print("\nno violation observed")
