"""C14 violation: Histogram1D.fill() accumulates the statistics in the (narrow) numpy
type of its arguments, so sum / sum2 wrap around or are rounded.

Run: PYTHONPATH=/tmp/mut/R4C14/src /venv/bin/python demo.py
"""
import sys
import warnings

import numpy as np

from physt import h1

warnings.simplefilter("ignore")
failures = []


def report(label, hist, values, weights=None):
    values = [float(v) for v in values]
    weights = [1.0] * len(values) if weights is None else [float(w) for w in weights]
    exp_weight = sum(weights)
    exp_sum = sum(w * v for v, w in zip(values, weights))
    exp_sum2 = sum(w * v * v for v, w in zip(values, weights))
    exp_mean = exp_sum / exp_weight
    exp_var = (exp_sum2 - exp_sum**2 / exp_weight) / exp_weight
    s = hist.statistics
    print(f"--- {label}")
    print(f"    bin contents        : {hist.frequencies.tolist()} (total {hist.total})")
    print(f"    sum      observed {float(s.sum)!r:>22}   demanded {exp_sum!r}")
    print(f"    sum2     observed {float(s.sum2)!r:>22}   demanded {exp_sum2!r}")
    print(f"    weight   observed {float(s.weight)!r:>22}   demanded {exp_weight!r}")
    print(f"    mean()   observed {float(s.mean())!r:>22}   demanded {exp_mean!r}")
    print(f"    variance observed {float(s.variance())!r:>22}   demanded {exp_var!r}")
    print(f"    std()    observed {float(s.std())!r:>22}   demanded {exp_var ** 0.5!r}")
    ok = (
        np.isclose(float(s.sum), exp_sum, rtol=1e-12, atol=0)
        and np.isclose(float(s.sum2), exp_sum2, rtol=1e-12, atol=0)
        and np.isclose(float(s.weight), exp_weight, rtol=1e-12, atol=0)
    )
    print("    =>", "ok" if ok else "VIOLATION")
    if not ok:
        failures.append(label)


# 1. 8-bit pixel values, filled one by one (all lie within the bins)
pixels = np.array([200, 100, 250], dtype=np.uint8)
h = h1(None, np.arange(0.0, 301.0, 50.0))
for px in pixels:
    h.fill(px)
report("fill(np.uint8) one value at a time", h, pixels)

# The same values through fill_n are right:
h = h1(None, np.arange(0.0, 301.0, 50.0))
h.fill_n(pixels)
report("fill_n(uint8 array)  [control]", h, pixels)

# 2. 16-bit ADC counts
adc = np.array([1000, 2000, 3000], dtype=np.int16)
h = h1(None, np.linspace(0.0, 4096.0, 9))
for v in adc:
    h.fill(v)
report("fill(np.int16)", h, adc)

# 3. 32-bit floats: the running sums are narrowed to float32
h = h1(None, np.array([0.0, 1e8]))
h.fill(np.float32(16777216.0))
h.fill(np.float32(1.0))
report("fill(np.float32)", h, [16777216.0, 1.0])
print("    type of statistics.sum:", type(h.statistics.sum).__name__)

# 4. a narrow weight with a plain python value
h = h1(None, np.array([0.0, 10.0]))
h.fill(3, weight=np.int8(100))
report("fill(3, weight=np.int8(100))", h, [3], [100])

if failures:
    print("\nVIOLATED (C14, 'accumulate correctly over fill'):", failures)
    sys.exit(1)
print("\nno violation observed")
