"""C03 violation: fill_n with weights stored in a narrow element type (int8, uint8,
int32, float32) does not give what the same weights give through fill().

The histograms are ordinary int64 / float64 histograms over fixed bins; only the
element type of the *weights array* differs.  All values are inside the bins
(or, for the ND "missed" case, all inside as well - so missed must stay 0).
"""
import sys
import warnings

import numpy as np

from physt.histogram1d import Histogram1D
from physt.histogram_nd import Histogram2D

warnings.simplefilter("ignore")
failures = []


def report(label, observed, demanded):
    ok = np.array_equal(np.asarray(observed, dtype=float), np.asarray(demanded, dtype=float))
    print(f"{label:58s} observed={observed!s:28s} demanded={demanded!s:22s} {'ok' if ok else 'VIOLATION'}")
    if not ok:
        failures.append(label)


EDGES = [0.0, 1.0, 2.0]

for dtype, w in [
    (np.int8, [100, 100]),
    (np.uint8, [200, 200]),
    (np.int32, [50000, 50000]),
    (np.float32, [16777216, 1, 1, 1]),
]:
    weights = np.array(w, dtype=dtype)
    n = len(w)
    name = np.dtype(dtype).name

    # ---- 1D -------------------------------------------------------------
    one = Histogram1D(EDGES)              # reference: one value at a time
    for x in w:
        one.fill(0.5, x)                  # plain Python numbers
    batch = Histogram1D(EDGES)
    batch.fill_n([0.5] * n, weights=weights)
    report(f"1D fill_n weights {name}: frequencies", batch.frequencies.tolist(), one.frequencies.tolist())
    report(f"1D fill_n weights {name}: errors2", batch.errors2.tolist(), one.errors2.tolist())

    # ---- 2D -------------------------------------------------------------
    one = Histogram2D([EDGES, EDGES])
    for x in w:
        one.fill([0.5, 0.5], x)
    batch = Histogram2D([EDGES, EDGES])
    batch.fill_n([[0.5, 0.5]] * n, weights=weights)
    report(f"2D fill_n weights {name}: frequencies[0,0]", batch.frequencies[0, 0].item(), one.frequencies[0, 0].item())
    report(f"2D fill_n weights {name}: errors2[0,0]", batch.errors2[0, 0].item(), one.errors2[0, 0].item())
    report(f"2D fill_n weights {name}: missed", batch.missed, one.missed)
    print(f"   (histogram dtypes: 1D/2D batch = {batch.dtype}, one-at-a-time = {one.dtype})")

# the same weight given to fill() as a numpy scalar
h = Histogram1D(EDGES)
h.fill(0.5, np.uint8(200))
report("1D fill(0.5, np.uint8(200)): errors2", h.errors2.tolist(), [40000, 0])

if failures:
    print(f"\n{len(failures)} mismatches between fill_n / fill for the same data and weights")
    sys.exit(1)
print("no violation")
