"""C03 violation: "With tracking of missed values switched off, values outside the
bins change nothing at all."

Histogram1D over inconsecutive bins [0,1) and [2,3], keep_missed=False.
fill() of a value that falls into the gap (outside every bin) changes the state of
the histogram: `missed` goes from 0 to NaN, the stored missed triple (and thus
to_dict() / JSON output) changes and its element type changes.  fill_n() with the
very same value changes nothing, so the two entry points also disagree.
"""
import sys

import numpy as np

from physt.histogram1d import Histogram1D

BINS = [[0, 1], [2, 3]]
failures = []


def snapshot(h):
    d = h.to_dict()
    return {
        "frequencies": h.frequencies.tolist(),
        "errors2": h.errors2.tolist(),
        "missed": h.missed,
        "to_dict()['missed']": d["missed"],
        "json": h.to_json(),
    }


def compare(label, before, after):
    for key in before:
        same = repr(before[key]) == repr(after[key])
        if key == "json":
            print(f"{label} {key:22s} {'unchanged' if same else 'CHANGED'}")
        else:
            print(f"{label} {key:22s} before={before[key]!r:14} after={after[key]!r:18} "
                  f"demanded=unchanged  {'ok' if same else 'VIOLATION'}")
        if not same:
            failures.append(f"{label} {key}")


h = Histogram1D(BINS, keep_missed=False)
before = snapshot(h)
found = h.find_bin(1.5)
result = h.fill(1.5)
print(f"find_bin(1.5) = {found!r}, fill(1.5) returned {result!r}   (None = gap, as demanded)")
compare("fill(1.5)  ", before, snapshot(h))

print()
g = Histogram1D(BINS, keep_missed=False)
before = snapshot(g)
g.fill_n([1.5])
compare("fill_n([1.5])", before, snapshot(g))

print()
same = (np.array_equal(h.frequencies, g.frequencies)
        and repr(h.missed) == repr(g.missed))
print(f"fill vs fill_n, same value: missed {h.missed!r} vs {g.missed!r} -> "
      f"{'identical' if same else 'DIFFERENT (demanded: identical)'}")
if not same:
    failures.append("fill != fill_n")

if failures:
    print(f"\n{len(failures)} violations")
    sys.exit(1)
print("no violation")
