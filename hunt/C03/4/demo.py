"""C03 violation: a NaN entered with fill() is booked as an overflow (1D) / as missed
(ND), the same NaN entered with fill_n() or at construction is dropped.

The data set {0.5, NaN, 1.5} therefore gives different underflow/overflow (1D) and
different missed (ND) depending on whether it is entered one value at a time, in
batches or at construction.  fill() also claims to have incremented "bin 2"
(= overflow) for a value that is not larger than anything.
"""
import sys

import numpy as np

from physt import h, h1
from physt.histogram1d import Histogram1D
from physt.histogram_nd import Histogram2D

EDGES = [0.0, 1.0, 2.0]
DATA = [0.5, np.nan, 1.5]
failures = []


def check(label, observed, demanded):
    same = repr(observed) == repr(demanded)
    print(f"{label:46s} observed={observed!r:32} demanded={demanded!r:26} {'ok' if same else 'VIOLATION'}")
    if not same:
        failures.append(label)


def state1(hist):
    return hist.frequencies.tolist(), int(hist.underflow), int(hist.overflow)


# ---- 1D ------------------------------------------------------------------
built = h1(DATA, np.array(EDGES))
batch = Histogram1D(EDGES)
batch.fill_n(DATA)
chunks = Histogram1D(EDGES)
for chunk in ([np.nan], [], [1.5, 0.5]):
    chunks.fill_n(chunk)
single = Histogram1D(EDGES)
returned = [single.fill(x) for x in DATA]

reference = state1(built)
print("1D (frequencies, underflow, overflow); reference = construction:", reference)
check("1D fill_n, one batch", state1(batch), reference)
check("1D fill_n, chunks [nan], [], [1.5, 0.5]", state1(chunks), reference)
check("1D fill, one at a time", state1(single), reference)
check("1D find_bin(nan) changes nothing / index", Histogram1D(EDGES).find_bin(np.nan), returned[1])
print(f"   fill(nan) returned {returned[1]!r}: 'the overflow was incremented' - by a value that is not above the bins")

# ---- 2D ------------------------------------------------------------------
DATA2 = [[0.5, 0.5], [np.nan, 0.5], [1.5, np.nan]]


def state2(hist):
    return hist.frequencies.tolist(), int(hist.missed)


built = h(DATA2, [np.array(EDGES), np.array(EDGES)])
batch = Histogram2D([EDGES, EDGES])
batch.fill_n(DATA2)
single = Histogram2D([EDGES, EDGES])
for row in DATA2:
    single.fill(row)
reference = state2(built)
print("\n2D (frequencies, missed); reference = construction:", reference)
check("2D fill_n, one batch", state2(batch), reference)
check("2D fill, one at a time", state2(single), reference)

# ---- weights follow the same way ----------------------------------------
batch = Histogram1D(EDGES)
batch.fill_n(DATA, weights=[1.0, 100.0, 1.0])
single = Histogram1D(EDGES)
for x, w in zip(DATA, [1.0, 100.0, 1.0]):
    single.fill(x, w)
check("1D weighted: overflow fill vs fill_n", float(single.overflow), float(batch.overflow))

if failures:
    print(f"\n{len(failures)} violations")
    sys.exit(1)
print("no violation")
