"""C03 violation: Histogram1D.fill / find_bin with bins whose edges are float32.

The bins [0, 0.1), [0.1, 0.2] (float32 edges) are consecutive - there is no gap.
A plain Python float that lies strictly inside the first bin is
  * put into bin 0 by fill_n and by construction (correct),
  * reported as "None = gap" by find_bin / fill, is not counted anywhere and turns
    underflow and overflow into NaN.
A value just above the last edge is an overflow for fill_n but lands in the last bin
with fill.
"""
import sys

import numpy as np

from physt import h1
from physt.histogram1d import Histogram1D

edges = np.array([0.0, 0.1, 0.2], dtype=np.float32)
failures = []


def check(label, observed, demanded):
    same = repr(observed) == repr(demanded)
    print(f"{label:50s} observed={observed!r:22} demanded={demanded!r:14} {'ok' if same else 'VIOLATION'}")
    if not same:
        failures.append(label)


def state(h):
    return h.frequencies.tolist(), float(h.underflow), float(h.overflow)


print("edges as float64:", [float(e) for e in edges])

# ---- 1. value strictly inside bin 0 --------------------------------------
v = 0.1   # 0.1 < float32(0.1) = 0.10000000149...
assert edges[0] <= v < float(edges[1])
batch = Histogram1D(edges)
batch.fill_n([v])
built = h1([v], edges)
single = Histogram1D(edges)
found = single.find_bin(v)
returned = single.fill(v)
print(f"\nvalue {v!r} (inside [0, {float(edges[1])!r}))")
check("fill_n: (frequencies, underflow, overflow)", state(batch), ([1, 0], 0.0, 0.0))
check("h1(...): (frequencies, underflow, overflow)", state(built), ([1, 0], 0.0, 0.0))
check("find_bin", found, 0)
check("fill return value", returned, 0)
check("fill: (frequencies, underflow, overflow)", state(single), ([1, 0], 0.0, 0.0))
check("the same value as np.float64: find_bin", Histogram1D(edges).find_bin(np.float64(v)), 0)

# ---- 2. value just above the last edge ----------------------------------
v = 0.200000003   # > float32(0.2) = 0.20000000298...
assert v > float(edges[2])
batch = Histogram1D(edges)
batch.fill_n([v])
single = Histogram1D(edges)
found = single.find_bin(v)
returned = single.fill(v)
print(f"\nvalue {v!r} (above the last edge {float(edges[2])!r})")
check("fill_n: (frequencies, underflow, overflow)", state(batch), ([0, 0], 0.0, 1.0))
check("find_bin", found, 2)
check("fill return value", returned, 2)
check("fill: (frequencies, underflow, overflow)", state(single), ([0, 0], 0.0, 1.0))

if failures:
    print(f"\n{len(failures)} violations: fill / find_bin disagree with fill_n and construction")
    sys.exit(1)
print("no violation")
