"""C18: after HistogramCollection.copy() (also used by normalize_all() / normalize_bins()),
all members of the copy share ONE binning object.  Filling one adaptive member grows that
binning in place, and every sibling is left malformed: its bins no longer match the shape of
its frequencies / errors2, and its contents sit on other bin intervals than before.

Only valid public calls are used - nothing here is an invalid operation.

Run:  PYTHONPATH=/tmp/mut/R4C18/src /venv/bin/python demo.py
"""
import sys
import warnings

import numpy as np

import physt
from physt.histogram_collection import HistogramCollection

warnings.simplefilter("ignore")
failures = []


def describe(h):
    return (f"bins.shape={h.bins.shape}, frequencies.shape={h.frequencies.shape}, "
            f"errors2.shape={h.errors2.shape}, h.shape={h.shape}")


def contents_per_interval(h):
    """{(left, right): content} as a user reads it: i-th bin <-> i-th frequency."""
    return {(float(l), float(r)): float(f) for (l, r), f in zip(h.bins, h.frequencies)}


def well_formed(h):
    n = h.bins.shape[0]
    return h.frequencies.shape == (n,) and h.errors2.shape == (n,) and h.shape == (n,)


def make_collection():
    a = physt.h1([0.5, 1.5, 2.5], "fixed_width", bin_width=1, adaptive=True, name="a")
    b = physt.h1([0.5, 0.6, 2.5], "fixed_width", bin_width=1, adaptive=True, name="b")
    return HistogramCollection(a, b)


def scenario(title, derive, fill):
    print(f"== {title}")
    derived = derive(make_collection())
    sibling = derived["b"]
    before = contents_per_interval(sibling)
    print(f"   sibling 'b' before : {describe(sibling)}")
    print(f"                        contents per interval {before}")
    fill(derived["a"])                      # a valid fill of ANOTHER histogram
    print(f"   sibling 'b' after  : {describe(sibling)}")
    after = contents_per_interval(sibling)
    print(f"                        contents per interval {after}")
    print("   demanded by C18: frequencies, errors2 and the bins have matching shapes; "
          "recorded contents per bin interval stay what they were")
    bad = []
    if not well_formed(sibling):
        bad.append("bins and frequencies/errors2 have different shapes")
    if any(after.get(k, 0.0) != v for k, v in before.items() if v):
        bad.append("contents moved to other bin intervals")
    try:
        sibling.fill_n([0.5])               # an ordinary follow-up operation
    except Exception as exc:
        bad.append(f"follow-up sibling.fill_n([0.5]) crashes: {type(exc).__name__}: {str(exc)[:60]}")
    if bad:
        for item in bad:
            print(f"   -> VIOLATION: {item}")
        failures.append(title)
    else:
        print("   -> OK")


scenario("collection.copy(); copy['a'].fill(10)          (grows to the right)",
         lambda c: c.copy(), lambda h: h.fill(10))
scenario("collection.copy(); copy['a'].fill(-4.5)        (grows to the left)",
         lambda c: c.copy(), lambda h: h.fill(-4.5))
scenario("collection.copy(); copy['a'].fill_n([-2, 7])",
         lambda c: c.copy(), lambda h: h.fill_n([-2, 7]))
scenario("collection.normalize_all(); result['a'].fill(-4.5, weight=0.5)",
         lambda c: c.normalize_all(), lambda h: h.fill(-4.5, weight=0.5))
scenario("collection.normalize_bins(); result['a'].fill(-4.5, weight=0.5)",
         lambda c: c.normalize_bins(), lambda h: h.fill(-4.5, weight=0.5))
# control: without copy() the members own their binnings and nothing goes wrong
scenario("control - no copy: collection['a'].fill(-4.5)",
         lambda c: c, lambda h: h.fill(-4.5))

expected_ok = {"control - no copy: collection['a'].fill(-4.5)"}
real = [f for f in failures if f not in expected_ok]
if real:
    print(f"\n{len(real)} violation(s) of C18:")
    for f in real:
        print("  -", f)
    sys.exit(1)
print("\nno violation")
