"""C18: an in-place division by zero raises ZeroDivisionError *after* it has
overwritten every bin content, squared error and missed count of a Histogram1D.

Run:  PYTHONPATH=/tmp/mut/R4C18/src /venv/bin/python demo.py
"""
import sys
import warnings

import numpy as np

import physt

warnings.simplefilter("ignore")  # numpy's divide-by-zero RuntimeWarnings

failures = []


def snapshot(h):
    return (
        h.frequencies.astype(float).copy(),
        h.errors2.astype(float).copy(),
        np.array([h.underflow, h.overflow, h.inner_missed], dtype=float),
    )


def same(a, b):
    return all(np.array_equal(x, y, equal_nan=True) for x, y in zip(a, b))


def attempt(title, h, operation):
    before = snapshot(h)
    print(f"== {title}")
    print(f"   before : frequencies={before[0]}, errors2={before[1]}, under/over/inner={before[2]}")
    try:
        operation(h)
    except Exception as exc:  # the operation FAILED ...
        after = snapshot(h)
        print(f"   raised : {type(exc).__name__}: {exc}")
        print(f"   after  : frequencies={after[0]}, errors2={after[1]}, under/over/inner={after[2]}")
        print("   demanded by C18: a failed operation leaves contents, errors2 and missed exactly as they were")
        if same(before, after):
            print("   -> OK, unchanged")
        else:
            print("   -> VIOLATION: the failed operation changed the histogram")
            failures.append(title)
    else:
        print("   (no exception - the statement does not speak about this case)")


def idiv(divisor):
    def op(h):
        h /= divisor
    return op


# 1) plain in-place division by the integer / float / numpy zero
for zero in (0, 0.0, np.float64(0), np.int32(0)):
    h = physt.h1([0.5, 1.5, 1.6, -3.0], [0, 1, 2])  # contents [1, 2], underflow 1
    attempt(f"h /= {zero!r}  ({type(zero).__name__})", h, idiv(zero))

# 2) the same through the facade normalize(inplace=True) of a histogram without entries
empty = physt.h1([0.5, 1.5, 1.6], [0, 1, 2]).copy(include_frequencies=False)
attempt("empty.normalize(inplace=True)   (total == 0)", empty, lambda h: h.normalize(inplace=True))

# 3) transformed 1D histograms share the code
radial = physt.special_histograms.radial([1.0, 2.0, 0.1], [0.0, 0.0, 0.1], bins=[0, 1, 2, 3])
attempt("RadialHistogram /= 0", radial, idiv(0))

if failures:
    print(f"\n{len(failures)} violation(s) of C18: {failures}")
    sys.exit(1)
print("\nno violation")
