"""C18: fill() with an integer weight whose SQUARE does not fit the content type
raises OverflowError after the bin content has already been increased
(errors2 and the statistics are not), so the failed call is not a no-op.
Related: fill_n() with such weights does not raise at all and stores NEGATIVE squared errors.

Run:  PYTHONPATH=/tmp/mut/R4C18/src /venv/bin/python demo.py
"""
import sys
import warnings

import numpy as np

from physt.histogram1d import Histogram1D
from physt.histogram_nd import Histogram2D

warnings.simplefilter("ignore")
failures = []


def snapshot(h):
    return h.frequencies.copy(), h.errors2.copy(), h.missed, str(h.dtype)


def attempt(title, h, operation):
    before = snapshot(h)
    print(f"== {title}")
    print(f"   before : frequencies={before[0].tolist()}, errors2={before[1].tolist()}, missed={before[2]}, dtype={before[3]}")
    try:
        operation(h)
    except Exception as exc:
        after = snapshot(h)
        print(f"   raised : {type(exc).__name__}: {exc}")
        print(f"   after  : frequencies={after[0].tolist()}, errors2={after[1].tolist()}, missed={after[2]}, dtype={after[3]}")
        print("   demanded by C18: a call that raises (invalid weight) leaves every content and squared error as it was")
        if np.array_equal(before[0], after[0]) and np.array_equal(before[1], after[1]) and before[2] == after[2]:
            print("   -> OK, unchanged")
        else:
            print("   -> VIOLATION: frequencies were modified by the failed call (and now disagree with errors2)")
            failures.append(title)
    else:
        after = snapshot(h)
        print(f"   no exception; after: frequencies={after[0].tolist()}, errors2={after[1].tolist()}")
        print("   demanded by C18: squared errors are non-negative")
        if (after[1] < 0).any() or (after[0] < 0).any():
            print("   -> VIOLATION: negative squared error / content stored")
            failures.append(title)
        else:
            print("   -> OK")


print("##### Part A: fill() - the failed call changes the content\n")

# int16 histogram (a supported content type), perfectly ordinary weight 200 given as np.int16
h = Histogram1D([0, 1, 2], dtype=np.int16)
h.fill_n([0.5])  # (fill_n without weights keeps the narrow content type)
attempt("int16 Histogram1D.fill(0.5, weight=np.int16(200))      [200**2 > 32767]", h,
        lambda h: h.fill(0.5, weight=np.int16(200)))

h = Histogram1D([0, 1, 2], dtype=np.int32)
h.fill_n([0.5])
attempt("int32 Histogram1D.fill(0.5, weight=np.int32(50000))    [50000**2 > 2**31]", h,
        lambda h: h.fill(0.5, weight=np.int32(50000)))

# default int64 histogram, python int weight
h = Histogram1D([0, 1, 2])
h.fill(0.5)
attempt("int64 Histogram1D.fill(0.5, weight=2**32)              [2**64 > 2**63]", h,
        lambda h: h.fill(0.5, weight=2**32))

h = Histogram1D([0, 1, 2])
h.fill(0.5)
attempt("int64 Histogram1D.fill(0.5, weight=np.int64(2**32))", h,
        lambda h: h.fill(0.5, weight=np.int64(2**32)))

# same in N dimensions
h2 = Histogram2D([[0, 1, 2], [0, 1, 2]])
h2.fill([0.5, 0.5])
attempt("int64 Histogram2D.fill([0.5, 0.5], weight=2**32)", h2,
        lambda h: h.fill([0.5, 0.5], weight=2**32))

# adaptive histogram
import physt
ha = physt.h1([0.5, 1.5], "fixed_width", bin_width=1, adaptive=True)
attempt("adaptive int64 h1.fill(0.5, weight=2**32)", ha, lambda h: h.fill(0.5, weight=2**32))

print("\n##### Part B (related, silent): fill_n() stores negative squared errors\n")
h = Histogram1D([0, 1, 2])
attempt("int64 Histogram1D.fill_n([0.5], weights=[3_100_000_000])   [w**2 wraps around in int64]", h,
        lambda h: h.fill_n([0.5], weights=[3_100_000_000]))
h2 = Histogram2D([[0, 1, 2], [0, 1, 2]])
attempt("int64 Histogram2D.fill_n([[0.5, 0.5]], weights=[3_100_000_000])", h2,
        lambda h: h.fill_n([[0.5, 0.5]], weights=[3_100_000_000]))

if failures:
    print(f"\n{len(failures)} violation(s) of C18:")
    for f in failures:
        print("  -", f)
    sys.exit(1)
print("\nno violation")
