"""C19: a subtraction of histograms produces negative contents (underflow / overflow / missed)
while free arithmetics is DISABLED, and nothing is refused."""
import sys
import warnings

import numpy as np

from physt import h1, h2
from physt.config import config

warnings.simplefilter("ignore")  # "Subtracting histograms is considered to be a bad idea."

assert config.free_arithmetics is False, "run without PHYST_FREE_ARITHMETICS=1"

violations = []


def negative_parts(h):
    parts = {"frequencies": np.asarray(h.frequencies), "missed": np.asarray(h.missed)}
    for name in ("underflow", "overflow", "inner_missed"):
        if hasattr(h, name):
            parts[name] = np.asarray(getattr(h, name))
    return {k: v.tolist() for k, v in parts.items() if np.any(v < 0)}


def check(label, operation):
    """`operation` must raise while free arithmetics is off, because its result has negative contents."""
    try:
        result = operation()
    except (ValueError, TypeError) as exc:
        print(f"{label}: refused with {type(exc).__name__}: {exc}   [as the statement demands]")
        return
    neg = negative_parts(result)
    print(f"{label}: ACCEPTED, free_arithmetics={config.free_arithmetics}")
    print(f"    frequencies={result.frequencies.tolist()} missed={result.missed}")
    print(f"    negative contents found: {neg}")
    print("    statement demands      : an error (negative contents only while free arithmetics is enabled)")
    if neg:
        violations.append(label)


bins = [1, 2, 3, 4]
a = h1([1.5, 2.5, 2.5, 3.5], bins=bins)            # nothing outside the bins
b = h1([-5, -6, 1.5, 2.5, 10], bins=bins)          # 2 below, 1 above the bins
print("a:", a.frequencies.tolist(), "underflow", a.underflow, "overflow", a.overflow)
print("b:", b.frequencies.tolist(), "underflow", b.underflow, "overflow", b.overflow)

# reference: the same negative missed weights reached by a multiplication ARE refused
check("reference  b * -1        (disabled)", lambda: b * -1)
# reference: negative bin contents reached by a subtraction ARE refused
check("reference  a - 3 * a     (disabled)", lambda: a - a * 3)

check("1D  a - b                (disabled)", lambda: a - b)


def inplace():
    x = a.copy()
    x -= b
    return x


check("1D  a -= b               (disabled)", inplace)

a2 = h2([1.5, 2.5], [1.5, 2.5], bins=[[1, 2, 3], [1, 2, 3]])
b2 = h2([1.5, 2.5, 7, 8], [1.5, 2.5, 7, 8], bins=[[1, 2, 3], [1, 2, 3]])
check("2D  a2 - b2              (disabled)", lambda: a2 - b2)

# the switch does make a difference elsewhere, and negative contents are fine while it is on
with config.enable_free_arithmetics():
    r = a - b
    print(f"enabled: a - b -> underflow {r.underflow}, overflow {r.overflow} (allowed here)")

if violations:
    print(f"\nVIOLATION of C19 in {len(violations)} case(s): negative contents accepted while free arithmetics is disabled")
    sys.exit(1)
print("\nno violation observed")
