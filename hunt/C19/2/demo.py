"""C19: fill() / fill_n() with a negative weight leave negative bin contents in the histogram
while free arithmetics is DISABLED; the same weights are refused by every other way in."""
import sys
import warnings

import numpy as np

from physt import h1, h2
from physt.config import config

warnings.simplefilter("ignore")
assert config.free_arithmetics is False, "run without PHYST_FREE_ARITHMETICS=1"

violations = []


def check(label, operation):
    try:
        result = operation()
    except (ValueError, TypeError) as exc:
        print(f"{label}: refused with {type(exc).__name__}: {exc}   [as the statement demands]")
        return
    freq = np.asarray(result.frequencies)
    print(f"{label}: ACCEPTED, free_arithmetics={config.free_arithmetics}")
    print(f"    frequencies={freq.tolist()} total={result.total}")
    print("    statement demands: an error (negative contents only while free arithmetics is enabled)")
    if np.any(freq < 0):
        violations.append(label)


bins = [1, 2, 3, 4]


def make1():
    return h1([1.5, 2.5, 2.5, 3.5], bins=bins)   # contents 1, 2, 1


def make2():
    return h2([1.5, 2.5], [1.5, 2.5], bins=[[1, 2, 3], [1, 2, 3]])


# references: the very same contents are refused on every other path while the switch is off
check("reference  h1(values, weights=[-5, 1])     ", lambda: h1([1.5, 2.5], bins=bins, weights=[-5, 1]))


def by_setter():
    h = make1()
    h.frequencies = [-4, 2, 1]
    return h


check("reference  h.frequencies = [-4, 2, 1]      ", by_setter)
check("reference  h * -1                          ", lambda: make1() * -1)


def fill_1d():
    h = make1()
    h.fill(1.5, weight=-5)
    return h


def fill_n_1d():
    h = make1()
    h.fill_n([1.5, 2.5], weights=[-5, -1])
    return h


def fill_nd():
    h = make2()
    h.fill([1.5, 1.5], weight=-5)
    return h


def fill_n_nd():
    h = make2()
    h.fill_n([[1.5, 1.5]], weights=[-5])
    return h


check("1D  h.fill(1.5, weight=-5)                 ", fill_1d)
check("1D  h.fill_n([1.5, 2.5], weights=[-5, -1]) ", fill_n_1d)
check("2D  h.fill([1.5, 1.5], weight=-5)          ", fill_nd)
check("2D  h.fill_n([[1.5, 1.5]], weights=[-5])   ", fill_n_nd)

# and the histogram that was let through is in a state the library itself rejects:
if violations:
    h = fill_1d()
    for label, op in [("h.copy() * 2", lambda: h.copy() * 2), ("h[0:2]", lambda: h[0:2]), ("h.normalize()", lambda: h.normalize())]:
        try:
            op()
            print(f"afterwards {label}: ok")
        except ValueError as exc:
            print(f"afterwards {label}: ValueError: {exc}")

if violations:
    print(f"\nVIOLATION of C19 in {len(violations)} case(s): negative contents accepted while free arithmetics is disabled")
    sys.exit(1)
print("\nno violation observed")
