"""C19: an array operand on the left of `+` is accepted while free arithmetics is DISABLED
(if it has a single element equal to zero), whatever the shape of the histogram."""
import sys
import warnings

import numpy as np

from physt import h1
from physt.config import config

warnings.simplefilter("ignore")
assert config.free_arithmetics is False, "run without PHYST_FREE_ARITHMETICS=1"

h = h1([1, 2, 2, 3, 3, 3, 4.5], bins=[0, 1, 2, 3, 4, 5])   # 5 bins
one_bin = h1([0.5], bins=[0, 1])                            # 1 bin: the shapes even match

violations = []


def check(label, operation, expect_refusal=True):
    try:
        result = operation()
    except (ValueError, TypeError) as exc:
        print(f"{label}: refused with {type(exc).__name__}: {str(exc)[:70]}")
        return
    print(f"{label}: ACCEPTED -> {type(result).__name__} {np.asarray(result.frequencies).tolist()}"
          f" (free_arithmetics={config.free_arithmetics})")
    if expect_refusal:
        print("    statement demands: an error (array-like operands only while free arithmetics is enabled)")
        violations.append(label)


print("-- references, switch off: array operands are refused")
check("h + np.zeros(5)            ", lambda: h + np.zeros(5))
check("h + np.zeros(1)            ", lambda: h + np.zeros(1))
check("one_bin + np.zeros(1)      ", lambda: one_bin + np.zeros(1))
check("np.ones(1) + one_bin       ", lambda: np.ones(1) + one_bin)
check("np.zeros(1) * h            ", lambda: np.zeros(1) * h)

print("-- switch off: the same operands on the left of +")
check("np.zeros(1) + one_bin      ", lambda: np.zeros(1) + one_bin)
check("np.zeros(1) + h  (5 bins)  ", lambda: np.zeros(1) + h)
check("np.array(0) + h   (0-d)    ", lambda: np.array(0) + h)
check("np.array([[0.0]]) + h (2-d)", lambda: np.array([[0.0]]) + h)
check("np.zeros(1, bool) + h      ", lambda: np.zeros(1, dtype=bool) + h)

print("-- the answer depends on the VALUES in the array, not on the switch:")
for free in (False, True):
    with config.enable_free_arithmetics(free):
        for operand in (np.zeros(1), np.ones(1)):
            try:
                r = operand + one_bin
                outcome = f"accepted -> {r.frequencies.tolist()} dtype {r.dtype}, same object as operand: {r is one_bin}"
            except (ValueError, TypeError) as exc:
                outcome = f"refused ({type(exc).__name__})"
            print(f"   free={free!s:5}  {operand!r:14} + one_bin : {outcome}")

if violations:
    print(f"\nVIOLATION of C19 in {len(violations)} case(s): array operands accepted while free arithmetics is disabled")
    sys.exit(1)
print("\nno violation observed")
