"""C20 / matplotlib `image`: cells of a histogram whose equally wide bins have gaps
are drawn at the wrong positions (the statement: "2D maps and images draw one cell per
bin at the bin's position")."""
import sys

import matplotlib

matplotlib.use("Agg")
import numpy as np

import physt

rng = np.random.default_rng(0)
x = rng.uniform(0, 6, 600)
y = rng.uniform(0, 3, 600)
full = physt.h2(x, y, "fixed_width", bin_width=1)  # x bins [0,1] ... [5,6], y bins [0,1],[1,2],[2,3]
sub = full[::2, :]                                    # keeps x bins [0,1], [2,3], [4,5]
before = sub.copy()

print("x bins of the histogram :", sub.bins[0].tolist())
print("y bins of the histogram :", sub.bins[1].tolist())

# Reference: the `map` kind puts every rectangle exactly on its bin
ax_map = sub.plot("map", show_colorbar=False)
map_cells = sorted({(float(p.get_x()), float(p.get_x() + p.get_width())) for p in ax_map.patches})
print("map   : x extents of the cells =", map_cells)

try:
    ax = sub.plot("image", show_colorbar=False)
except Exception as exc:  # a refusal would be fine (plotly's map refuses such bins)
    print("image refused the histogram:", repr(exc))
    print("OK")
    sys.exit(0)

im = ax.images[0]
x0, x1, y0, y1 = (float(v) for v in im.get_extent())
arr = np.asarray(im.get_array())
ncols = arr.shape[1]
col_w = (x1 - x0) / ncols
img_cells = [(x0 + j * col_w, x0 + (j + 1) * col_w) for j in range(ncols)]
print("image : x extents of the cells =", [(round(a, 3), round(b, 3)) for a, b in img_cells])

bad = []
for j, (lo, hi) in enumerate(sub.bins[0].tolist()):
    a, b = img_cells[j]
    if not (np.isclose(a, lo) and np.isclose(b, hi)):
        bad.append(f"  x bin {j} = [{lo}, {hi}] is drawn over [{a:.3f}, {b:.3f}]")

# What the picture shows at a few probe points (value of the pixel under the point)
def shown_at(px, py):
    col = int((px - x0) // col_w)
    row_from_bottom = int((py - y0) // ((y1 - y0) / arr.shape[0]))
    return float(arr[arr.shape[0] - 1 - row_from_bottom, col])

for px in (1.5, 2.5, 3.2):
    py = 0.5
    in_bin = [i for i, (lo, hi) in enumerate(sub.bins[0].tolist()) if lo <= px < hi]
    demanded = float(sub.frequencies[in_bin[0], 0]) if in_bin else None
    print(f"pixel at x={px}, y={py}: image shows {shown_at(px, py)}; "
          f"the statement demands {demanded if in_bin else 'nothing (the point lies in a gap)'}")
    if in_bin and shown_at(px, py) != demanded:
        bad.append(f"  at x={px} the image shows {shown_at(px, py)} instead of {demanded}")
    if not in_bin:
        bad.append(f"  at x={px} (a gap between the bins) the image shows the value {shown_at(px, py)}")

assert sub == before, "plotting modified the histogram"

# Second case: explicit bins [0,1], [1,2], [5,6] (equal widths, one gap) - here a point
# INSIDE a bin is painted with the value of another bin
from physt.types import Histogram2D

h = Histogram2D(
    [np.array([[0, 1], [1, 2], [5, 6.0]]), np.array([[0, 1.0]])],
    frequencies=np.array([[10.0], [20.0], [30.0]]),
)
ax = h.plot("image", show_colorbar=False)
im = ax.images[0]
x0, x1, y0, y1 = (float(v) for v in im.get_extent())
arr = np.asarray(im.get_array())
col_w = (x1 - x0) / arr.shape[1]
print("second histogram, x bins:", h.bins[0].tolist(), "frequencies:", h.frequencies[:, 0].tolist())
for px, demanded in ((0.5, 10.0), (1.5, 20.0), (5.5, 30.0), (3.0, None)):
    shown = float(arr[0, int((px - x0) // col_w)])
    print(f"pixel at x={px}: image shows {shown}; the statement demands "
          f"{demanded if demanded is not None else 'nothing (gap)'}")
    if shown != demanded:
        bad.append(f"  second histogram: at x={px} the image shows {shown} instead of {demanded}")

if bad:
    print("VIOLATION: the image cells are not at the bins' positions:")
    print("\n".join(bad))
    sys.exit(1)
print("OK")
