"""C20 / plotly backend: `line` and `scatter` accept `errors=True`, `title=`, `xlabel=`, `ylabel=` and
silently drop them; no plotly figure carries the histogram's title or axis names.

The statement: "error bars span +-sqrt(errors2) (divided by bin size for densities) ... and title and
axis labels come from the histogram's metadata unless overridden" - for the matplotlib, plotly and
ASCII backends.
"""
import sys

import numpy as np

from physt import plotting
from physt.types import Histogram1D, Histogram2D

h1 = Histogram1D(
    [0.0, 1.0, 3.0, 7.0],
    frequencies=[1.0, 2.0, 5.0],
    errors2=[1.0, 4.0, 9.0],
    name="counts",
    title="My title",
    axis_name="energy",
)
h2 = Histogram2D(
    [np.array([0.0, 1, 2]), np.array([0.0, 1, 3])],
    frequencies=[[1.0, 2], [3, 4]],
    title="My 2D title",
    axis_names=["a", "b"],
)
before1, before2 = h1.copy(), h2.copy()
bad = []


def err_array(trace):
    arr = trace.error_y.array
    return None if arr is None else [float(v) for v in arr]


# --- error bars -------------------------------------------------------------------------------
for kind in ("scatter", "line"):
    for density in (False, True):
        demanded = h1.errors / h1.bin_widths if density else h1.errors
        fig = plotting.plot(h1, kind, backend="plotly", errors=True, density=density)
        trace = fig.data[0]
        shown = err_array(trace)
        print(f"plotly {kind}(errors=True, density={density}): y = {[float(v) for v in trace.y]}")
        print(f"    error bars demanded: +-{[float(v) for v in demanded]};  error bars in the figure: {shown}")
        if shown is None or not np.allclose(shown, demanded):
            bad.append(f"{kind}(errors=True, density={density}) is accepted but the figure has no error bars")

# --- title and axis labels from the metadata --------------------------------------------------
for kind, h in (("bar", h1), ("scatter", h1), ("line", h1), ("map", h2)):
    fig = plotting.plot(h, kind, backend="plotly")
    shown = (fig.layout.title.text, fig.layout.xaxis.title.text, fig.layout.yaxis.title.text)
    demanded = (h.title, h.axis_names[0], h.axis_names[1] if h.ndim == 2 else None)
    print(f"plotly {kind}: (title, xlabel, ylabel) demanded {demanded}; in the figure {shown}")
    if shown[0] != demanded[0] or shown[1] != demanded[1] or (h.ndim == 2 and shown[2] != demanded[2]):
        bad.append(f"{kind}: the figure does not carry the histogram's title / axis names: {shown}")

# --- overrides --------------------------------------------------------------------------------
for kind in ("scatter", "line"):
    fig = plotting.plot(h1, kind, backend="plotly", title="Override", xlabel="X", ylabel="Y")
    shown = (fig.layout.title.text, fig.layout.xaxis.title.text, fig.layout.yaxis.title.text)
    print(f"plotly {kind}(title='Override', xlabel='X', ylabel='Y'): accepted; in the figure {shown}; "
          f"demanded ('Override', 'X', 'Y')")
    if shown != ("Override", "X", "Y"):
        bad.append(f"{kind}: the overriding title / labels are accepted and dropped: {shown}")

assert h1 == before1 and h2 == before2, "plotting modified a histogram"

if bad:
    print("VIOLATION:")
    for b in bad:
        print("  -", b)
    sys.exit(1)
print("OK")
