"""C20 / ASCII `map`: the cells are drawn transposed with respect to the axes the plot itself
labels (the statement: "2D maps and images draw one cell per bin at the bin's position")."""
import io
import os
import re
import select
import sys

import numpy as np

from physt import plotting
from physt.types import Histogram2D


def capture_on_terminal(fn):
    """Run fn() with file descriptor 1 attached to a pseudo-terminal and return what it printed.

    (xtermcolor, which the ASCII backend uses for the colours, drops the colour codes when
    standard output is not a terminal.)
    """
    master, slave = os.openpty()
    sys.stdout.flush()
    saved_fd = os.dup(1)
    os.dup2(slave, 1)
    saved_stdout = sys.stdout
    sys.stdout = io.TextIOWrapper(os.fdopen(os.dup(1), "wb"), encoding="utf-8")
    try:
        fn()
    finally:
        sys.stdout.flush()
        sys.stdout.close()
        sys.stdout = saved_stdout
        os.dup2(saved_fd, 1)
        os.close(saved_fd)
        os.close(slave)
    chunks = []
    while select.select([master], [], [], 0.3)[0]:
        try:
            chunk = os.read(master, 65536)
        except OSError:
            break
        if not chunk:
            break
        chunks.append(chunk)
    os.close(master)
    return b"".join(chunks).decode("utf-8").replace("\r\n", "\n")


def capture_plain(fn):
    buf = io.StringIO()
    saved = sys.stdout
    sys.stdout = buf
    try:
        fn()
    finally:
        sys.stdout = saved
    return buf.getvalue()


# axis 0 ("x"): 4 bins over [0, 4];  axis 1 ("y"): 2 bins over [10, 12]
# the only filled bin is x in [3, 4], y in [10, 11]   ->  highest x, lowest y
freq = np.zeros((4, 2))
freq[3, 0] = 7.0
h2 = Histogram2D(
    [np.array([0.0, 1, 2, 3, 4]), np.array([10.0, 11, 12])],
    frequencies=freq,
    axis_names=["x", "y"],
)
before = h2.copy()


def draw():
    plotting.plot(h2, "map", backend="ascii")


try:
    out = capture_on_terminal(draw)
    coloured = "\x1b[" in out
except OSError:  # no pseudo-terminals available: the geometry alone still shows the problem
    out = capture_plain(draw)
    coloured = False

assert h2 == before, "plotting modified the histogram"

ansi = re.compile(r"\x1b\[[0-9;]*m")
print("--- what the ASCII map prints (colour codes removed) ---")
print(ansi.sub("", out))
print("--------------------------------------------------------")

lines = out.split("\n")
plain = [ansi.sub("", line) for line in lines]
frame = [i for i, line in enumerate(plain) if line.startswith("+-")]
rows = lines[frame[0] + 1 : frame[1]]
n_rows = len(rows)
n_cols = ansi.sub("", rows[0]).count("█")

horizontal_labels = [plain[0].strip(), plain[frame[1] + 1].strip()]  # "4.00 →", "← 0.00"
vertical_labels = [
    plain[frame[0] + 1].split("|")[-1].strip(),  # "12.00 ↑"
    plain[frame[1] - 1].split("|")[-1].strip(),  # "10.00 ↓"
]
print("labels along the horizontal direction:", horizontal_labels, "-> the edges of axis 0 (x: 0 .. 4)")
print("labels along the vertical direction  :", vertical_labels, "-> the edges of axis 1 (y: 10 .. 12)")
print(f"the statement demands a frame of {h2.shape[0]} columns (x bins) by {h2.shape[1]} rows (y bins)")
print(f"observed: {n_cols} columns by {n_rows} rows")

bad = []
if (n_cols, n_rows) != (h2.shape[0], h2.shape[1]):
    bad.append(
        f"the frame has {n_cols} columns x {n_rows} rows, but the axis labelled horizontally (x) has "
        f"{h2.shape[0]} bins and the one labelled vertically (y) has {h2.shape[1]}"
    )

if coloured:
    # one foreground colour code per cell; with the default colour map (Greys_r) zero is black (16)
    # and the maximum is white (231)
    codes = [[int(c) for c in re.findall(r"\x1b\[38;5;(\d+)m", row)] for row in rows]
    print("colour codes of the cells, row by row from the top:", codes)
    white = [(r, c) for r, row in enumerate(codes) for c, code in enumerate(row) if code == 231]
    print("the only filled bin is x in [3, 4] (the highest x), y in [10, 11] (the lowest y)")
    print("the statement demands the white cell at the RIGHT end ('4.00 →') of the BOTTOM row ('10.00 ↓')")
    if len(white) != 1:
        bad.append(f"expected exactly one white cell, found {len(white)}")
    else:
        r, c = white[0]
        vert = "top" if r == 0 else ("bottom" if r == n_rows - 1 else "a middle")
        horiz = "left" if c == 0 else ("right" if c == n_cols - 1 else "a middle")
        print(f"observed: the white cell is in the {vert} row and the {horiz} column "
              f"(row {r} from the top, column {c} from the left)")
        if not (r == n_rows - 1 and c == n_cols - 1):
            bad.append(f"the filled bin (highest x, lowest y) is drawn in the {vert} row / {horiz} column")
else:
    print("(no terminal available: colours not checked)")

if bad:
    print("VIOLATION: the cells are not at the bins' positions:")
    for b in bad:
        print("  -", b)
    sys.exit(1)
print("OK")
