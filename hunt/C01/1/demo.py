"""C01: unsigned integer weights / unsigned dtype -> bin contents, errors and
underflow silently wrap around instead of holding the sum of the weights."""
import sys
import warnings

import numpy as np

from physt import h1

warnings.simplefilter("ignore")
failures = []


def report(label, h, exp_freq, exp_err2, exp_under, exp_over, total_weight):
    print(f"--- {label}")
    print(f"  frequencies : {h.frequencies.tolist()}   statement demands {exp_freq}")
    print(f"  errors2     : {h.errors2.tolist()}   statement demands {exp_err2}")
    print(f"  underflow   : {h.underflow}   statement demands {exp_under}")
    print(f"  overflow    : {h.overflow}   statement demands {exp_over}")
    conserved = h.total + h.underflow + h.overflow
    print(f"  total+under+over = {conserved}   statement demands {total_weight}")
    ok = (
        h.frequencies.tolist() == exp_freq
        and h.errors2.tolist() == exp_err2
        and h.underflow == exp_under
        and h.overflow == exp_over
        and conserved == total_weight
    )
    if not ok:
        failures.append(label)


edges = [0.0, 1.0, 2.0]

# (a) weights that come as an unsigned 8-bit array (e.g. pixel intensities)
data = [0.5, 0.5, 1.5]
weights = np.array([200, 200, 20], dtype=np.uint8)
h = h1(data, edges, weights=weights)
report("uint8 weights [200, 200, 20]", h, [400, 20], [80000, 400], 0, 0, 420)

# (b) 16-bit unsigned weights: 40000 + 40000 does not fit into uint16 either
weights = np.array([40000, 40000, 20], dtype=np.uint16)
h = h1(data, edges, weights=weights)
report("uint16 weights [40000, 40000, 20]", h, [80000, 20], [3200000000, 400], 0, 0, 80020)

# (c) no weights at all, but an unsigned dtype for the contents
data = [0.5] * 300 + [-1.0] * 300 + [5.0]
h = h1(data, edges, dtype=np.uint8)
report("300 values in one bin, 300 below, dtype=uint8", h, [300, 0], [300, 0], 300, 1, 601)

# (d) the signed counterpart is refused (which is fine), so the behaviour is not even uniform
try:
    h1(data, edges, dtype=np.int8)
    print("--- dtype=int8: accepted")
except OverflowError as exc:
    print(f"--- dtype=int8 is refused: {exc}")

if failures:
    print("\nVIOLATION of C01 (bin = sum of weights, errors2 = sum of squared weights, "
          "total+underflow+overflow = input weight) in:", failures)
    sys.exit(1)
print("no violation observed")
