"""C01: h1 accepts data in the form (name, values) - and then silently ignores
weights, dtype, keep_missed, dropna (and adaptive / axis_name / title)."""
import sys
import warnings

import numpy as np

from physt import h1

warnings.simplefilter("ignore")
failures = []
edges = [0.0, 1.0, 2.0]
values = np.array([0.5, 0.5, 1.5, 7.0])
weights = [2.0, 2.0, 3.0, 5.0]

plain = h1(values, edges, weights=weights)
named = h1(("sample", values), edges, weights=weights)

print("h1(values, edges, weights=[2, 2, 3, 5])")
print(f"  frequencies {plain.frequencies.tolist()} errors2 {plain.errors2.tolist()} "
      f"overflow {plain.overflow}")
print("h1(('sample', values), edges, weights=[2, 2, 3, 5])   <- same data, only named")
print(f"  frequencies {named.frequencies.tolist()} errors2 {named.errors2.tolist()} "
      f"overflow {named.overflow}   (name={named.name!r})")
print("  statement demands frequencies [4.0, 3.0], errors2 [8.0, 9.0], overflow 5.0")
if (
    named.frequencies.tolist() != [4.0, 3.0]
    or named.errors2.tolist() != [8.0, 9.0]
    or named.overflow != 5.0
):
    failures.append("weights ignored")

named = h1(("sample", values), edges, dtype=np.float64)
print(f"dtype=float64 requested -> {named.dtype}")
if named.dtype != np.float64:
    failures.append("dtype ignored")

named = h1(("sample", values), edges, keep_missed=False)
print(f"keep_missed=False requested -> keep_missed={named.keep_missed}, overflow={named.overflow}")
if named.keep_missed:
    failures.append("keep_missed ignored")

with_nan = np.array([0.5, np.nan, 1.5])
try:
    h1(with_nan, edges, dropna=False)
    print("dropna=False with a NaN (plain array): accepted")
except ValueError as exc:
    print(f"dropna=False with a NaN (plain array): refused ({exc})")
try:
    named = h1(("sample", with_nan), edges, dropna=False)
    print(f"dropna=False with a NaN (named): accepted, frequencies {named.frequencies.tolist()}")
    failures.append("dropna ignored")
except ValueError as exc:
    print(f"dropna=False with a NaN (named): refused ({exc})")

if failures:
    print("\nVIOLATION of C01 (each bin holds the sum of the WEIGHTS of its values; "
          "x dtype x keep_missed x dropna):", failures)
    sys.exit(1)
print("no violation observed")
