"""C01: errors2 is not the sum of the squared weights for integer weights whose
squares do not fit into the weights' own integer type (the sums themselves fit
comfortably)."""
import sys
import warnings

import numpy as np

from physt import h1

warnings.simplefilter("ignore")
failures = []
edges = [0.0, 1.0, 2.0]
data = [0.5, 1.5, 1.5]


def run(label, weights):
    exp_freq = [int(weights[0]), int(weights[1]) + int(weights[2])]
    exp_err2 = [int(weights[0]) ** 2, int(weights[1]) ** 2 + int(weights[2]) ** 2]
    print(f"--- {label}: weights {weights.tolist()} ({weights.dtype})")
    try:
        h = h1(data, edges, weights=weights)
    except Exception as exc:  # a refusal would be acceptable
        print(f"  refused: {type(exc).__name__}: {exc}")
        return
    print(f"  frequencies : {h.frequencies.tolist()} ({h.dtype})   statement demands {exp_freq}")
    print(f"  errors2     : {h.errors2.tolist()}   statement demands {exp_err2}")
    if h.errors2.tolist() != exp_err2 or h.frequencies.tolist() != exp_freq:
        failures.append(label)


# int32: the default integer type of numpy < 2 on Windows, of many file formats, ...
run("int32", np.array([70000, 3, 4], dtype=np.int32))
# int16 is one of the explicitly supported content types of physt
run("int16", np.array([300, 3, 4], dtype=np.int16))
# unsigned weights (their sums fit as well)
run("uint16", np.array([300, 3, 4], dtype=np.uint16))
# plain python ints -> int64
run("int64", np.array([2**32, 3, 4], dtype=np.int64))
# control: the same numbers as floats
run("float64 (control)", np.array([70000.0, 3.0, 4.0]))

if failures:
    print("\nVIOLATION of C01 (each bin's squared error is the sum of the squared weights) in:",
          failures)
    sys.exit(1)
print("no violation observed")
