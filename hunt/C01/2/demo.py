"""C01: values that fall into a gap between non-consecutive bins are lost, yet
underflow / overflow are reported as ordinary numbers (not "unknown") when the
gap is small *relative to the magnitude of the edges* (or below 1e-8)."""
import sys
import warnings

import numpy as np

from physt import h1

warnings.simplefilter("ignore")
failures = []


def run(label, data, bins, weights=None):
    h = h1(data, bins, weights=weights)
    w = np.ones(len(data)) if weights is None else np.asarray(weights, float)
    total_weight = w.sum()
    print(f"--- {label}")
    print(f"  bins        : {h.bins.tolist()}")
    print(f"  data        : {list(data)}")
    print(f"  frequencies : {h.frequencies.tolist()}")
    print(f"  underflow   : {h.underflow}   overflow: {h.overflow}")
    known = not (np.isnan(h.underflow) or np.isnan(h.overflow))
    if known:
        s = h.total + h.underflow + h.overflow
        print(f"  under/overflow are reported as known numbers, so the statement demands")
        print(f"  total+under+over == input weight: {s} vs {total_weight}")
        if s != total_weight:
            print("  -> a value in the gap was counted nowhere and nothing says so")
            failures.append(label)
    else:
        print("  under/overflow unknown (nan) - as the statement demands for gapped bins")


# Gap as wide as the bins themselves, just far away from zero
run(
    "bins [1e6,1e6+1] and [1e6+2,1e6+3]; 1000001.5 lies in the gap",
    [1000000.5, 1000001.5, 1000002.5, 5.0, 2.0e6],
    [[1000000.0, 1000001.0], [1000002.0, 1000003.0]],
)

# The same layout around zero behaves as the statement says
run(
    "control: bins [0,1] and [2,3]; 1.5 lies in the gap",
    [0.5, 1.5, 2.5, -5.0, 2.0e6],
    [[0.0, 1.0], [2.0, 3.0]],
)

# Small numbers: a gap of half a bin width, but below the absolute tolerance 1e-8
run(
    "bins [0,2e-9] and [3e-9,4e-9]; 2.5e-9 lies in the gap (weights 1,2,4)",
    [1.0e-9, 2.5e-9, 3.5e-9],
    [[0.0, 2.0e-9], [3.0e-9, 4.0e-9]],
    weights=[1.0, 2.0, 4.0],
)

if failures:
    print("\nVIOLATION of C01 (gapped bins must report unknown under/overflow; for "
          "consecutive bins nothing may be lost) in:", failures)
    sys.exit(1)
print("no violation observed")
