"""C02: cell contents / missed are wrong when the weights are a small-integer array (int8 / uint8 / ...)."""
import sys
import warnings

import numpy as np

import physt

warnings.simplefilter("ignore")

edges = [0.0, 1.0, 2.0]
n = 300
failed = False

for wtype in (np.uint8, np.int8):
    for label, build in (
        ("h ", lambda w: physt.h(np.full((n, 2), 0.5), [edges, edges], weights=w)),
        ("h2", lambda w: physt.h2(np.full(n, 0.5), np.full(n, 0.5), [edges, edges], weights=w)),
        ("h3", lambda w: physt.h3([np.full(n, 0.5)] * 3, [edges] * 3, weights=w)),
    ):
        w = np.ones(n, dtype=wtype)  # 300 rows, weight 1 each, all in cell (0, 0[, 0])
        hist = build(w)
        cell = hist.frequencies[(0,) * hist.ndim].item()
        print(
            f"{label} weights={wtype.__name__:5s} -> dtype={hist.dtype}, cell[0..]={cell} "
            f"(statement: {n}), missed={hist.missed} (statement: 0), total={hist.total} (statement: {n})"
        )
        if cell != n or hist.missed != 0:
            failed = True

# The same data with the very same weights as a Python list / int64 array is right:
ok = physt.h(np.full((n, 2), 0.5), [edges, edges], weights=[1] * n)
print("reference (list of ints):", ok.frequencies[0, 0], ok.missed)

if failed:
    print("VIOLATION: rows that lie inside a cell were not counted there and were reported as missed")
    sys.exit(1)
print("OK")
