"""C02: errors2 must be the sum of the squared weights - wrong for weights stored in a narrow integer type."""
import sys
import warnings

import numpy as np

import physt

warnings.simplefilter("ignore")

edges = [0.0, 1.0, 2.0]
data = np.array([[0.5, 0.5], [0.5, 1.5], [1.5, 1.5]])
failed = False

for wtype, values in (
    (np.int8, [100, 10, 3]),
    (np.uint8, [100, 20, 3]),
    (np.uint16, [300, 20, 3]),
    (np.uint32, [100000, 20, 3]),
    (np.int32, [100000, 20, 3]),
):
    w = np.array(values, dtype=wtype)
    for label, build in (
        ("h ", lambda: physt.h(data, [edges, edges], weights=w)),
        ("h2", lambda: physt.h2(data[:, 0], data[:, 1], [edges, edges], weights=w)),
        ("h + dtype=int64", lambda: physt.h(data, [edges, edges], weights=w, dtype=np.int64)),
    ):
        try:
            hist = build()
        except ValueError as exc:  # a refusal would not be a violation
            print(label, wtype.__name__, "refused:", exc)
            continue
        expected = np.array([[values[0] ** 2, values[1] ** 2], [0, values[2] ** 2]])
        print(
            f"{label:16s} weights={wtype.__name__:6s}{values}: dtype={hist.dtype} "
            f"frequencies={hist.frequencies.tolist()} errors2={hist.errors2.tolist()} "
            f"(statement: {expected.tolist()})"
        )
        if not np.array_equal(hist.errors2, expected):
            failed = True

if failed:
    print("VIOLATION: squared errors are not the sums of squared weights")
    sys.exit(1)
print("OK")
