"""C02: with dtype=<narrow integer>, cell contents wrap around and total + missed != number of rows."""
import sys
import warnings

import numpy as np

import physt

warnings.simplefilter("ignore")

edges = [0.0, 1.0, 2.0]
n = 300
# 300 rows in cell (0, 0), 300 rows outside of all bins
data = np.concatenate([np.full((n, 2), 0.5), np.full((n, 2), 7.0)])
failed = False

for dtype in (np.int8, np.uint8, "int8"):
    for label, build in (
        ("h ", lambda: physt.h(data, [edges, edges], dtype=dtype)),
        ("h2", lambda: physt.h2(data[:, 0], data[:, 1], [edges, edges], dtype=dtype)),
    ):
        try:
            hist = build()
        except ValueError as exc:  # a refusal would be fine
            print(label, dtype, "refused:", exc)
            continue
        print(
            f"{label} dtype={dtype!r}: cell[0,0]={hist.frequencies[0, 0]} (statement: {n}), "
            f"missed={hist.missed} (statement: {n}), total+missed={hist.total + hist.missed} "
            f"(statement: {2 * n})"
        )
        if hist.frequencies[0, 0] != n or hist.missed != n or hist.total + hist.missed != 2 * n:
            failed = True

# int weights + narrower requested dtype: same thing
try:
    hist = physt.h(data, [edges, edges], weights=np.full(2 * n, 1, dtype=np.int64), dtype=np.int8)
    print("int64 weights, dtype=int8:", hist.frequencies[0, 0], hist.missed, "(statement: 300, 300)")
    failed = failed or hist.frequencies[0, 0] != n
except ValueError as exc:
    print("int64 weights, dtype=int8 refused:", exc)

# The library itself knows that this must be refused when done after the construction:
wide = physt.h(data, [edges, edges])
try:
    wide.dtype = np.int8
    print("set_dtype(int8) accepted ?!")
except ValueError as exc:
    print("for comparison, h.dtype = int8 on the finished histogram is refused:", exc)

if failed:
    print("VIOLATION: silently wrapped cell contents / missed count")
    sys.exit(1)
print("OK")
