"""C02: exact int64 weights are accumulated in float64 -> wrong cell content and a phantom missed count."""
import sys
import warnings

import numpy as np

import physt

warnings.simplefilter("ignore")

edges = [0.0, 1.0, 2.0]
failed = False

# (a) one row, inside cell (0, 0); nothing can be missed
big = 2**53 + 1
data = np.array([[0.5, 0.5]])
w = np.array([big], dtype=np.int64)
for label, build in (
    ("h ", lambda: physt.h(data, [edges, edges], weights=w)),
    ("h2", lambda: physt.h2(data[:, 0], data[:, 1], [edges, edges], weights=w)),
    ("h3", lambda: physt.h3([data[:, 0], data[:, 0], data[:, 1]], [edges] * 3, weights=w)),
):
    try:
        hist = build()
    except ValueError as exc:  # a refusal would not be a violation
        print(f"(a) {label}: refused: {exc}")
        continue
    cell = hist.frequencies[(0,) * hist.ndim].item()
    print(
        f"(a) {label}: dtype={hist.dtype} cell={cell} (statement: {big}), "
        f"missed={hist.missed} (statement: 0)"
    )
    if cell != big or hist.missed != 0:
        failed = True

# (b) ordinary-looking weights that only add up to something large
data = np.full((3, 2), 0.5)
w = np.array([2**53, 1, 1], dtype=np.int64)
try:
    hist = physt.h(data, [edges, edges], weights=w)
    print(
        f"(b) weights [2**53, 1, 1] in one cell: cell={hist.frequencies[0, 0]} (statement: {2**53 + 2}), "
        f"missed={hist.missed} (statement: 0); dtype={hist.dtype}"
    )
    if hist.frequencies[0, 0] != 2**53 + 2 or hist.missed != 0:
        failed = True
except ValueError as exc:
    print("(b) refused:", exc)

if failed:
    print("VIOLATION: weight of rows inside a cell is reported as missed; cell content is not the weight sum")
    sys.exit(1)
print("OK")
