"""C07: a binning derived from data covers all the data it was derived from (exactly).

numpy_binning (h1(data), h1(data, 10), h1(data, "sturges"), ...) falls back to "the narrowest possible bins"
when the data range is too narrow for bin_count distinct linspace edges.  The fallback takes bin_count single-ulp
steps from the minimum - but when the data straddle a power of two, the ulp above it is twice the ulp below it, so
the linspace edges may collide although the range is wider than bin_count of the (small) ulps: the fallback bins
then end below the maximum of the data.
"""
import sys

import numpy as np

import physt
from physt.binnings import numpy_binning

failures = []


def steps(x, n):
    for _ in range(abs(n)):
        x = np.nextafter(x, np.inf if n > 0 else -np.inf)
    return x


def check(label, data, bins_arg, make):
    lo, hi = data.min(), data.max()
    binning = make()
    e = binning.numpy_bins
    rising = bool(np.all(np.diff(e) > 0))
    print(f"--- {label}")
    print(f"data min / max        : {lo!r} / {hi!r}")
    print(f"first / last edge     : {binning.first_edge!r} / {binning.last_edge!r}   ({binning.bin_count} bins, rising={rising})")
    print(f"statement             : first_edge <= min and last_edge >= max")
    print(f"observed              : first_edge <= min: {binning.first_edge <= lo},  last_edge >= max: {binning.last_edge >= hi}")
    try:
        np.histogram(data, bins_arg)
        print("numpy.histogram       : accepts these arguments")
    except ValueError as exc:
        print(f"numpy.histogram       : refuses ({exc})")
    if not (binning.first_edge <= lo and binning.last_edge >= hi and rising):
        failures.append(f"{label}: edges [{binning.first_edge!r}, {binning.last_edge!r}] do not cover data [{lo!r}, {hi!r}]")


# the 10th float below 1.0 and the 2nd float above it
data = np.array([steps(1.0, -10), 1.0, steps(1.0, 2)])
check("numpy_binning(data, 10) around 1.0", data, 10, lambda: numpy_binning(data, 10))

h = physt.h1(data)  # default arguments
print(f"h1(data): frequencies={h.frequencies.tolist()} underflow={h.underflow} overflow={h.overflow}")
print("statement             : bins derived from the data contain all of them -> overflow == 0")
if h.overflow != 0 or h.underflow != 0:
    failures.append(f"h1(data): the bins derived from the data miss {h.overflow + h.underflow} of its {data.size} values")

# the same at another power of two, another bin count, through a bin-count rule
data2 = np.concatenate([[steps(1024.0, -5)], np.full(30, 1024.0), [steps(1024.0, 2)]])
check('h1(data2, "sqrt") around 1024', data2, "sqrt", lambda: physt.h1(data2, "sqrt").binning)

# control: the documented infinitesimal range (no power of two in between) is covered
data3 = np.array([1.0, steps(1.0, 1)])
check("control: [1, nextafter(1)]", data3, 10, lambda: numpy_binning(data3, 10))

print()
if failures:
    print("VIOLATIONS:")
    for f in failures:
        print(" *", f)
    sys.exit(1)
print("no violation")
