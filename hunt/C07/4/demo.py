"""C07: every binning has strictly rising bins with left < right; unsorted / empty-width specifications are refused
(scope: all binning classes).

ExponentialBinning (the class, and BinningBase.from_dict / the JSON reader that build it) accepts log_width <= 0
(and NaN): the result is a binning whose edges fall or whose bins are all empty, while every other class
(StaticBinning, NumpyBinning, FixedWidthBinning) and the exponential_binning() function refuse the equivalent input.
"""
import sys

import numpy as np

from physt.binnings import (
    BinningBase,
    ExponentialBinning,
    FixedWidthBinning,
    NumpyBinning,
    StaticBinning,
    exponential_binning,
)

failures = []


def report(label, make):
    try:
        b = make()
        bins = np.asarray(b.bins)
    except Exception as exc:
        print(f"{label:75s}: refused ({type(exc).__name__}: {exc})")
        return
    ok = bool(np.all(bins[:, 0] < bins[:, 1]) and np.all(bins[1:, 0] >= bins[:-1, 1]))
    print(f"{label:75s}: accepted, numpy_bins={b.numpy_bins.tolist()} -> "
          + ("well-formed" if ok else "NOT rising / left >= right"))
    if not ok:
        failures.append(f"{label}: accepted with edges {b.numpy_bins.tolist()}")


print("equivalent specifications in the other classes / the facade function (statement: refused):")
report("StaticBinning([1, 0.1, 0.01])", lambda: StaticBinning([1, 0.1, 0.01]))
report("NumpyBinning([1, 1, 1])", lambda: NumpyBinning([1, 1, 1]))
report("FixedWidthBinning(bin_width=0, bin_count=2, min=1)", lambda: FixedWidthBinning(bin_width=0, bin_count=2, min=1))
report("FixedWidthBinning(bin_width=-1, bin_count=2, min=1)", lambda: FixedWidthBinning(bin_width=-1, bin_count=2, min=1))
report("exponential_binning(None, 2, range=(1, 0.01))", lambda: exponential_binning(None, 2, range=(1, 0.01)))

print("\nExponentialBinning (statement: refused as well):")
report("ExponentialBinning(log_min=0, log_width=-1, bin_count=2)   [falling edges]", lambda: ExponentialBinning(0.0, -1.0, 2))
report("ExponentialBinning(log_min=0, log_width=0, bin_count=3)    [empty-width bins]", lambda: ExponentialBinning(0.0, 0.0, 3))
report("BinningBase.from_dict({'binning_type': 'ExponentialBinning', log_width=-1})",
       lambda: BinningBase.from_dict({"binning_type": "ExponentialBinning", "log_min": 0.0, "log_width": -1.0, "bin_count": 2}))

try:
    b = ExponentialBinning(0.0, -1.0, 2)
    c = b.copy()
    print("\nthe malformed binning is copied and compared like a valid one: copy == original ->", c == b,
          "; first_edge", b.first_edge, "> last_edge", b.last_edge)
except ValueError:
    pass

print()
if failures:
    print("VIOLATIONS:")
    for f in failures:
        print(" *", f)
    sys.exit(1)
print("no violation")
