"""C07: pair / edge / masked-edge representations and is_consecutive must agree.

A StaticBinning (or NumpyBinning / h1(..., bins=pairs)) with a real gap between two bins is
reported as consecutive and its numpy_bins silently swallow the gap, as soon as the gap is
below rtol=1e-5 of the edge value or below atol=1e-8 in absolute terms.
"""
import sys

import numpy as np

import physt
from physt.binnings import NumpyBinning, StaticBinning

failures = []


def check(label, pairs, probe):
    pairs = np.asarray(pairs, dtype=float)
    b = StaticBinning(pairs)
    exact_consecutive = bool(np.all(pairs[1:, 0] == pairs[:-1, 1]))
    edges_masked, mask = b.numpy_bins_with_mask
    print(f"--- {label}")
    print("bins (pairs)              :", b.bins.tolist())
    print("masked edges, mask        :", edges_masked.tolist(), mask.tolist())
    print("gap really present        :", not exact_consecutive)
    print("is_consecutive()          :", b.is_consecutive(), "  (statement: must agree with the pairs ->", exact_consecutive, ")")
    try:
        e = b.numpy_bins
        rebuilt = np.stack([e[:-1], e[1:]], axis=1)
        print("numpy_bins                :", e.tolist())
        print("pairs implied by the edges:", rebuilt.tolist())
        if not np.array_equal(rebuilt, b.bins):
            failures.append(f"{label}: numpy_bins {e.tolist()} do not describe bins {b.bins.tolist()}")
    except ValueError as exc:
        print("numpy_bins                : refused (", exc, ") - this is what a gapped binning must do")
    if b.is_consecutive() != exact_consecutive:
        failures.append(f"{label}: is_consecutive()={b.is_consecutive()} but the masked edges show a gap")

    # NumpyBinning accepts the same pairs and silently changes the schema
    try:
        nb = NumpyBinning(pairs)
        print("NumpyBinning(pairs).bins  :", nb.bins.tolist(), " (statement: same bins, or refusal)")
        if not np.array_equal(nb.bins, pairs):
            failures.append(f"{label}: NumpyBinning(pairs) silently changed the bins to {nb.bins.tolist()}")
    except ValueError as exc:
        print("NumpyBinning(pairs)       : refused (", exc, ")")

    # The same thing seen through the facade: a value inside the gap disappears without a trace
    h = physt.h1(np.array([probe]), pairs)
    try:
        edges = h.numpy_bins
    except ValueError:
        print(f"h1([{probe!r}], bins=pairs): frequencies={h.frequencies.tolist()} underflow={h.underflow} "
              f"overflow={h.overflow} edges=refused  (correct: unknown missed counts, no edge array)")
        return
    print(f"h1([{probe!r}], bins=pairs): frequencies={h.frequencies.tolist()} underflow={h.underflow} "
          f"overflow={h.overflow} edges={edges.tolist()}")
    print(f"   the value lies inside the reported edges [{edges[0]}, {edges[-1]}], yet total={h.total}, "
          f"missed={h.missed}: it is in no bin and in no missed counter")
    if edges[0] <= probe <= edges[-1] and h.total + np.nan_to_num(h.missed) == 0:
        failures.append(f"{label}: edges {edges.tolist()} claim to cover {probe} but it is in no bin and not in the missed counts")


# relative tolerance: ordinary magnitudes, a gap of width 5 between 1_000_000 and 1_000_005
check("gap of 5 at 1e6", [[0.0, 1.0e6], [1.0e6 + 5, 2.0e6]], 1.0e6 + 2)
# absolute tolerance: small magnitudes (well inside 14 orders), gap 4x wider than the bins
check("gap of 4e-9 between bins of width 1e-9", [[0.0, 1e-9], [5e-9, 6e-9]], 3e-9)
# control: an obviously gapped binning behaves as demanded
check("control: gap of 1 at 1", [[0.0, 1.0], [2.0, 3.0]], 1.5)
failures = [f for f in failures if not f.startswith("control")]

# related: is_regular() uses the same kind of absolute tolerance
r = StaticBinning([0.0, 1e-9, 5e-9])
print("--- related: StaticBinning([0, 1e-9, 5e-9]).is_regular() ->", r.is_regular(), " widths:", np.diff(r.numpy_bins).tolist())

print()
if failures:
    print("VIOLATIONS:")
    for f in failures:
        print(" *", f)
    sys.exit(1)
print("no violation")
