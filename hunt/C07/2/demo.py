"""C07: every binning has strictly rising bins; slicing agrees with bins / bin_count / numpy_bins;
unsorted specifications are refused.

Indexing a binning (binning[...]) stores the selected rows without any validation, so
 * a slice with a negative step, or an index list / array in falling order, returns a StaticBinning whose
   bins run backwards (the very array that StaticBinning(...) refuses as "Bins must be in rising order");
   Histogram1D[[2, 0]] hands such a binning to a new histogram;
 * an integer index on a StaticBinning returns a "binning" whose bins are 1-D (shape (2,)), bin_count == 2,
   while numpy_bins has 2 edges (= 1 bin).
"""
import sys

import numpy as np

import physt
from physt.binnings import FixedWidthBinning, NumpyBinning, StaticBinning, fixed_width_binning

failures = []


def well_formed(b):
    bins = np.asarray(b.bins)
    if bins.ndim != 2 or bins.shape[1] != 2:
        return False, f"bins have shape {bins.shape}, not (bin_count, 2)"
    if b.bin_count != bins.shape[0]:
        return False, "bin_count != number of pairs"
    if not np.all(bins[:, 0] < bins[:, 1]):
        return False, "left >= right"
    if not np.all(bins[1:, 0] >= bins[:-1, 1]):
        return False, "bins are not in rising order / overlap"
    return True, "ok"


def report(label, make):
    try:
        result = make()
    except Exception as exc:  # a refusal is fine
        print(f"{label:55s}: refused ({type(exc).__name__}: {exc})")
        return
    ok, why = well_formed(result)
    print(f"{label:55s}: {type(result).__name__} bins={np.asarray(result.bins).tolist()} -> {why}")
    if not ok:
        failures.append(f"{label}: {why}")


print("the constructor refuses the reversed pairs, as the statement demands:")
report("StaticBinning([[2,3],[1,2],[0,1]])", lambda: StaticBinning([[2, 3], [1, 2], [0, 1]]))

print("\nbut indexing produces exactly such binnings (statement: rising bins, or a refusal):")
static = StaticBinning([[0, 1], [1, 2], [2, 3]])
numpy_b = NumpyBinning([0.0, 1.0, 2.0, 3.0])
fixed = fixed_width_binning(np.array([0.5, 2.5]), 1.0)
assert isinstance(fixed, FixedWidthBinning)
report("StaticBinning[::-1]", lambda: static[::-1])
report("StaticBinning[2:0:-1]", lambda: static[2:0:-1])
report("StaticBinning[[2, 0]]", lambda: static[[2, 0]])
report("StaticBinning[np.array([2, 0])]", lambda: static[np.array([2, 0])])
report("NumpyBinning[::-1]", lambda: numpy_b[::-1])
report("FixedWidthBinning[::-1]", lambda: fixed[::-1])

print("\nthe same through the histogram facade:")
h = physt.h1(np.array([0.5, 1.5, 1.6, 2.5]), np.array([0, 1, 2, 3]))
report("h1(...)[[2, 0]].binning", lambda: h[[2, 0]].binning)
report("h1(...)[::-1].binning  (guarded in Histogram1D)", lambda: h[::-1].binning)

print("\ninteger index: the other classes return the (left, right) pair ...")
print("NumpyBinning[1]      ->", numpy_b[1])
print("FixedWidthBinning[1] ->", fixed[1])
print("... StaticBinning returns a malformed binning:")
one = static[1]
print("StaticBinning[1]     ->", repr(one))
if isinstance(one, StaticBinning):
    print("   .bins.shape =", np.asarray(one.bins).shape, " .bin_count =", one.bin_count,
          " .numpy_bins =", one.numpy_bins.tolist(), "(2 edges = 1 bin)")
    ok, why = well_formed(one)
    if not ok:
        failures.append(f"StaticBinning[1]: {why}; bin_count={one.bin_count} but numpy_bins has {len(one.numpy_bins)} edges")

print()
if failures:
    print("VIOLATIONS:")
    for f in failures:
        print(" *", f)
    sys.exit(1)
print("no violation")
