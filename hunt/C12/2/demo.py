"""C12: the members of HistogramCollection.copy() share ONE binning object -
adaptive growth (or set_adaptive) of one member of the copy corrupts the other members of the copy."""
import sys
import warnings

import numpy as np

import physt

warnings.simplefilter("ignore")
failures = []


def check(label, observed, demanded, ok):
    print(f"{label}\n    observed: {observed}\n    demanded: {demanded}\n    -> {'ok' if ok else 'VIOLATION'}")
    if not ok:
        failures.append(label)


def well_formed(h):
    """None if the histogram is consistent, else a description of the defect."""
    if h.frequencies.shape != (h.bin_count,) or h.frequencies.shape != (len(h.bins),):
        return f"{len(h.bins)} bins but {h.frequencies.shape[0]} frequencies"
    try:
        h.densities
        h.to_json()
    except Exception as exc:  # noqa
        return f"{type(exc).__name__}: {exc}"
    return None


def make():
    return physt.collection(
        {"a": [1.0, 2.0, 3.5], "b": [1.5, 2.5, 4.5]}, "fixed_width", bin_width=1, adaptive=True
    )


# --- reference: the source collection (each member owns its binning) ----------------------
col = make()
col["a"].fill(10.0)  # adaptive growth of one member
check("source collection: member 'b' after col['a'].fill(10)", well_formed(col["b"]), "well-formed (None)", well_formed(col["b"]) is None)

# --- the copy --------------------------------------------------------------------------------
col = make()
dup = col.copy()
check("copy == source right after copy()", dup == col, True, dup == col)
b_before = dup["b"].bins.tolist(), dup["b"].frequencies.tolist()

dup["a"].fill(10.0)  # a later fill with adaptive bin growth on the derived object

b_after = dup["b"].bins.tolist(), dup["b"].frequencies.tolist()
check(
    "copy: what member 'b' reports after dup['a'].fill(10)  (b itself was never touched)",
    f"{len(b_after[0])} bins, frequencies {b_after[1]}",
    f"unchanged: {len(b_before[0])} bins, frequencies {b_before[1]}",
    b_after == b_before,
)
defect = well_formed(dup["b"])
check("copy: member 'b' stays well-formed", defect, "None (both objects stay well-formed)", defect is None)
try:
    dup["b"].fill(2.2)
    total = dup["b"].total
    problem = None
except Exception as exc:  # noqa
    problem = f"{type(exc).__name__}: {exc}"
check("copy: member 'b' can still be filled", problem, "no error", problem is None)

# Growth to the left: the untouched member silently reports its entries in the wrong bins
col = make()
dup = col.copy()
where_before = dup["b"].bins[dup["b"].frequencies > 0].tolist()
dup["a"].fill(-5.0)
n = len(dup["b"].frequencies)
where_after = dup["b"].bins[:n][dup["b"].frequencies > 0].tolist()
check(
    "copy: bins in which member 'b' reports its entries (1.5, 2.5, 4.5) after dup['a'].fill(-5)",
    where_after,
    f"unchanged {where_before}",
    where_after == where_before,
)

# The same through the other operations that are built on copy()
col = make()
norm = col.normalize_all()  # not in-place => a derived collection
norm["a"].fill_n([-5.0, 12.0])
defect = well_formed(norm["b"])
check("normalize_all(): member 'b' of the result after result['a'].fill_n([-5, 12])", defect, "None", defect is None)

# A flag flipped on one member of the copy flips it on all of them
col = make()
dup = col.copy()
dup["a"].set_adaptive(False)
check(
    "copy: dup['b'].is_adaptive() after dup['a'].set_adaptive(False)",
    dup["b"].is_adaptive(),
    "True (as in the source collection, where members do not share the binning)",
    dup["b"].is_adaptive() is True,
)

if failures:
    print(f"\n{len(failures)} violation(s) of C12")
    sys.exit(1)
print("\nno violation")
