"""C12: the result of `0 + h` / `sum([h])` / `HistogramCollection.sum()` is not independent of its operand."""
import sys
import warnings

import numpy as np

import physt
from physt import h1, h2

warnings.simplefilter("ignore")
failures = []


def check(label, observed, demanded, ok):
    print(f"{label}\n    observed: {observed}\n    demanded: {demanded}\n    -> {'ok' if ok else 'VIOLATION'}")
    if not ok:
        failures.append(label)


# --- 1. reflected addition with a zero on the left -------------------------------------
a = h1([1.0, 2.0, 2.5, 3.5], "fixed_width", bin_width=1, adaptive=True, name="a")
before = a.frequencies.tolist(), a.bins.tolist(), a.name, str(a.dtype)

for label, make in [
    ("0 + a", lambda: 0 + a),
    ("np.int64(0) + a", lambda: np.int64(0) + a),
    ("0.0 + a", lambda: 0.0 + a),
    ("sum([a])", lambda: sum([a])),
]:
    r = make()
    check(f"{label}: result is a new object", f"result is a: {r is a}", "an independent histogram (as a + b, a * 1, a.copy() are)", r is not a)

# What the sharing means in practice: every later change of the sum is a change of the operand
total = sum([a])              # one-element list: the "sum of my histograms so far"
total.fill(10.0)              # adaptive growth
total *= 2                    # in-place arithmetic
total.name = "total"          # metadata edit
after = a.frequencies.tolist(), a.bins.tolist(), a.name, str(a.dtype)
check(
    "operand `a` after total = sum([a]); total.fill(10); total *= 2; total.name = 'total'",
    after,
    f"unchanged {before}",
    after == before,
)

# The same with a 2D histogram
b = h2([1, 2, 3], [4, 5, 6], 3)
s = 0 + b
s /= 2
check("2D operand after s = 0 + b; s /= 2", (b.frequencies.sum().item(), str(b.dtype)), (3, "int64"), b.frequencies.sum() == 3 and b.dtype == np.int64)

# --- 2. the facade built on it: HistogramCollection.sum() -------------------------------
col = physt.collection({"first": [1.0, 2.0, 2.5, 3.5]}, bins=4)
member_before = col["first"].frequencies.tolist()
total = col.sum()
total *= 10
check(
    "collection member after total = col.sum(); total *= 10   (collection with one member)",
    col["first"].frequencies.tolist(),
    f"unchanged {member_before} (with two members it is: the sum is a new histogram)",
    col["first"].frequencies.tolist() == member_before,
)

if failures:
    print(f"\n{len(failures)} violation(s) of C12")
    sys.exit(1)
print("\nno violation")
