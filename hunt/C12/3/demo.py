"""C12: metadata are copied shallowly - an edit of a (list / dict valued) metadata item of a derived
histogram changes the metadata the source reports, and the other way round."""
import sys
import warnings

import numpy as np

from physt import h1, h2
from physt.io import parse_json

warnings.simplefilter("ignore")
failures = []


def check(label, observed, demanded, ok):
    print(f"{label}\n    observed: {observed}\n    demanded: {demanded}\n    -> {'ok' if ok else 'VIOLATION'}")
    if not ok:
        failures.append(label)


# Metadata: "All meta-data (names, user-custom values, ...). Anything can be put in."
src = h1([1.0, 2.0, 2.5, 3.5], 3, name="run 1")
src.meta_data["cuts"] = ["pt > 5"]
src.meta_data["detector"] = {"hv": 1500}

# A histogram that comes out of the library's own JSON parser has list-valued items as well
parsed = parse_json(src.to_json())
check("parse_json keeps the item (as a list)", parsed.meta_data["cuts"], ["pt > 5"], parsed.meta_data["cuts"] == ["pt > 5"])

derivations = {
    "copy()": lambda h: h.copy(),
    "copy(include_frequencies=False)": lambda h: h.copy(include_frequencies=False),
    "h * 2": lambda h: h * 2,
    "h / 2": lambda h: h / 2,
    "h + h.copy()": lambda h: h + h.copy(),
    "normalize()": lambda h: h.normalize(),
    "merge_bins(2)": lambda h: h.merge_bins(2),
}
for start_label, start in (("constructed", src), ("parsed from JSON", parsed)):
    for label, derive in derivations.items():
        source = start.copy()
        source.meta_data["cuts"] = list(start.meta_data["cuts"])        # fresh objects for every round
        source.meta_data["detector"] = dict(start.meta_data["detector"])
        derived = derive(source)
        # metadata edits on the derived histogram ...
        derived.meta_data["cuts"].append("eta < 2")
        derived.meta_data["detector"]["hv"] = 0
        reported = (source.meta_data["cuts"], source.meta_data["detector"])
        check(
            f"[{start_label}] source metadata after editing the metadata of {label}",
            reported,
            (["pt > 5"], {"hv": 1500}),
            reported == (["pt > 5"], {"hv": 1500}),
        )

# ... and in the other direction, 2D (T, partial_normalize, select with a real selection, accumulate)
for label, derive in {
    "T": lambda h: h.T,
    "partial_normalize(0)": lambda h: h.partial_normalize(0),
    "select(0, slice(1, 3))": lambda h: h.select(0, slice(1, 3)),
    "h[1:, :]": lambda h: h[1:, :],
    "accumulate(0)": lambda h: h.accumulate(0),
}.items():
    source = h2([1.0, 2.0, 3.0], [4.0, 5.0, 6.0], 3, name="map")
    source.meta_data["cuts"] = ["pt > 5"]
    derived = derive(source)
    source.meta_data["cuts"].append("eta < 2")          # edit on the SOURCE
    check(
        f"[2D] metadata reported by {label} after editing the metadata of its source",
        derived.meta_data["cuts"],
        ["pt > 5"],
        derived.meta_data["cuts"] == ["pt > 5"],
    )

if failures:
    print(f"\n{len(failures)} violation(s) of C12")
    sys.exit(1)
print("\nno violation")
