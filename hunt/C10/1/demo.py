"""C10: a refused merge (gap on a later axis) leaves the in-place operand half merged."""
import sys
import numpy as np
from physt.histogram_nd import HistogramND

def make():
    # axis 0: four consecutive bins; axis 1: two bins separated by a gap (1, 2)
    return HistogramND(
        [np.array([0.0, 1.0, 2.0, 3.0, 4.0]), np.array([[0.0, 1.0], [2.0, 3.0]])],
        np.arange(8).reshape(4, 2),
    )

failed = False
for label, kwargs in [("amount=2", dict(amount=2)), ("min_frequency=100", dict(min_frequency=100))]:
    h = make()
    before = (h.shape, h.frequencies.copy(), [b.copy() for b in h.bins])
    try:
        h.merge_bins(inplace=True, **kwargs)
        print(f"[{label}] merge across the gap on axis 1 was NOT refused")
        failed = True
        continue
    except ValueError as exc:
        print(f"[{label}] refused as demanded: ValueError({exc})")
    same = (
        h.shape == before[0]
        and np.array_equal(h.frequencies, before[1])
        and all(np.array_equal(a, b) for a, b in zip(h.bins, before[2]))
    )
    print(f"  demanded : the refused call leaves the histogram as it was, shape {before[0]},")
    print(f"             frequencies {before[1].tolist()}")
    print(f"  observed : shape {h.shape}, frequencies {h.frequencies.tolist()},")
    print(f"             axis-0 bins {h.bins[0].tolist()}")
    if not same:
        print("  VIOLATION: the merge was refused, yet axis 0 of the operand has already been merged")
        failed = True

# for comparison: the same refusal with inplace=False or on a single axis leaves the operand alone
h = make()
try:
    h.merge_bins(2, axis=1, inplace=True)
except ValueError:
    pass
print("single-axis refusal leaves operand untouched:", h.shape == (4, 2))

sys.exit(1 if failed else 0)
