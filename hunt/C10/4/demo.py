"""C10 (scope: any bin count): a histogram without bins cannot be merged at all."""
import sys
import numpy as np
from physt import h1
from physt.histogram1d import Histogram1D

failed = False
cases = {
    "empty adaptive histogram (documented way to start one)": h1(None, "fixed_width", bin_width=1, adaptive=True),
    "Histogram1D with an empty edge array": Histogram1D(np.array([]).reshape(0, 2)),
}
for label, h in cases.items():
    print(label, "-> shape", h.shape, "total", h.total)
    for kwargs in (dict(amount=2), dict(amount=1), dict(min_frequency=1)):
        try:
            m = h.merge_bins(**kwargs)
            print(f"  merge_bins({kwargs}) -> shape {m.shape}, total {m.total}")
            if m.shape != (0,) or m.total != 0:
                failed = True
        except Exception as exc:
            print(f"  merge_bins({kwargs}): demanded an empty histogram (0 runs -> 0 bins, total 0);"
                  f" observed {type(exc).__name__}: {exc}")
            failed = True
sys.exit(1 if failed else 0)
