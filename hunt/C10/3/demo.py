"""C10: integer bin edges beyond 2**53 are moved by merge_bins, and a gap is merged across."""
import sys
import numpy as np
from physt import h1
from physt.histogram1d import Histogram1D

failed = False

# --- (a) nanosecond time stamps as int64 edges: boundaries must be preserved
t0 = 1_700_000_000_000_000_001
edges = t0 + 1000 * np.arange(5, dtype=np.int64)
h = h1(edges[:-1] + 5, edges)          # one entry per bin
print("original bins  :", h.bins.tolist(), h.bins.dtype)
for amount in (1, 2):
    m = h.merge_bins(amount)
    got = [[int(a), int(b)] for a, b in m.bins]
    starts = range(0, 4, amount)
    want = [[int(h.bins[s, 0]), int(h.bins[min(s + amount, 4) - 1, 1])] for s in starts]
    print(f"amount={amount} demanded:", want)
    print(f"         observed:", got)
    if got != want:
        failed = True
        print("         -> bin boundaries changed (outer edges too)")

# --- (b) two bins separated by a gap (B, B+1): merging must be refused
B = 2**53
g = Histogram1D(np.array([[B - 2, B], [B + 1, B + 4]], dtype=np.int64), [1, 2])
print("gap histogram bins:", g.bins.tolist(), "-> gap between", B, "and", B + 1)
try:
    m = g.merge_bins(2)
    print("demanded: refusal (merging across a gap); observed: ACCEPTED ->",
          [[int(a), int(b)] for a, b in m.bins], m.frequencies.tolist())
    failed = True
except ValueError as exc:
    print("refused:", exc)

if failed:
    print("VIOLATION")
sys.exit(1 if failed else 0)
