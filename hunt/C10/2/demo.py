"""C10: merged contents wrap around in histograms with a narrow integer dtype."""
import sys
import warnings
import numpy as np
from physt import h1, h2
from physt.histogram_nd import HistogramND

warnings.simplefilter("ignore")  # 1D emits a numpy RuntimeWarning, ND is completely silent
failed = False

# --- 1D, built with the documented dtype= keyword of the facade
data = np.repeat([0.5, 1.5, 2.5], [100, 100, 27])
h = h1(data, [0, 1, 2, 3], dtype=np.int8)
m = h.merge_bins(2)
print("1D int8  original :", h.frequencies.tolist(), "total", h.total)
print("         demanded : [200, 27] total 227")
print("         observed :", m.frequencies.tolist(), "errors2", m.errors2.tolist(), "total", m.total)
if m.frequencies.tolist() != [200, 27] or m.total != h.total:
    failed = True

# --- 2D uint8 (e.g. image-like counts), no warning at all
x = np.repeat([0.5, 1.5, 2.5, 3.5], 200)
y = np.full_like(x, 0.5)
H = h2(x, y, [np.array([0, 1, 2, 3, 4.0]), np.array([0, 1.0])], dtype=np.uint8)
with warnings.catch_warnings(record=True) as caught:
    warnings.simplefilter("always")
    M = H.merge_bins(2, axis=0)
print("2D uint8 original :", H.frequencies.ravel().tolist(), "total", H.total)
print("         demanded : [400, 400] total 800")
print("         observed :", M.frequencies.ravel().tolist(), "total", M.total, "| warnings:", len(caught))
if M.frequencies.ravel().tolist() != [400, 400] or M.total != H.total:
    failed = True

# --- min_frequency variant
m2 = h.merge_bins(min_frequency=150)
print("1D int8 min_frequency=150 observed:", m2.frequencies.tolist(), "total", m2.total, "(demanded total 227)")
if m2.total != h.total:
    failed = True

if failed:
    print("VIOLATION: content of merged bins is not the sum of the run, total is not conserved")
sys.exit(1 if failed else 0)
