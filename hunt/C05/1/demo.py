"""C05: histograms whose bins differ are added bin-by-bin as if the bins were equal
(has_same_bins compares the edges with np.allclose: rtol=1e-5 of the edge VALUE, atol=1e-8)."""
import sys
import warnings

import numpy as np

from physt import h1
from physt.histogram1d import Histogram1D

warnings.simplefilter("ignore")
failures = []


def report(label, observed, demanded, ok):
    print(f"--- {label}")
    print(f"    observed : {observed}")
    print(f"    demanded : {demanded}")
    print(f"    {'ok' if ok else 'VIOLATION'}")
    if not ok:
        failures.append(label)


# (a) two adaptive "integer" histograms of one value each --------------------------------
a = h1([100000], "integer", adaptive=True)  # one bin [ 99999.5, 100000.5)
b = h1([100001], "integer", adaptive=True)  # one bin [100000.5, 100001.5)
both = h1([100000, 100001], "integer", adaptive=True)
s = a + b
report(
    "adaptive integer bins: h([100000]) + h([100001])",
    f"edges={s.edges.tolist()} frequencies={s.frequencies.tolist()}",
    f"edges={both.edges.tolist()} frequencies={both.frequencies.tolist()} (= h of both values; union of the ranges)",
    s.shape == both.shape and np.array_equal(s.frequencies, both.frequencies),
)

# (b) adaptive fixed-width histograms of time stamps (two consecutive chunks of one data set)
t0 = 1.7e9
data = t0 + np.arange(0, 1200, 7.0)
A, B = data[data < t0 + 600], data[data >= t0 + 600]
kw = dict(bin_width=60, adaptive=True)
ha, hb, hall = h1(A, "fixed_width", **kw), h1(B, "fixed_width", **kw), h1(data, "fixed_width", **kw)
s = ha + hb
report(
    "adaptive, bin_width=60, time stamps around 1.7e9: h(first half) + h(second half)",
    f"{s.bin_count} bins, range {(s.edges[[0, -1]] - t0).tolist()} (+t0), frequencies={s.frequencies.tolist()}",
    f"{hall.bin_count} bins, range {(hall.edges[[0, -1]] - t0).tolist()} (+t0), frequencies={hall.frequencies.tolist()}",
    s.shape == hall.shape and np.array_equal(s.frequencies, hall.frequencies),
)
report(
    "   ... and sum() over the two chunks vs. the statistics it reports",
    f"bins end at t0+{s.edges[-1] - t0}, but statistics.max = t0+{s.statistics.max - t0}",
    "all counted values lie inside the bins",
    s.statistics.max <= s.edges[-1],
)

# (c) non-adaptive histograms with incompatible bins must be refused ------------------------
for bins1, bins2 in [
    ([1000.00, 1000.01, 1000.02], [1000.01, 1000.02, 1000.03]),  # shifted by one whole bin
    ([0, 1e-9, 2e-9], [0, 3e-9, 5e-9]),  # different widths
]:
    x = Histogram1D(bins1, [1, 2])
    y = Histogram1D(bins2, [3, 4])
    try:
        r = x + y
        observed, ok = f"accepted: edges={r.edges.tolist()} frequencies={r.frequencies.tolist()}", False
    except ValueError as exc:
        observed, ok = f"refused: {exc}", True
    report(f"static bins {bins1} + {bins2}", observed, "refused with an error (incompatible bins, no adaptivity)", ok)

if failures:
    print(f"\n{len(failures)} violation(s) of C05")
    sys.exit(1)
print("\nno violation")
