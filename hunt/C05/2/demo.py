"""C05: weighted adaptive N-D histograms - the sum over a partition of the data is refused
(and only in one order) because of rounding noise in the 'missed' total of HistogramND."""
import sys
import warnings

import numpy as np

from physt import h

warnings.simplefilter("ignore")
failures = []

kw = dict(bin_width=1, adaptive=True)
A = np.array([[0.5, 0.5], [1.5, 2.5], [2.5, 1.5]])
wA = np.array([0.1, 0.2, 0.3])
B = np.array([[5.5, 0.5], [6.5, 1.5]])
wB = np.array([1.0, 2.0])

ha = h(A, "fixed_width", weights=wA, **kw)
hb = h(B, "fixed_width", weights=wB, **kw)
hall = h(np.concatenate([A, B]), "fixed_width", weights=np.concatenate([wA, wB]), **kw)
print("adaptive 2D histograms (every value is inside the bins):")
print(f"  h(A).missed = {ha.missed!r}, h(B).missed = {hb.missed!r}    demanded: 0 and 0")


def try_sum(label, func):
    try:
        s = func()
    except Exception as exc:  # noqa
        print(f"--- {label}\n    observed : {type(exc).__name__}: {exc}")
        print(f"    demanded : the histogram of all data, total={hall.total}, shape={hall.shape}\n    VIOLATION")
        failures.append(label)
        return
    ok = s.shape == hall.shape and np.allclose(s.frequencies, hall.frequencies)
    print(f"--- {label}\n    observed : total={s.total}, shape={s.shape}")
    print(f"    demanded : total={hall.total}, shape={hall.shape}\n    {'ok' if ok else 'VIOLATION'}")
    if not ok:
        failures.append(label)


try_sum("h(A) + h(B)", lambda: ha + hb)
try_sum("h(B) + h(A)   (addition is commutative)", lambda: hb + ha)
try_sum("sum([h(B), h(A)])", lambda: sum([hb, ha]))

# Random partitions of an ordinary data set into chunks
rng = np.random.default_rng(0)
refused = 0
trials = 100
for _ in range(trials):
    data = rng.normal(size=(100, 2)) * 3
    weights = rng.uniform(0, 1, 100)
    chunks = [h(data[i : i + 25], "fixed_width", weights=weights[i : i + 25], **kw) for i in range(0, 100, 25)]
    try:
        sum(chunks)
    except ValueError:
        refused += 1
print(f"--- sum() over 4 chunks of 100 weighted normal 2D points, {trials} data sets")
print(f"    observed : refused {refused} times ('Cannot adapt histogram with missed values.')")
print("    demanded : never refused, the chunks are adaptive fixed-width histograms on a common grid")
if refused:
    failures.append("random partitions")

if failures:
    print(f"\n{len(failures)} violation(s) of C05")
    sys.exit(1)
print("\nno violation")
