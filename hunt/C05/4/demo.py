"""C05: sum() over a HistogramCollection with an adaptive binning silently gives a wrong histogram
(members created with `create` share ONE binning object; a later member extends it behind the back of the
earlier ones, and addition broadcasts the stale 1-bin contents over all bins)."""
import sys
import warnings

import numpy as np

import physt
from physt import h1

warnings.simplefilter("ignore")
failures = []
kw = dict(bin_width=1, adaptive=True)

A = [0.5]
B = [0.5, 3.5]
col = physt.collection({"a": A}, "fixed_width", **kw)
col.create("b", B)
hall = h1(A + B, "fixed_width", **kw)
plain = h1(A, "fixed_width", **kw) + h1(B, "fixed_width", **kw)

print(f"plain h(A) + h(B)     : edges={plain.edges.tolist()} freq={plain.frequencies.tolist()} total={plain.total}")
try:
    s = col.sum()
    observed = f"edges={s.edges.tolist()} freq={s.frequencies.tolist()} total={s.total}"
    ok = np.array_equal(s.frequencies, hall.frequencies)
except Exception as exc:  # noqa
    observed, ok = f"{type(exc).__name__}: {exc}", False
print("--- collection.sum() over members a=h([0.5]), b=h([0.5, 3.5])")
print(f"    observed : {observed}")
print(f"    demanded : edges={hall.edges.tolist()} freq={hall.frequencies.tolist()} total={hall.total} (3 values were entered)")
if not ok:
    print("    VIOLATION")
    failures.append("collection sum")

a = col["a"]
print("--- state of member 'a' after member 'b' was created")
print(f"    observed : bin_count={a.bin_count}, len(frequencies)={len(a.frequencies)}")
print("    demanded : consistent operands (one content per bin)")
if a.bin_count != len(a.frequencies):
    print("    VIOLATION (inconsistent state)")
    failures.append("inconsistent member")

# With more than one stale bin the sum is not wrong but impossible
col = physt.collection({"a": [0.5, 1.5]}, "fixed_width", **kw)
col.create("b", [0.5, 3.5])
try:
    s = col.sum()
    observed, ok = f"freq={s.frequencies.tolist()}", np.array_equal(s.frequencies, [2, 1, 0, 1])
except Exception as exc:  # noqa
    observed, ok = f"{type(exc).__name__}: {exc}", False
print("--- collection.sum() over members a=h([0.5, 1.5]), b=h([0.5, 3.5])")
print(f"    observed : {observed}")
print("    demanded : freq=[2, 1, 0, 1]")
if not ok:
    print("    VIOLATION")
    failures.append("collection sum 2")

if failures:
    print(f"\n{len(failures)} violation(s) of C05")
    sys.exit(1)
print("\nno violation")
