"""C05: an adaptive left operand that carries underflow / overflow is extended over the region of its
missed values; the mirrored sum is refused -> non-commutative and not h(A and B together)."""
import sys
import warnings

import numpy as np

from physt import h, h1

warnings.simplefilter("ignore")
failures = []

kw = dict(bin_width=1, adaptive=True)
A = np.array([0.5, 1.5, 4.5, 7.5, 7.6])  # 7.5 and 7.6 are outside range=(0, 5) -> overflow of h(A)
B = np.array([3.5, 9.5])
ha = h1(A, "fixed_width", range=(0, 5), **kw)
hb = h1(B, "fixed_width", range=(3, 10), **kw)
hall = h1(np.concatenate([A, B]), "fixed_width", range=(0, 10), **kw)
print(f"h(A): edges={ha.edges.tolist()} freq={ha.frequencies.tolist()} overflow={ha.overflow} adaptive={ha.adaptive}")
print(f"h(B): edges={hb.edges.tolist()} freq={hb.frequencies.tolist()} overflow={hb.overflow} adaptive={hb.adaptive}")
print(f"h(A and B): edges={hall.edges.tolist()} freq={hall.frequencies.tolist()} overflow={hall.overflow}")


def outcome(func):
    try:
        s = func()
        return "accepted", s
    except ValueError as exc:
        return f"refused ({exc})", None


o1, s1 = outcome(lambda: ha + hb)
o2, s2 = outcome(lambda: hb + ha)
print("--- commutativity")
print(f"    observed : h(A) + h(B) {o1};  h(B) + h(A) {o2}")
print("    demanded : the same outcome for both orders")
if (s1 is None) != (s2 is None):
    print("    VIOLATION")
    failures.append("commutativity")

if s1 is not None:
    inside = int(((A >= s1.edges[0]) & (A < s1.edges[-1])).sum() + ((B >= s1.edges[0]) & (B < s1.edges[-1])).sum())
    print("--- result of h(A) + h(B)")
    print(f"    observed : edges={s1.edges.tolist()} freq={s1.frequencies.tolist()} total={s1.total} overflow={s1.overflow}")
    print(f"    demanded : freq={hall.frequencies.tolist()} total={hall.total} overflow={hall.overflow}"
          f"  ({inside} of the 7 values lie inside [{s1.edges[0]}, {s1.edges[-1]}))")
    if not (np.array_equal(s1.frequencies, hall.frequencies) and s1.overflow == hall.overflow):
        print("    VIOLATION: the bins were extended over 7.5 and 7.6 but they are still reported as overflow")
        failures.append("result")

# The same in 2D
A2 = np.array([[0.5, 0.5], [7.5, 0.5]])
B2 = np.array([[8.5, 0.5]])
ha2 = h(A2, "fixed_width", range=(0, 5), **kw)
hb2 = h(B2, "fixed_width", range=(0, 10), **kw)
o1, s1 = outcome(lambda: ha2 + hb2)
o2, s2 = outcome(lambda: hb2 + ha2)
print("--- 2D: commutativity")
print(f"    observed : h(A) + h(B) {o1}" + (f" total={s1.total} missed={s1.missed}, bins up to {s1.edges[0][-1]}" if s1 else ""))
print(f"               h(B) + h(A) {o2}")
print("    demanded : the same outcome for both orders")
if (s1 is None) != (s2 is None):
    print("    VIOLATION")
    failures.append("2D commutativity")

if failures:
    print(f"\n{len(failures)} violation(s) of C05")
    sys.exit(1)
print("\nno violation")
