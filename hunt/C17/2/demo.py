"""C17: the Geant4 CSV conversion must preserve bins, contents, errors and underflow/overflow.

A Geant4 (tools::histo) CSV file of an h2d holds (nx+2)*(ny+2) rows: the first/last
index on each axis is the underflow/overflow cell.  The 1-D reader keeps these cells
(underflow / overflow); the 2-D reader throws them away and reports `missed == 0`.
"""
import os
import sys
import tempfile

import numpy as np

import physt
from physt.compat.geant4 import load_csv

rng = np.random.default_rng(5)
nx, ny = 4, 3
x_edges = np.linspace(0.0, 4.0, nx + 1)
y_edges = np.linspace(0.0, 3.0, ny + 1)
n = 2000
x = rng.uniform(-1.0, 5.0, n)  # a good part of the values is outside of the axes
y = rng.uniform(-1.0, 4.0, n)
w = rng.integers(1, 4, n).astype(float)

# Reference: the same data histogrammed by physt itself
ref = physt.h2(x, y, [x_edges, y_edges], weights=w)

# What Geant4 writes: cells incl. under/overflow on both axes, x index running fastest
full_x = np.concatenate([[-np.inf], x_edges, [np.inf]])
full_y = np.concatenate([[-np.inf], y_edges, [np.inf]])
sw, _, _ = np.histogram2d(x, y, [full_x, full_y], weights=w)
sw2, _, _ = np.histogram2d(x, y, [full_x, full_y], weights=w**2)
cnt, _, _ = np.histogram2d(x, y, [full_x, full_y])

path = os.path.join(tempfile.mkdtemp(), "h2.csv")
with open(path, "w", encoding="ascii") as f:
    f.write("#class tools::histo::h2d\n#title demo\n#dimension 2\n")
    f.write(f"#axis fixed {nx} 0 4\n#axis fixed {ny} 0 3\n")
    f.write("#planes_Sxyw 0\n#annotation axis_x.title\n#annotation axis_y.title\n")
    f.write(f"#bin_number {(nx + 2) * (ny + 2)}\n")
    f.write("entries,Sw,Sw2,Sxw0,Sx2w0,Sxw1,Sx2w1\n")
    for j in range(ny + 2):
        for i in range(nx + 2):
            f.write(f"{int(cnt[i, j])},{float(sw[i, j])!r},{float(sw2[i, j])!r},0,0,0,0\n")

got = load_csv(path)

weight_in_file = sw.sum()
outside_in_file = sw.sum() - sw[1:-1, 1:-1].sum()
print("bins preserved     :", all(np.allclose(a, b) for a, b in zip(got.numpy_bins, ref.numpy_bins)))
print("contents preserved :", np.array_equal(got.frequencies, ref.frequencies))
print("errors2 preserved  :", np.array_equal(got.errors2, ref.errors2))
print(f"weight in the file              : {weight_in_file}")
print(f"weight in under/overflow cells  : {outside_in_file}")
print(f"physt.h2 reference  .missed     : {ref.missed}   total+missed = {ref.total + ref.missed}")
print(f"load_csv result     .missed     : {got.missed}   total+missed = {got.total + got.missed}"
      f"   (demanded: missed == {outside_in_file})")

# Control: the 1-D reader does keep them
path1 = os.path.join(os.path.dirname(path), "h1.csv")
c1, _ = np.histogram(x, full_x)
with open(path1, "w", encoding="ascii") as f:
    f.write("#class tools::histo::h1d\n#title demo1\n#dimension 1\n")
    f.write(f"#axis fixed {nx} 0 4\n#annotation axis_x.title\n#bin_number {nx + 2}\n")
    f.write("entries,Sw,Sw2,Sxw0,Sx2w0\n")
    for i in range(nx + 2):
        f.write(f"{c1[i]},{c1[i]},{c1[i]},0,0\n")
g1 = load_csv(path1)
print(f"control 1-D: underflow {g1.underflow} (file {c1[0]}), overflow {g1.overflow} (file {c1[-1]})")

if not np.isclose(got.missed, outside_in_file):
    print(f"VIOLATION: {outside_in_file} of weight in the under/overflow cells of the 2-D CSV is lost (missed={got.missed})")
    sys.exit(1)
print("no violation")
