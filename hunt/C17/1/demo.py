"""C17: a dask array must give the same histogram as the equivalent numpy array.

Observed: physt.h1 / physt.h2 (and physt.compat.dask.h2) take the *internal graph
key* of the dask array (`Array.name`, e.g. 'array-ecdad4d0...') as the axis name,
so the histogram differs from the one built from the numpy array (axis name
'axis0' / None) and `==` is False.
"""
import sys
import warnings

import numpy as np
import dask.array as da

import physt
from physt.compat import dask as physt_dask

warnings.simplefilter("ignore")

rng = np.random.default_rng(1)
x = rng.normal(0, 10, 1000)
y = rng.normal(5, 3, 1000)
bad = 0


def report(label, got, ref):
    global bad
    same_numbers = np.array_equal(got.frequencies, ref.frequencies)
    equal = got == ref
    print(f"{label}")
    print(f"   axis names from dask input : {got.axis_names}")
    print(f"   axis names from numpy input: {ref.axis_names}   (demanded: identical)")
    print(f"   contents identical: {same_numbers};  histogram == reference: {equal}   (demanded: True)")
    if not equal or got.axis_names != ref.axis_names:
        bad += 1


for chunks in (1000, 100, 7):
    dx = da.from_array(x, chunks=chunks)
    dy = da.from_array(y, chunks=chunks)
    report(f"physt.h1(dask array, chunks={chunks})", physt.h1(dx, 10), physt.h1(x, 10))
    report(
        f"physt.h2(dask, dask, chunks={chunks})",
        physt.h2(dx, dy, 5),
        physt.h2(x, y, 5),
    )
    report(
        f"physt.compat.dask.h2(dask, dask, chunks={chunks})",
        physt_dask.h2(dx, dy, "fixed_width", bin_width=5),
        physt.h2(x, y, "fixed_width", bin_width=5, adaptive=True),
    )

# The name is not even stable: it changes with the data / chunking
n1 = physt.h1(da.from_array(x, chunks=100), 10).axis_name
n2 = physt.h1(da.from_array(x + 1, chunks=100), 10).axis_name
print("axis names of two dask inputs:", n1, n2)

# Control: an explicit name is honoured, and the plain 2-D path (no `.name` lookup) is fine
ok = physt.h1(da.from_array(x, chunks=100), 10, axis_name="x") == physt.h1(x, 10, axis_name="x")
print("control with explicit axis_name equal:", ok)

if bad:
    print(f"VIOLATION: {bad} dask-built histograms differ from the numpy-built ones (axis name = dask graph key)")
    sys.exit(1)
print("no violation")
