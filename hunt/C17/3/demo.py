"""C17: "non-numeric, null-containing or wrongly shaped inputs are refused".

Lists / tuples / iterators / numpy arrays whose elements are strings, dates or time
spans are NOT refused by h1 / h2 / h: they are silently converted with
np.asarray(..., dtype=float) and a histogram comes back.  The same values in a pandas
or polars Series are (correctly) refused, so the containers do not agree either.
"""
import sys
import warnings

import numpy as np
import pandas as pd
import polars as pl

import physt

warnings.simplefilter("ignore")
accepted = []


def probe(label, call, must_refuse=True):
    try:
        h = call()
    except (ValueError, TypeError, AttributeError) as exc:
        print(f"refused   {label:52s} {type(exc).__name__}: {str(exc)[:60]}")
        return
    print(f"ACCEPTED  {label:52s} -> {h!r}  contents {np.asarray(h.frequencies).tolist()}"
          + ("   (demanded: refusal)" if must_refuse else ""))
    if must_refuse:
        accepted.append(label)


edges = np.array([0.0, 2.0, 4.0])
strings = ["1", "2", "3"]
days = np.array(["1970-01-02", "1970-01-03", "1970-01-04"], dtype="datetime64[D]")
spans = np.array([1, 2, 3], dtype="timedelta64[s]")

print("--- non-numeric elements in the generic containers")
probe("h1(list of str)", lambda: physt.h1(strings, edges))
probe("h1(tuple of str)", lambda: physt.h1(tuple(strings), edges))
probe("h1(iterator of str)", lambda: physt.h1(iter(strings), edges))
probe("h1(numpy array of str)", lambda: physt.h1(np.array(strings), edges))
probe("h1(object array of str)", lambda: physt.h1(np.array(strings, dtype=object), edges))
probe("h1(datetime64 array)", lambda: physt.h1(days, edges))
probe("h1(timedelta64 array)", lambda: physt.h1(spans, edges))
probe("h2(list of str, list of str)", lambda: physt.h2(strings, strings, edges))
probe("h(rows of str)", lambda: physt.h([["1", "2"], ["3", "1"]], edges))
probe("h(2-D datetime64 array)", lambda: physt.h(np.stack([days, days], axis=1), edges))

print("--- the same values in the other containers (refused, as the statement demands)")
probe("h1(pandas Series of str)", lambda: physt.h1(pd.Series(strings), edges))
probe("h1(pandas Series of datetime64)", lambda: physt.h1(pd.Series(days), edges))
probe("h1(pandas Series of timedelta64)", lambda: physt.h1(pd.Series(spans), edges))
probe("h1(polars Series of str)", lambda: physt.h1(pl.Series("s", strings), edges))
probe("h(pandas DataFrame of str)", lambda: physt.h(pd.DataFrame({"a": strings, "b": strings}), edges))
probe("h(polars DataFrame of str)", lambda: physt.h(pl.DataFrame({"a": strings, "b": strings}), edges))

print("--- control: numeric input")
probe("h1(list of float)", lambda: physt.h1([1.0, 2.0, 3.0], edges), must_refuse=False)

if accepted:
    print(f"VIOLATION: {len(accepted)} non-numeric inputs were accepted and histogrammed: {accepted}")
    sys.exit(1)
print("no violation")
