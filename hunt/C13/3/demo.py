"""C13 violation: with config.free_arithmetics, subtraction of histograms does not use numpy type promotion.

`a - b` is computed as `a += b * (-1)`; the Python int -1 is taken as an int64 factor, so `b * (-1)`
is already int64 / float64 and the difference ends up in a 64-bit type whatever the operand types were.
Addition (and subtraction without free arithmetics) of the very same operands follows numpy's promotion.
"""
import itertools
import sys
import warnings

import numpy as np

from physt.config import config
from physt.histogram1d import Histogram1D
from physt.histogram_nd import Histogram2D

warnings.simplefilter("ignore")

TYPES = [np.int16, np.int32, np.int64, np.float16, np.float32, np.float64]


def make(dtype, ndim):
    if ndim == 1:
        return Histogram1D([0, 1, 2], [7, 5], dtype=dtype)
    return Histogram2D([[0, 1, 2], [0, 1]], [[7], [5]], dtype=dtype)


def run(free):
    wrong = []
    for ndim, (ta, tb) in itertools.product((1, 2), itertools.product(TYPES, TYPES)):
        if ta == tb:
            continue  # the statement speaks about operands of different dtypes
        expected = np.promote_types(ta, tb)
        for name, op in (("a + b", lambda a, b: a + b), ("a - b", lambda a, b: a - b)):
            a, b = make(ta, ndim), make(tb, ndim)
            result = op(a, b)
            assert result.dtype == result.frequencies.dtype == result.errors2.dtype
            if result.dtype != expected:
                wrong.append((ndim, name, np.dtype(ta), np.dtype(tb), result.dtype, expected))
    return wrong


config.free_arithmetics = False
strict = run(False)
print(f"free_arithmetics=False: {len(strict)} result dtypes differ from np.promote_types (addition and subtraction)")

config.free_arithmetics = True
free = run(True)
config.free_arithmetics = False
print(f"free_arithmetics=True : {len(free)} result dtypes differ from np.promote_types:")
for ndim, name, ta, tb, got, expected in free:
    print(f"    {ndim}D  {name}  with a:{ta!s:<8} b:{tb!s:<8} -> observed {got!s:<8} statement demands {expected}")

if strict or free:
    sys.exit(1)
print("no violation observed")
