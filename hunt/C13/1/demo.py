"""C13 violation: after merge_bins() (default axis=None) the reported dtype is stale.

When the merged sums do not fit the narrow content type, the library keeps the exact
sums in a wider array - but the histogram still reports the old, narrow dtype.
"""
import sys
import warnings

import numpy as np

from physt.histogram1d import Histogram1D
from physt.histogram_nd import Histogram2D

warnings.simplefilter("ignore")
failures = 0


def report(tag, h):
    global failures
    ok = h.dtype == h.frequencies.dtype == h.errors2.dtype
    print(
        f"{tag:<42} reported dtype={h.dtype!s:<8} frequencies.dtype={h.frequencies.dtype!s:<8} "
        f"errors2.dtype={h.errors2.dtype!s:<8} contents={h.frequencies.tolist()}"
    )
    print(f"{'':<42} statement demands: reported dtype == element type of frequencies and errors2 -> {'ok' if ok else 'VIOLATED'}")
    if not ok:
        failures += 1


# 1D, int16: 20000 + 20000 does not fit int16
h = Histogram1D([0, 1, 2, 3, 4], [20000, 20000, 5, 6], dtype=np.int16)
report("1D int16, before", h)
report("1D int16, h.merge_bins(2)", h.merge_bins(2))
g = h.copy()
g.merge_bins(2, inplace=True)
report("1D int16, merge_bins(2, inplace=True)", g)
report("1D int16, merge_bins(2, axis=0) [control]", h.merge_bins(2, axis=0))

# 1D, float16: 60000 + 60000 > 65504
f = Histogram1D([0, 1, 2, 3, 4], [60000, 60000, 5, 6], dtype=np.float16)
report("1D float16, h.merge_bins(2)", f.merge_bins(2))

# 2D, int16
H = Histogram2D([[0, 1, 2], [0, 1, 2]], np.array([[20000, 20000], [3, 4]]), dtype=np.int16)
report("2D int16, H.merge_bins(2)", H.merge_bins(2))

# A consequence: the "dtype" the histogram reports is what it exports
m = h.merge_bins(2)
d = m.to_dict()
print("to_dict()['dtype'] =", d["dtype"], " frequencies =", d["frequencies"])
try:
    Histogram1D.from_dict(d)
    print("round trip through to_dict/from_dict: accepted")
except Exception as exc:  # the exported dict cannot even be read back
    print("round trip through to_dict/from_dict fails:", type(exc).__name__, exc)

if failures:
    print(f"\n{failures} histogram(s) report a dtype that is not the element type of their contents")
    sys.exit(1)
print("no violation observed")
