"""C13 violation: a change to an integer dtype is accepted for a content just above the type's range.

The range check compares the (float) contents with the Python integer `iinfo.max`; numpy converts
that integer to the float type of the contents, where 2**15-1 / 2**31-1 / 2**63-1 round UP to
2**15 / 2**31 / 2**63.  A content equal to that power of two therefore passes the check and is
then wrapped around by `astype`.
"""
import sys
import warnings

import numpy as np

from physt.histogram1d import Histogram1D
from physt.histogram_nd import Histogram2D

warnings.simplefilter("ignore")
failures = 0


def attempt(tag, h, target):
    global failures
    info = np.iinfo(target)
    before = (h.dtype, h.frequencies.tolist(), h.errors2.tolist())
    out_of_range = bool(
        any(float(v) > info.max or float(v) < info.min for v in np.ravel(h.frequencies))
        or any(float(v) > info.max or float(v) < info.min for v in np.ravel(h.errors2))
    )
    try:
        h.dtype = target
        accepted = True
    except ValueError as exc:
        accepted = False
        message = str(exc)
    print(f"{tag}: contents {before[1]} ({before[0]}) -> {np.dtype(target)} (range {info.min}..{info.max})")
    if accepted:
        print(f"    observed : ACCEPTED, dtype={h.dtype}, frequencies={h.frequencies.tolist()}, errors2={h.errors2.tolist()}")
    else:
        print(f"    observed : refused ({message}); dtype={h.dtype}, frequencies={h.frequencies.tolist()}")
    print(f"    demanded : {'refused, nothing changes (a value is outside the range)' if out_of_range else 'accepted'}")
    if accepted and out_of_range:
        print("    => VIOLATION (and the contents are now negative garbage)")
        failures += 1


# float16 histogram holding 32768 (= int16 max + 1)
h = Histogram1D([0, 1, 2], np.array([32768, 1], dtype=np.float16))
attempt("float16 -> int16", h, np.int16)

# float32 histogram holding 2**31 (= int32 max + 1)
h = Histogram1D([0, 1, 2], np.array([2.0**31, 1.0], dtype=np.float32))
attempt("float32 -> int32", h, np.int32)

# float64 histogram holding 2**63 (= int64 max + 1), as a product of an int histogram and a float factor
h = Histogram1D([0, 1, 2], [2**62, 1], errors2=[1, 1]) * 2.0
attempt("float64 -> int64", h, np.int64)

# float32 -> int64 and a 2D histogram
H = Histogram2D([[0, 1, 2], [0, 1]], np.array([[2.0**63], [1.0]], dtype=np.float32), errors2=np.ones((2, 1), dtype=np.float32))
attempt("2D float32 -> int64", H, np.int64)

# only the squared error is out of range
h = Histogram1D([0, 1, 2], np.array([3.0, 1.0], dtype=np.float32), errors2=np.array([2.0**31, 1.0], dtype=np.float32))
attempt("float32 -> int32 (errors2 only)", h, np.int32)

# controls: the same value held in a wider float type is refused correctly
h = Histogram1D([0, 1, 2], np.array([32768.0, 1.0], dtype=np.float64))
attempt("control float64(32768) -> int16", h, np.int16)
h = Histogram1D([0, 1, 2], np.array([32767.0, 1.0], dtype=np.float64))
attempt("control float64(32767) -> int16", h, np.int16)

if failures:
    print(f"\n{failures} out-of-range change(s) to an integer dtype were accepted")
    sys.exit(1)
print("no violation observed")
