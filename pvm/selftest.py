"""setup_cmd: nothing to build (pure Python, no third-party dependency beyond the repository's own
environment).  Verifies that the interpreter, physt (from /repo's working tree) and the framework import."""
import sys


def main() -> int:
    import numpy  # noqa: F401
    import physt

    from pvm import attach, core, gen, model, runner, snapshot  # noqa: F401

    print("pvm ready; python", sys.version.split()[0], "physt", physt.__version__, "from", physt.__file__)
    return 0


if __name__ == "__main__":
    sys.exit(main())
