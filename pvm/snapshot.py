"""Public snapshots of histograms / binnings (only public attributes are read).

A snapshot is a plain dict; arrays are stored as (dtype str, shape, bytes) so that comparison is
bit-exact and NaN == NaN.  `diff(a, b)` returns the set of observable names that differ.
"""
from __future__ import annotations

import math
from typing import Any, Dict, List, Optional, Set, Tuple

import numpy as np


def arr(a) -> Tuple[str, Tuple[int, ...], bytes]:
    a = np.asarray(a)
    return (str(a.dtype), tuple(a.shape), np.ascontiguousarray(a).tobytes())


def arr_values(t) -> np.ndarray:
    return np.frombuffer(t[2], dtype=np.dtype(t[0])).reshape(t[1])


def _scalar(x) -> Any:
    """Comparable representation of a scalar in which nan == nan and 0.0 == -0.0 are kept apart from others."""
    try:
        f = float(x)
    except Exception:
        return repr(x)
    if math.isnan(f):
        return "nan"
    return f


def is_1d(h) -> bool:
    return hasattr(h, "underflow") and getattr(h, "ndim", None) == 1


def binning_snapshot(b) -> Dict[str, Any]:
    out: Dict[str, Any] = {"class": type(b).__name__}
    try:
        out["bins"] = arr(np.asarray(b.bins, dtype=float))
    except Exception as e:
        out["bins"] = ("error", type(e).__name__)
    try:
        out["adaptive"] = bool(b.is_adaptive())
    except Exception as e:
        out["adaptive"] = ("error", type(e).__name__)
    try:
        out["includes_right_edge"] = bool(b.includes_right_edge)
    except Exception as e:
        out["includes_right_edge"] = ("error", type(e).__name__)
    return out


def snapshot(h, *, with_stats: bool = True) -> Dict[str, Any]:
    """Everything a user can observe about a histogram through its public attributes."""
    s: Dict[str, Any] = {"class": type(h).__name__}
    nd = h.ndim
    s["ndim"] = nd
    try:
        bins = h.bins
        if is_1d(h):
            s["bins"] = [arr(np.asarray(bins, dtype=float))]
        else:
            s["bins"] = [arr(np.asarray(b, dtype=float)) for b in bins]
    except Exception as e:
        s["bins"] = ("error", type(e).__name__, str(e)[:100])
    try:
        s["binning_classes"] = [type(b).__name__ for b in h.binnings]
        s["includes_right_edge"] = [bool(b.includes_right_edge) for b in h.binnings]
    except Exception as e:
        s["binning_classes"] = ("error", type(e).__name__)
    s["frequencies"] = arr(h.frequencies)
    s["errors2"] = arr(h.errors2)
    s["dtype"] = str(np.dtype(h.dtype))
    s["keep_missed"] = bool(h.keep_missed)
    if is_1d(h):
        # read the stored values independent of keep_missed masking as well as the public view
        s["underflow"] = _scalar(h.underflow)
        s["overflow"] = _scalar(h.overflow)
        s["inner_missed"] = _scalar(h.inner_missed)
        try:
            s["missed_total"] = _scalar(h.missed)  # reported whether or not the tracking flag is on
        except Exception:
            pass
    else:
        s["missed"] = _scalar(h.missed)
    try:
        s["adaptive"] = bool(h.is_adaptive())
    except Exception as e:
        s["adaptive"] = ("error", type(e).__name__)
    s["name"] = h.name
    s["title"] = h.title
    s["axis_names"] = tuple(h.axis_names)
    try:
        s["meta_data"] = repr(sorted((str(k), repr(v)) for k, v in h.meta_data.items()))
    except Exception as e:
        s["meta_data"] = ("error", type(e).__name__)
    if with_stats and hasattr(h, "statistics"):
        try:
            st = h.statistics
            s["statistics"] = tuple(_scalar(getattr(st, f)) for f in ("sum", "sum2", "min", "max", "weight", "median"))
            # precision of the recorded sums (a float16 / float32 factor turns them into narrow numpy scalars)
            eps = 2.3e-16
            for f in ("sum", "sum2", "weight"):
                v = getattr(st, f)
                if isinstance(v, np.floating):
                    eps = max(eps, float(np.finfo(type(v)).eps))
            s["statistics_eps"] = eps
        except Exception as e:
            s["statistics"] = ("error", type(e).__name__)
    return s


NUMERIC_KEYS = ("frequencies", "errors2", "underflow", "overflow", "inner_missed", "missed")


def diff(a: Dict[str, Any], b: Dict[str, Any], ignore: Tuple[str, ...] = ()) -> Set[str]:
    out = set()
    for k in set(a) | set(b):
        if k in ignore:
            continue
        if a.get(k, "<absent>") != b.get(k, "<absent>"):
            out.add(k)
    return out


def values_equal_numeric(ta, tb) -> bool:
    """Arrays equal as numbers (dtype may differ: a lossless promotion is allowed), nan == nan."""
    va, vb = arr_values(ta), arr_values(tb)
    if va.shape != vb.shape:
        return False
    return bool(np.array_equal(va.astype(np.longdouble), vb.astype(np.longdouble), equal_nan=True))


def interval_map(s: Dict[str, Any]) -> Optional[Dict[Tuple, Tuple[float, float]]]:
    """{(per-axis (left, right))...: (content, error2)} for non-empty cells; used where bins may
    legitimately have grown (adaptive): contents must stay attached to their intervals."""
    if not isinstance(s.get("bins"), list):
        return None
    bins = [arr_values(t) for t in s["bins"]]
    f = arr_values(s["frequencies"])
    e = arr_values(s["errors2"])
    if tuple(b.shape[0] for b in bins) != tuple(f.shape) or f.shape != e.shape:
        return None
    out = {}
    nz = np.argwhere((f != 0) | (e != 0))
    for idx in map(tuple, nz.tolist()):
        c, ee = float(f[idx]), float(e[idx])
        key = tuple((float(bins[ax][i, 0]), float(bins[ax][i, 1])) for ax, i in enumerate(idx))
        out[key] = (c, ee)
    return out


def wellformed_problems(h) -> List[str]:
    """Shape / sign invariants of C18 (public view). Returns a list of problem strings."""
    probs: List[str] = []
    try:
        f = np.asarray(h.frequencies)
        e = np.asarray(h.errors2)
    except Exception as ex:
        return [f"arrays unreadable: {type(ex).__name__}"]
    try:
        if is_1d(h):
            bins = [np.asarray(h.bins)]
        else:
            bins = [np.asarray(b) for b in h.bins]
    except Exception as ex:
        return [f"bins unreadable: {type(ex).__name__}: {str(ex)[:80]}"]
    bshape = tuple(b.shape[0] for b in bins)
    if any(b.ndim != 2 or b.shape[1] != 2 for b in bins):
        probs.append("bins not (n,2)")
    if tuple(f.shape) != bshape:
        probs.append(f"frequencies shape {tuple(f.shape)} != bins {bshape}")
    if tuple(e.shape) != bshape:
        probs.append(f"errors2 shape {tuple(e.shape)} != bins {bshape}")
    if tuple(h.shape) != bshape:
        probs.append(f"shape {tuple(h.shape)} != bins {bshape}")
    if len(bins) != h.ndim:
        probs.append("ndim != number of axes")
    with np.errstate(invalid="ignore"):
        if e.size and np.any(e < 0):
            probs.append("negative errors2")
    # the edge representation (numpy style) of every consecutive axis describes the same bins
    try:
        import warnings as _w

        with _w.catch_warnings():
            _w.simplefilter("ignore")
            edges = h.edges
        edges = [np.asarray(edges)] if is_1d(h) else [np.asarray(e) for e in edges]
    except Exception:
        edges = None  # no edge representation for gapped bins
    if edges is not None and len(edges) == len(bins):
        for ax, (b, e) in enumerate(zip(bins, edges)):
            if b.ndim == 2 and b.shape[0] and b.shape[1] == 2 and np.array_equal(b[1:, 0], b[:-1, 1]):
                want = np.concatenate([b[:1, 0], b[:, 1]])
                if e.shape != want.shape or not np.array_equal(e, want):
                    probs.append(f"axis {ax}: edges {e.shape} do not describe the bins {b.shape}")
    for ax, b in enumerate(bins):
        if b.ndim == 2 and b.shape[0] and b.shape[1] == 2:
            with np.errstate(invalid="ignore"):
                if np.any(~(b[:, 0] < b[:, 1])):
                    probs.append(f"axis {ax}: bin with left >= right")
                if b.shape[0] > 1 and np.any(~(b[1:, 0] >= b[:-1, 1])):
                    probs.append(f"axis {ax}: bins not rising")
    return probs


def dtype_problems(h) -> List[str]:
    probs = []
    d = np.dtype(h.dtype)
    if np.asarray(h.frequencies).dtype != d:
        probs.append(f"dtype {d} != frequencies.dtype {np.asarray(h.frequencies).dtype}")
    if np.asarray(h.errors2).dtype != d:
        probs.append(f"dtype {d} != errors2.dtype {np.asarray(h.errors2).dtype}")
    return probs
