"""Core of the physt verification monitors: recorder, verdicts, evidence, known findings.

Everything here is independent of physt. A *record* is one failed oracle evaluation:

    {"property": "C03", "monitor": "fill.delta", "op": "Histogram1D.fill",
     "mechanism": "fill.nan_value" | None, "symptom": "...", "diff": ["overflow"],
     "detail": {...}, "case": {...replayable description...}}

`mechanism` is a categorical key computed deterministically by the monitor from the *input
class* of the failing call (never from seeds, hashes or random values).  A record is a known
finding iff known_findings.json has an entry with status "known", the same property and
mechanism, and the record's `diff` is a subset of the entry's `allowed_diff`.
"""
from __future__ import annotations

import hashlib
import json
import math
import os
import random
import sys
import time
import traceback
from pathlib import Path
from typing import Any, Dict, Iterable, List, Optional

ROOT = Path(__file__).resolve().parent.parent
KNOWN_FINDINGS_FILE = ROOT / "known_findings.json"
MAX_RECORDS_KEPT = 40
MAX_SAMPLES = 5


def jsonable(obj: Any, depth: int = 0) -> Any:
    """Best-effort conversion to something json.dumps accepts (floats as repr-exact)."""
    if depth > 6:
        return repr(obj)[:200]
    if obj is None or isinstance(obj, (bool, str)):
        return obj
    if isinstance(obj, int):
        return obj
    if isinstance(obj, float):
        if math.isnan(obj):
            return "nan"
        if math.isinf(obj):
            return "inf" if obj > 0 else "-inf"
        return obj
    if isinstance(obj, dict):
        return {str(k): jsonable(v, depth + 1) for k, v in obj.items()}
    if isinstance(obj, (list, tuple, set, frozenset)):
        seq = list(obj)
        if isinstance(obj, (set, frozenset)):
            seq = sorted(seq, key=repr)
        if len(seq) > 400:
            return [jsonable(v, depth + 1) for v in seq[:400]] + ["...(%d more)" % (len(seq) - 400)]
        return [jsonable(v, depth + 1) for v in seq]
    try:
        import numpy as np

        if isinstance(obj, np.ndarray):
            if obj.size > 400:
                return {"ndarray": str(obj.dtype), "shape": list(obj.shape), "head": jsonable(obj.ravel()[:50].tolist(), depth + 1)}
            return jsonable(obj.tolist(), depth + 1)
        if isinstance(obj, np.generic):
            return jsonable(obj.item(), depth + 1)
        if isinstance(obj, np.dtype):
            return str(obj)
    except Exception:  # pragma: no cover
        pass
    return repr(obj)[:300]


def sig_hash(obj: Any) -> str:
    return hashlib.sha1(json.dumps(jsonable(obj), sort_keys=True).encode()).hexdigest()[:16]


def case_rng(seed: int, shard: int, index: int, salt: str = "") -> random.Random:
    """Deterministic per-case RNG: a case is replayable from (seed, shard, index) alone."""
    h = hashlib.sha256(f"{seed}/{shard}/{index}/{salt}".encode()).digest()
    return random.Random(int.from_bytes(h[:8], "big"))


class Recorder:
    """Collects what the monitors observed during one shard of one check."""

    def __init__(self, prop: str):
        self.prop = prop
        self.evaluations = 0
        self.nontrivial: set = set()
        self.classes: Dict[str, int] = {}
        self.monitor_evals: Dict[str, int] = {}
        self.monitor_skips: Dict[str, int] = {}
        self.monitor_errors: Dict[str, int] = {}
        self.monitor_error_samples: List[str] = []
        self.records: List[dict] = []
        self.record_count = 0
        self.samples: List[Any] = []
        self.notes: Dict[str, Any] = {}
        self.inconclusive: List[str] = []
        self.current_case: Optional[dict] = None

    # -- cases -----------------------------------------------------------------------------
    def case(self, signature: Any, nontrivial: bool, cls: Optional[str] = None, sample: Any = None):
        self.evaluations += 1
        if nontrivial:
            self.nontrivial.add(sig_hash(signature))
        if cls:
            self.classes[cls] = self.classes.get(cls, 0) + 1
        if sample is not None and len(self.samples) < MAX_SAMPLES and nontrivial:
            self.samples.append(jsonable(sample))

    def tag(self, cls: str, n: int = 1):
        self.classes[cls] = self.classes.get(cls, 0) + n

    # -- monitors ----------------------------------------------------------------------------
    def mon(self, name: str, n: int = 1):
        self.monitor_evals[name] = self.monitor_evals.get(name, 0) + n

    def skip(self, name: str, why: str = ""):
        key = f"{name}:{why}" if why else name
        self.monitor_skips[key] = self.monitor_skips.get(key, 0) + 1

    def monitor_error(self, name: str, exc: BaseException):
        self.monitor_errors[name] = self.monitor_errors.get(name, 0) + 1
        if len(self.monitor_error_samples) < 8:
            tb = "".join(traceback.format_exception(type(exc), exc, exc.__traceback__))
            self.monitor_error_samples.append(f"{name}: {tb[-1500:]}")

    # -- failures ----------------------------------------------------------------------------
    def fail(self, *, prop: Optional[str] = None, monitor: str, op: str, symptom: str,
             diff: Iterable[str] = (), mechanism: Optional[str] = None, detail: Any = None):
        self.record_count += 1
        rec = {
            "property": prop or self.prop,
            "monitor": monitor,
            "op": op,
            "mechanism": mechanism,
            "symptom": symptom,
            "diff": sorted(set(diff)),
            "detail": jsonable(detail),
            "case": jsonable(self.current_case),
        }
        if len(self.records) < MAX_RECORDS_KEPT or not any(
            r["mechanism"] == mechanism and r["symptom"] == symptom and r["property"] == rec["property"] for r in self.records
        ):
            if len(self.records) < 4 * MAX_RECORDS_KEPT:
                self.records.append(rec)
        return rec

    def to_json(self) -> dict:
        return {
            "prop": self.prop,
            "evaluations": self.evaluations,
            "nontrivial": sorted(self.nontrivial),
            "classes": self.classes,
            "monitor_evals": self.monitor_evals,
            "monitor_skips": self.monitor_skips,
            "monitor_errors": self.monitor_errors,
            "monitor_error_samples": self.monitor_error_samples,
            "records": self.records,
            "record_count": self.record_count,
            "samples": self.samples,
            "notes": jsonable(self.notes),
            "inconclusive": self.inconclusive,
        }


_active: Optional[Recorder] = None


def set_recorder(rec: Optional[Recorder]):
    global _active
    _active = rec


def recorder() -> Recorder:
    global _active
    if _active is None:
        _active = Recorder("??")
    return _active


# --------------------------------------------------------------------------------------------
# known findings


def load_known_findings() -> List[dict]:
    if not KNOWN_FINDINGS_FILE.exists():
        return []
    data = json.loads(KNOWN_FINDINGS_FILE.read_text())
    return data.get("findings", [])


def match_known(record: dict, findings: List[dict]) -> Optional[dict]:
    if not record.get("mechanism"):
        return None
    for f in findings:
        if f.get("status") != "known":
            continue  # a fixed entry suppresses nothing
        if f.get("property") != record["property"]:
            continue
        if f.get("mechanism") != record["mechanism"]:
            continue
        allowed = set(f.get("allowed_diff", []))
        if allowed and not set(record.get("diff", [])) <= allowed:
            continue
        return f
    return None


# --------------------------------------------------------------------------------------------
# merging shards, verdict, evidence


def merge(prop: str, shard_results: List[dict]) -> dict:
    out = {
        "prop": prop, "evaluations": 0, "nontrivial": set(), "classes": {}, "monitor_evals": {},
        "monitor_skips": {}, "monitor_errors": {}, "monitor_error_samples": [], "records": [],
        "record_count": 0, "samples": [], "notes": {}, "inconclusive": [],
    }
    for r in shard_results:
        out["evaluations"] += r["evaluations"]
        out["nontrivial"].update(r["nontrivial"])
        for key in ("classes", "monitor_evals", "monitor_skips", "monitor_errors"):
            for k, v in r[key].items():
                out[key][k] = out[key].get(k, 0) + v
        out["monitor_error_samples"] += r["monitor_error_samples"][:3]
        out["records"] += r["records"]
        out["record_count"] += r["record_count"]
        for s in r["samples"]:
            if len(out["samples"]) < MAX_SAMPLES:
                out["samples"].append(s)
        for k, v in r["notes"].items():
            if isinstance(v, (int, float)) and not isinstance(v, bool) and isinstance(out["notes"].get(k, 0), (int, float)):
                out["notes"][k] = out["notes"].get(k, 0) + v
            elif isinstance(v, dict) and isinstance(out["notes"].get(k, {}), dict):
                d = out["notes"].setdefault(k, {})
                for kk, vv in v.items():
                    if isinstance(vv, (int, float)) and not isinstance(vv, bool):
                        d[kk] = d.get(kk, 0) + vv
                    else:
                        d.setdefault(kk, vv)
            else:
                out["notes"].setdefault(k, v)
        out["inconclusive"] += r["inconclusive"]
    return out


def write_json(path: Path, data: Any):
    path.parent.mkdir(parents=True, exist_ok=True)
    tmp = path.with_suffix(path.suffix + ".tmp")
    tmp.write_text(json.dumps(data, indent=1, sort_keys=False, default=str))
    os.replace(tmp, path)
