"""C20 - plots show exactly the histogram's data and never modify it."""
from __future__ import annotations

import contextlib
import io
import math
import random
import warnings

import numpy as np

from .. import attach, core, gen, snapshot as snap
from ..attach import Call, Handler

DECIDING_MONITORS = ["C20.artists", "C20.unchanged", "C20.ticks"]
PASSIVE_UNDER_TESTS = True
RULE = ("1D (irregular bins, zeros, int / float contents, custom errors, named) and 2D histograms and collections are plotted with the "
        "matplotlib (Agg) kinds bar / scatter / line / fill / step / map / image / polar_map (wedges read back from the polar axes) / bar3d (boxes observed as the arguments of Axes3D.bar3d) and, for 'never modified' only, globe_map / cylinder_map / surface_map / pair_bars, the plotly kinds bar / line / scatter / map and the ASCII "
        "hbar, with density / cumulative / errors / show_values / show_zero / ticks options and label overrides; the drawn artists (bar "
        "rectangles, line / step / scatter data, fill polygons, error-bar segments, map rectangles and face colours, image array and extent, "
        "texts, title, axis labels, ticks; plotly traces; captured stdout) are compared with the histogram's edges / centres and frequencies / "
        "densities / running sums / +-sqrt(errors2); the histogram snapshot must be identical before and after; wrong dimension, unknown backend "
        "and kind must be refused; TimeTickHandler ticks must be the multiples of the unit inside the range (or edges / centres) with one label "
        "each; a case = one figure; non-trivial = >= 2 bins with unequal widths or a non-default option; distinct by hash of (histogram, kind, options) Plus the ASCII heat map (frame size and cell brightness observed as the arguments of xtermcolor.colorize) and image refusals for irregular bins of any scale.")
ASSUMPTIONS = ["matplotlib artists are read back from the Axes object (Agg backend); nothing is rendered to pixels",
               "plotly heat maps: z must be the transposed contents with the bins' edges (or centres) as x / y"]


def expected_data(h, density, cumulative):
    f = np.asarray(h.frequencies, dtype=float)
    sizes = np.asarray(h.bin_sizes, dtype=float)
    if density and cumulative:
        tot = f.sum()
        return np.cumsum(f / tot)
    if density:
        return f / sizes
    if cumulative:
        return np.cumsum(f)
    return f


def expected_err(h, density):
    e = np.sqrt(np.asarray(h.errors2, dtype=float))
    return e / np.asarray(h.bin_sizes, dtype=float) if density else e


def make_1d(rng: random.Random):
    import physt

    kind = rng.choice(["irregular", "regular", "gapped", "single", "radial", "azimuthal"])
    if kind in ("radial", "azimuthal"):
        # one-dimensional classes whose bin size is not the bin width (ring area): densities and density errors use the bin size
        from physt import special_histograms as sp

        n = rng.randint(3, 40)
        pts = np.array([[rng.uniform(-3, 3), rng.uniform(-3, 3)] for _ in range(n)])
        with warnings.catch_warnings():
            warnings.simplefilter("ignore")
            if kind == "radial":
                h = sp.radial(pts[:, 0], pts[:, 1], bins=np.array(sorted({0.0, 4.5} | {round(rng.uniform(0.3, 4.0), 2) for _ in range(rng.randint(1, 4))})))
            else:
                h = sp.azimuthal(pts[:, 0], pts[:, 1], bins=rng.choice([3, 4, 8]))
        return h, kind
    if kind == "gapped":
        pairs = gen.gapped_pairs(rng, rng.randint(2, 5))
    elif kind == "single":
        pairs = gen.pairs_from_edges(gen.edges(rng, 1))
    elif kind == "regular":
        pairs = gen.pairs_from_edges(gen.regular_edges(rng, rng.randint(2, 8)))
    else:
        pairs = gen.pairs_from_edges(gen.irregular_edges(rng, rng.randint(2, 8)))
    n = rng.randint(0, 40)
    data = np.asarray(gen.data_for_bins(rng, pairs, n, outside=False), dtype=float)
    kw = {}
    if rng.random() < 0.5 or kind == "gapped":
        kw["weights"] = np.asarray([rng.randint(0, 16) / 4 for _ in range(n)], dtype=float)
    h = physt.h1(data, np.array(pairs), name=rng.choice([None, "sample A"]), title=rng.choice([None, "My title"]), axis_name=rng.choice([None, "energy [keV]"]), **kw)
    if rng.random() < 0.3 and h.total > 0:
        h.errors2 = (np.asarray(h.errors2) * 3 + 1).astype(h.dtype)
    return h, kind


def make_2d(rng: random.Random, regular=False):
    import physt

    mk = gen.regular_edges if regular else gen.edges
    ax0, ax1 = mk(rng, rng.randint(1, 4)), mk(rng, rng.randint(1, 5))
    p0, p1 = gen.pairs_from_edges(ax0), gen.pairs_from_edges(ax1)
    n = rng.randint(0, 40)
    rows = np.array([gen.data_for_bins(rng, p0, n, outside=False), gen.data_for_bins(rng, p1, n, outside=False)], dtype=float).T.reshape(n, 2)
    kw = {}
    if rng.random() < 0.5:
        kw["weights"] = np.asarray([rng.randint(0, 16) / 4 for _ in range(n)], dtype=float)
    return physt.h(rows, [np.array(ax0), np.array(ax1)], axis_names=["x [mm]", "y [mm]"], name=rng.choice([None, "map"]), title=rng.choice([None, "2D title"]), **kw)


def close(a, b, rel=1e-9):
    a, b = np.asarray(a, dtype=float), np.asarray(b, dtype=float)
    return a.shape == b.shape and bool(np.allclose(a, b, rtol=rel, atol=1e-12, equal_nan=True))


# ---------------------------------------------------------------------------------------------
# matplotlib


def mpl_1d_case(ctx, index, rng: random.Random):
    import matplotlib

    matplotlib.use("Agg")
    import matplotlib.pyplot as plt
    from matplotlib.collections import LineCollection, PathCollection, PolyCollection
    from matplotlib.patches import Rectangle

    rec = ctx.rec
    h, hk = make_1d(rng)
    kind = rng.choice(["bar", "bar", "scatter", "line", "fill", "step"])
    density = rng.random() < 0.35
    cumulative = rng.random() < 0.3
    errors = kind in ("bar", "scatter", "line") and not cumulative and rng.random() < 0.4
    show_values = kind in ("bar", "scatter", "line", "step") and rng.random() < 0.3
    opts = {}
    if density:
        opts["density"] = True
    if cumulative:
        opts["cumulative"] = True
    if errors:
        opts["errors"] = True
    if show_values:
        opts["show_values"] = True
    over = {}
    if rng.random() < 0.3:
        over = {"title": "Override T", "xlabel": "Override X"}
        opts.update(over)
    ticks = rng.choice([None, None, "center", "edge"])
    if ticks:
        opts["ticks"] = ticks
    handler_xlim = None
    if not ticks and rng.random() < 0.2 and hk not in ("gapped",):
        # the time-tick helper together with an explicit axis window: ticks are the multiples of the unit inside THAT window
        from physt.plotting.common import TimeTickHandler

        lo_e, hi_e = float(np.asarray(h.bins)[0, 0]), float(np.asarray(h.bins)[-1, 1])
        span = hi_e - lo_e
        unit = rng.choice([1, 5, 30, 60])
        win = (lo_e + 0.25 * span, lo_e + 0.25 * span + unit * rng.choice([2.5, 4.2, 7.9]))
        opts["tick_handler"] = TimeTickHandler({1: "1s", 5: "5s", 30: "30s", 60: "1m"}[unit])
        opts["xlim"] = win
        handler_xlim = (unit, win)
    if hk == "gapped" and (kind == "step" or cumulative or density and cumulative):
        kind = "bar"
    if kind in ("bar", "scatter") and rng.random() < 0.3:
        # colours from a colour map (round 11): the colour scale works on the array the marks are drawn from
        opts["cmap"] = rng.choice(["viridis", "Greys"])
        if rng.random() < 0.6 and bool(np.any(np.asarray(h.frequencies) > 0)):
            opts["cmap_normalize"] = "log"
    desc = {"backend": "matplotlib", "kind": kind, "opts": {k: (v if not callable(v) else "TimeTickHandler") for k, v in opts.items()}, "class": type(h).__name__,
            "bins": np.asarray(h.bins).tolist(), "frequencies": np.asarray(h.frequencies).tolist()}
    rec.mon("C20.artists")
    with attach.quiet():
        before = snap.snapshot(h)
    if float(h.total) == 0 and density and cumulative:
        return
    try:
        with warnings.catch_warnings():
            warnings.simplefilter("ignore")
            ax = h.plot(kind, backend="matplotlib", **opts) if rng.random() < 0.5 else getattr(h.plot, kind)(backend="matplotlib", **opts)
    except Exception as e:
        rec.fail(monitor="C20.artists", op=f"mpl.{kind}", symptom=f"plotting a valid histogram raised {type(e).__name__}", diff=["raised"], detail={**desc, "error": str(e)[:200]})
        plt.close("all")
        return
    try:
        with attach.quiet():
            after = snap.snapshot(h)
            rec.mon("C20.unchanged")
            if snap.diff(before, after):
                rec.fail(monitor="C20.unchanged", op=f"mpl.{kind}", symptom="plotting modified the histogram", diff=sorted(snap.diff(before, after)), detail=desc)
            data = expected_data(h, density, cumulative)
            left, right = np.asarray(h.bin_left_edges, dtype=float), np.asarray(h.bin_right_edges, dtype=float)
            centers, widths = (left + right) / 2, right - left

            def fail(symptom, diff, **extra):
                rec.fail(monitor="C20.artists", op=f"mpl.{kind}", symptom=symptom, diff=diff, detail={**desc, **extra})

            if kind == "bar":
                rects = [p for p in ax.patches if isinstance(p, Rectangle)]
                got = np.array([[p.get_x(), p.get_width(), p.get_height()] for p in rects]) if rects else np.zeros((0, 3))
                if not (close(got[:, 0], left) and close(got[:, 1], widths) and close(got[:, 2], data)):
                    fail("bars do not sit at the bins' left edges with their widths and heights = data", ["bars"], got=got.tolist()[:6], expected=np.c_[left, widths, data].tolist()[:6])
            elif kind == "scatter":
                pcs = [c for c in ax.collections if isinstance(c, PathCollection)]
                off = np.asarray(pcs[-1].get_offsets()) if pcs else np.zeros((0, 2))
                if not (close(off[:, 0], centers) and close(off[:, 1], data)):
                    fail("scatter marks do not sit at the bin centres with heights = data", ["marks"], got=off.tolist()[:6], expected=np.c_[centers, data].tolist()[:6])
            elif kind == "line":
                ln = ax.lines[0] if ax.lines else None
                xy = np.asarray(ln.get_xydata()) if ln is not None else np.zeros((0, 2))
                if not (close(xy[:, 0], centers) and close(xy[:, 1], data)):
                    fail("line vertices do not sit at the bin centres with heights = data", ["line"], got=xy.tolist()[:6], expected=np.c_[centers, data].tolist()[:6])
            elif kind == "step":
                ln = ax.lines[0] if ax.lines else None
                xy = np.asarray(ln.get_xydata()) if ln is not None else np.zeros((0, 2))
                edges = np.concatenate([left[:1], right])
                want_y = np.concatenate([data[:1], data])
                if not (close(xy[:, 0], edges) and close(xy[:, 1], want_y)) or (ln is not None and "steps" not in ln.get_drawstyle()):
                    fail("step line does not run along the bin edges with heights = data", ["step"], got=xy.tolist()[:6], expected=np.c_[edges, want_y].tolist()[:6])
            elif kind == "fill":
                polys = [c for c in ax.collections if isinstance(c, PolyCollection)]
                verts = polys[0].get_paths()[0].vertices if polys and polys[0].get_paths() else np.zeros((0, 2))
                ok = all(any(abs(v[0] - cx) <= 1e-9 * (1 + abs(cx)) and abs(v[1] - d) <= 1e-9 * (1 + abs(d)) for v in verts) for cx, d in zip(centers, data))
                if not ok and len(centers) > 1:
                    fail("filled polygon does not pass through (bin centre, data) of every bin", ["fill"], vertices=np.asarray(verts).tolist()[:8])
            if errors:
                err = expected_err(h, density)
                segs = []
                for c in ax.collections:
                    if isinstance(c, LineCollection):
                        segs += [np.asarray(s) for s in c.get_segments()]
                xs = centers
                ok = len(segs) >= len(xs)
                if ok:
                    for cx, d, er in zip(xs, data, err):
                        hit = any(abs(s[0, 0] - cx) <= 1e-9 * (1 + abs(cx)) and abs(min(s[:, 1]) - (d - er)) <= 1e-9 * (1 + abs(d) + er) and abs(max(s[:, 1]) - (d + er)) <= 1e-9 * (1 + abs(d) + er)
                                  for s in segs if s.shape == (2, 2))
                        if not hit:
                            ok = False
                            break
                if not ok:
                    fail("error bars do not span data +- sqrt(errors2) (divided by the bin size for densities) at the bin centres", ["errorbars"],
                         expected=np.c_[xs, data - err, data + err].tolist()[:5], segments=[s.tolist() for s in segs[:5]])
            if show_values:
                texts = [t for t in ax.texts]
                pos = np.array([t.get_position() for t in texts]) if texts else np.zeros((0, 2))
                labels = [t.get_text() for t in texts]
                if len(texts) != len(centers) or not (close(pos[:, 0], centers) and close(pos[:, 1], data)) or labels != [str(v) for v in get_like(h, density, cumulative)]:
                    fail("value labels are not one per bin at (centre, data) showing the data", ["texts"], labels=labels[:6], positions=pos.tolist()[:6])
            want_title = over.get("title", h.title)
            want_x = over.get("xlabel", h.axis_names[0])
            if (want_title or "") != ax.get_title():
                fail("title does not come from the histogram's metadata / override", ["title"], got=ax.get_title(), expected=want_title)
            if (want_x or "") != ax.get_xlabel():
                fail("x label does not come from the axis name / override", ["xlabel"], got=ax.get_xlabel(), expected=want_x)
            if handler_xlim:
                unit, win = handler_xlim
                tk = np.asarray(ax.get_xticks(), dtype=float)
                k0, k1 = math.ceil(win[0] / unit - 1e-12), math.floor(win[1] / unit + 1e-12)
                want = np.array([k * unit for k in range(k0, k1 + 1)], dtype=float)
                xl = ax.get_xlim()
                if not close(tk, want) or abs(xl[0] - win[0]) > 1e-9 * (1 + abs(win[0])) or abs(xl[1] - win[1]) > 1e-9 * (1 + abs(win[1])):
                    rec.mon("C20.ticks")
                    rec.fail(monitor="C20.ticks", op=f"mpl.{kind}", symptom="time ticks are not the multiples of the unit inside the requested axis window (or the window was not kept)",
                             diff=["ticks"], detail={**desc, "window": list(win), "unit": unit, "ticks": tk.tolist()[:12], "expected": want.tolist()[:12], "xlim": list(xl)})
            if ticks:
                tk = np.asarray(ax.get_xticks(), dtype=float)
                want = centers if ticks == "center" else left
                if not close(tk, want):
                    fail("ticks are not at the bin centres / edges as requested", ["ticks"], got=tk.tolist()[:8], expected=want.tolist()[:8])
    finally:
        plt.close("all")
    rec.case(desc, (len(centers) >= 2 and not np.allclose(widths, widths[0])) or bool(opts), cls=f"mpl/{kind}{'/density' if density else ''}{'/cumulative' if cumulative else ''}{'/errors' if errors else ''}",
             sample={"kind": kind, "opts": desc["opts"], "bins": desc["bins"][:4], "drawn_heights": np.asarray(data).tolist()[:6]})


def get_like(h, density, cumulative):
    """The values as physt's own data getter yields them (labels show str(value) of the plotted data)."""
    from physt.plotting.common import get_data

    with warnings.catch_warnings():
        warnings.simplefilter("ignore")
        return get_data(h, density=density, cumulative=cumulative)


def mpl_2d_case(ctx, index, rng: random.Random):
    import matplotlib

    matplotlib.use("Agg")
    import matplotlib.pyplot as plt
    from matplotlib.patches import Rectangle

    rec = ctx.rec
    kind = rng.choice(["map", "map", "image"])
    h = make_2d(rng, regular=(kind == "image"))
    density = rng.random() < 0.3
    opts = {}
    if density:
        opts["density"] = True
    show_zero = True
    show_values = False
    if kind == "map":
        if rng.random() < 0.4:
            show_zero = False
            opts["show_zero"] = False
        if rng.random() < 0.4:
            show_values = True
            opts["show_values"] = True
    if rng.random() < 0.5:
        opts["show_colorbar"] = False
    log_scale = False
    if kind == "image" and bool(np.any(np.asarray(h.frequencies) > 0)) and rng.random() < 0.4:
        # logarithmic colour scale (round 11), images only: see DESIGN round 11 for the map observation that was left unclassified
        log_scale = True
        opts["cmap_normalize"] = "log"
    over = {}
    if rng.random() < 0.3:
        over = {"ylabel": "Override Y"}
        opts.update(over)
    desc = {"backend": "matplotlib", "kind": kind, "opts": dict(opts), "shape": list(h.shape), "frequencies": np.asarray(h.frequencies).tolist()}
    rec.mon("C20.artists")
    with attach.quiet():
        before = snap.snapshot(h)
    try:
        with warnings.catch_warnings():
            warnings.simplefilter("ignore")
            ax = h.plot(kind, backend="matplotlib", **opts)
    except Exception as e:
        if not (kind == "image" and isinstance(e, ValueError) and "irregular" in str(e)) and float(h.total) > 0:
            rec.fail(monitor="C20.artists", op=f"mpl.{kind}", symptom=f"plotting a valid histogram raised {type(e).__name__}", diff=["raised"], detail={**desc, "error": str(e)[:200]})
        plt.close("all")
        return
    try:
        with attach.quiet():
            rec.mon("C20.unchanged")
            if snap.diff(before, snap.snapshot(h)):
                rec.fail(monitor="C20.unchanged", op=f"mpl.{kind}", symptom="plotting modified the histogram", diff=sorted(snap.diff(before, snap.snapshot(h))), detail=desc)
            f = np.asarray(h.frequencies, dtype=float)
            data = f / np.asarray(h.bin_sizes, dtype=float) if density else f
            b0, b1 = np.asarray(h.bins[0], dtype=float), np.asarray(h.bins[1], dtype=float)

            def fail(symptom, diff, **extra):
                rec.fail(monitor="C20.artists", op=f"mpl.{kind}", symptom=symptom, diff=diff, detail={**desc, **extra})

            if kind == "map":
                rects = [p for p in ax.patches if isinstance(p, Rectangle)]
                want = {}
                for i in range(f.shape[0]):
                    for j in range(f.shape[1]):
                        if data[i, j] != 0 or show_zero:
                            want[(float(b0[i, 0]), float(b1[j, 0]), float(b0[i, 1] - b0[i, 0]), float(b1[j, 1] - b1[j, 0]))] = float(data[i, j])
                got = {}
                for p in rects:
                    got[(float(p.get_x()), float(p.get_y()), float(p.get_width()), float(p.get_height()))] = p.get_facecolor()
                if len(rects) != len(want) or any(not any(all(abs(a - b) <= 1e-9 * (1 + abs(b)) for a, b in zip(k, kk)) for kk in got) for k in want):
                    fail("map does not draw exactly one rectangle per (shown) bin at the bin's position", ["cells"], drawn=len(rects), expected=len(want), sample_drawn=list(got)[:4], sample_expected=list(want)[:4])
                else:
                    # colour monotone in the value (default grey map: darker = larger)
                    pairs = []
                    for k, v in want.items():
                        kk = min(got, key=lambda g: sum(abs(a - b) for a, b in zip(g, k)))
                        lum = float(np.dot(got[kk][:3], [0.299, 0.587, 0.114]))
                        pairs.append((v, lum))
                    pairs.sort()
                    lums = [p[1] for p in pairs]
                    vals = [p[0] for p in pairs]
                    if any(lums[i + 1] > lums[i] + 1e-9 and vals[i + 1] > vals[i] for i in range(len(lums) - 1)):
                        fail("cell colour is not monotone in the cell's value", ["colours"], values=vals[:8], luminance=lums[:8])
                if show_values:
                    texts = ax.texts
                    n_want = len(want)
                    if len(texts) != n_want:
                        fail("value labels are not one per shown cell", ["texts"], got=len(texts), expected=n_want)
                    else:
                        cx = {(round((k[0] + k[2] / 2), 9), round((k[1] + k[3] / 2), 9)): v for k, v in want.items()}
                        for t in texts:
                            x, y = t.get_position()
                            (xx, yy), vv = min(cx.items(), key=lambda kv: abs(kv[0][0] - x) + abs(kv[0][1] - y))
                            hit = [vv] if abs(xx - x) <= 1e-6 * (1 + abs(x)) and abs(yy - y) <= 1e-6 * (1 + abs(y)) else []
                            if not hit or t.get_text() not in (str(hit[0]), str(np.asarray(h.frequencies).dtype.type(hit[0])) if not density else str(hit[0])):
                                fail("a value label does not sit at its cell's centre showing the cell's value", ["texts"], text=t.get_text(), position=[x, y], expected=hit[:1])
                                break
            else:
                im = ax.images[0] if ax.images else None
                if im is None:
                    fail("image plot drew no image", ["image"])
                else:
                    arr = np.asarray(im.get_array(), dtype=float)
                    ext = tuple(float(v) for v in im.get_extent())
                    want_ext = (float(b0[0, 0]), float(b0[-1, 1]), float(b1[0, 0]), float(b1[-1, 1]))
                    origin = im.origin
                    want_arr = data.T[::-1, :] if origin == "upper" else data.T
                    if arr.shape != want_arr.shape or not np.allclose(arr, want_arr, rtol=1e-12, atol=0) or not np.allclose(ext, want_ext, rtol=1e-12, atol=0):
                        fail("image array / extent do not put every bin's value at the bin's position", ["image"], extent=ext, expected_extent=want_ext, got=arr.tolist()[:3], expected=want_arr.tolist()[:3])
            want_title = h.title
            if (want_title or "") != ax.get_title():
                fail("title does not come from the histogram's metadata", ["title"], got=ax.get_title(), expected=want_title)
            if ax.get_xlabel() != "x [mm]" or ax.get_ylabel() != over.get("ylabel", "y [mm]"):
                fail("axis labels do not come from the axis names / overrides", ["labels"], got=[ax.get_xlabel(), ax.get_ylabel()])
    finally:
        plt.close("all")
    rec.case(desc, h.shape[0] != h.shape[1] or bool(opts), cls=f"mpl/{kind}{'/density' if density else ''}{'/nozero' if not show_zero else ''}{'/values' if show_values else ''}{'/log' if log_scale else ''}",
             sample={"kind": kind, "opts": desc["opts"], "shape": desc["shape"]})


# ---------------------------------------------------------------------------------------------
# plotly / ascii / refusals / ticks


def plotly_case(ctx, index, rng: random.Random):
    from physt.histogram_collection import HistogramCollection

    rec = ctx.rec
    rec.mon("C20.artists")
    kind = rng.choice(["bar", "line", "scatter", "bar", "map"])
    if kind == "map":
        h = make_2d(rng)
        with attach.quiet():
            before = snap.snapshot(h)
        try:
            fig = h.plot("map", backend="plotly")
        except Exception as e:
            rec.fail(monitor="C20.artists", op="plotly.map", symptom=f"plotting a valid histogram raised {type(e).__name__}", diff=["raised"], detail={"error": str(e)[:200]})
            return
        with attach.quiet():
            tr = fig.data[0]
            z = np.asarray(tr.z, dtype=float)
            f = np.asarray(h.frequencies, dtype=float)
            b0, b1 = np.asarray(h.bins[0], dtype=float), np.asarray(h.bins[1], dtype=float)
            xs, ys = getattr(tr, "x", None), getattr(tr, "y", None)
            ok = xs is not None and ys is not None and z.shape == f.T.shape and np.allclose(z, f.T)
            if ok:
                xs, ys = np.asarray(xs, dtype=float), np.asarray(ys, dtype=float)
                ok = (close(xs, (b0[:, 0] + b0[:, 1]) / 2) or close(xs, np.concatenate([b0[:1, 0], b0[:, 1]]))) and (close(ys, (b1[:, 0] + b1[:, 1]) / 2) or close(ys, np.concatenate([b1[:1, 0], b1[:, 1]])))
            if not ok:
                rec.fail(monitor="C20.artists", op="plotly.map", symptom="heat map cells are not drawn at the bins' positions (no x / y coordinates, axes transposed)", diff=["cells"],
                         detail={"z_shape": list(z.shape), "frequencies_shape": list(f.shape), "has_x": xs is not None, "has_y": ys is not None})
            rec.mon("C20.unchanged")
            if snap.diff(before, snap.snapshot(h)):
                rec.fail(monitor="C20.unchanged", op="plotly.map", symptom="plotting modified the histogram", diff=["histogram"], detail={})
        rec.case(["plotly", "map", np.asarray(h.frequencies).tolist()], True, cls="plotly/map")
        return
    density = rng.random() < 0.4
    cumulative = rng.random() < 0.3
    opts = {}
    if density:
        opts["density"] = True
    if cumulative:
        opts["cumulative"] = True
    members = rng.choice([1, 1, 2, 3])
    h0, hk = make_1d(rng)
    if hk == "gapped" or h0.total == 0:
        opts.pop("cumulative", None)
        cumulative = False
    hs = [h0]
    import physt

    for i in range(members - 1):
        d = np.asarray(gen.data_for_bins(rng, np.asarray(h0.bins).tolist(), rng.randint(1, 30), outside=False), dtype=float)
        hs.append(physt.h1(d, np.asarray(h0.bins), name=f"member{i}", dtype=float))
    if any(x.total == 0 for x in hs) and density and cumulative:
        return
    obj = hs[0] if members == 1 else HistogramCollection(*hs)
    with attach.quiet():
        before = [snap.snapshot(x) for x in hs]
    ticks = rng.choice([None, "center", "edge"]) if kind != "bar" else None  # (plotly bar forwards unknown options to the trace)
    if ticks:
        opts["ticks"] = ticks
    desc = {"backend": "plotly", "kind": kind, "opts": dict(opts), "members": members, "bins": np.asarray(h0.bins).tolist()}
    try:
        with warnings.catch_warnings():
            warnings.simplefilter("ignore")
            fig = obj.plot(kind, backend="plotly", **opts)
    except Exception as e:
        rec.fail(monitor="C20.artists", op=f"plotly.{kind}", symptom=f"plotting a valid histogram raised {type(e).__name__}", diff=["raised"], detail={**desc, "error": str(e)[:200]})
        return
    with attach.quiet():
        if len(fig.data) != len(hs):
            rec.fail(monitor="C20.artists", op=f"plotly.{kind}", symptom="not one trace per histogram", diff=["traces"], detail={**desc, "traces": len(fig.data)})
        for tr, x in zip(fig.data, hs):
            data = expected_data(x, density, cumulative)
            left, right = np.asarray(x.bin_left_edges, dtype=float), np.asarray(x.bin_right_edges, dtype=float)
            ok = close(np.asarray(tr.x, dtype=float), (left + right) / 2) and close(np.asarray(tr.y, dtype=float), data)
            if kind == "bar":
                ok = ok and close(np.asarray(tr.width, dtype=float), right - left)
            else:
                ok = ok and tr.mode == ("lines" if kind == "line" else "markers")
            if not ok:
                rec.fail(monitor="C20.artists", op=f"plotly.{kind}", symptom="trace does not show (bin centre, data [, width]) of its histogram", diff=["trace"],
                         detail={**desc, "trace_y": np.asarray(tr.y, dtype=float).tolist()[:6], "expected_y": data.tolist()[:6], "member": x.name})
                break
        if ticks:
            tv = fig.layout.xaxis.tickvals
            want = (np.asarray(h0.bin_left_edges) + np.asarray(h0.bin_right_edges)) / 2 if ticks == "center" else np.asarray(h0.bin_left_edges)
            if tv is None or not close(np.asarray(tv, dtype=float), want):
                rec.fail(monitor="C20.artists", op=f"plotly.{kind}", symptom="ticks are not at the bin centres / edges as requested", diff=["ticks"], detail=desc)
        rec.mon("C20.unchanged")
        for b, x in zip(before, hs):
            if snap.diff(b, snap.snapshot(x)):
                rec.fail(monitor="C20.unchanged", op=f"plotly.{kind}", symptom="plotting modified the histogram", diff=sorted(snap.diff(b, snap.snapshot(x))), detail=desc)
    rec.case(desc, members > 1 or bool(opts), cls=f"plotly/{kind}/m{members}{'/density' if density else ''}{'/cumulative' if cumulative else ''}",
             sample={"kind": kind, "opts": desc["opts"], "members": members})


def ascii_map_case(ctx, index, rng: random.Random):
    """The ASCII heat map: one character cell per bin, axis 0 running to the right and axis 1 upwards (as the frame's own labels say),
    each cell as bright as its bin. The colours are observed as the arguments of xtermcolor.colorize (they reach a terminal only)."""
    from physt.histogram_nd import Histogram2D
    from physt.plotting import ascii as pascii

    rec = ctx.rec
    rec.mon("C20.artists")
    if not hasattr(pascii, "map"):
        rec.skip("C20.artists", "ascii_map_unavailable")
        return
    nx, ny = rng.randint(1, 5), rng.randint(1, 5)
    if nx == ny:
        ny += 1
    f = np.array([[rng.randint(0, 9) for _ in range(ny)] for _ in range(nx)])
    if f.max() == 0:
        f[0, -1] = 5
    if len(set(f.ravel().tolist())) < 2:
        f[0, 0] = f[0, 0] + 1 if f[0, 0] < 9 else 0
    h = Histogram2D([np.arange(nx + 1, dtype=float), 10.0 + 2 * np.arange(ny + 1, dtype=float)], f)
    cmap = rng.choice(["Greys", "Greys_r", None])
    calls = []
    real = pascii.xtermcolor.colorize

    def seen(ch, *a, **k):
        calls.append(k.get("rgb", a[0] if a else None))
        return "#"

    buf = io.StringIO()
    with attach.quiet():
        before = snap.snapshot(h)
    pascii.xtermcolor.colorize = seen
    try:
        with contextlib.redirect_stdout(buf), warnings.catch_warnings():
            warnings.simplefilter("ignore")
            h.plot("map", backend="ascii", **({} if cmap is None else {"cmap": cmap}))
    except Exception as e:
        rec.fail(monitor="C20.artists", op="ascii.map", symptom=f"plotting a valid histogram raised {type(e).__name__}", diff=["raised"], detail={"error": str(e)[:200]})
        return
    finally:
        pascii.xtermcolor.colorize = real
    lines = buf.getvalue().splitlines()
    rows = [ln for ln in lines if ln.startswith("|")]
    widths = {ln[1:].index("|") for ln in rows if "|" in ln[1:]}
    level = (f / f.max() * 255).astype(int)
    if cmap == "Greys":
        level = 255 - level
    cells = [c // (65536 + 256 + 1) for c in calls[: nx * ny]]
    # reading order: top row first (highest bin of axis 1), within a row axis 0 from left to right
    want = [int(level[i, j]) for j in range(ny - 1, -1, -1) for i in range(nx)]
    if len(rows) != ny or widths != {nx}:
        rec.fail(monitor="C20.artists", op="ascii.map", symptom="the ASCII map does not draw one cell per bin with axis 0 running to the right and axis 1 upwards (frame size)", diff=["stdout"],
                 detail={"shape": [nx, ny], "rows": len(rows), "row_widths": sorted(widths), "lines": lines[:8]})
    elif cells != want:
        rec.fail(monitor="C20.artists", op="ascii.map", symptom="the cells of the ASCII map do not carry the brightness of the bins at their positions", diff=["stdout"],
                 detail={"shape": [nx, ny], "cells": cells[:12], "expected": want[:12], "cmap": cmap})
    with attach.quiet():
        rec.mon("C20.unchanged")
        if snap.diff(before, snap.snapshot(h)):
            rec.fail(monitor="C20.unchanged", op="ascii.map", symptom="plotting modified the histogram", diff=["histogram"], detail={})
    rec.case(["ascii_map", f.tolist(), cmap], True, cls=f"ascii/map/{cmap}")


def ascii_case(ctx, index, rng: random.Random):
    rec = ctx.rec
    rec.mon("C20.artists")
    h, hk = make_1d(rng)
    if h.total == 0:
        return
    width = rng.choice([80, 40, 13])
    show_values = rng.random() < 0.5
    buf = io.StringIO()
    with attach.quiet():
        before = snap.snapshot(h)
    try:
        with contextlib.redirect_stdout(buf), warnings.catch_warnings():
            warnings.simplefilter("ignore")
            h.plot("hbar", backend="ascii", width=width, show_values=show_values)
    except Exception as e:
        rec.fail(monitor="C20.artists", op="ascii.hbar", symptom=f"plotting a valid histogram raised {type(e).__name__}", diff=["raised"], detail={"error": str(e)[:200]})
        return
    lines = buf.getvalue().splitlines()
    f = np.asarray(h.frequencies, dtype=float)
    want = np.round(f / f.sum() * width).astype(int)
    got = [ln.count("#") for ln in lines]
    ok = len(lines) == len(f) and all(abs(g - w) <= 1 for g, w in zip(got, want))  # rounding of exact halves is not judged
    if ok and show_values:
        ok = all(ln.split()[-1] == str(v) for ln, v in zip(lines, np.asarray(h.frequencies)))
    if not ok:
        rec.fail(monitor="C20.artists", op="ascii.hbar", symptom="ASCII bars are not proportional to the frequencies (one line per bin, values shown on request)", diff=["stdout"],
                 detail={"lines": lines[:8], "expected_lengths": want.tolist()[:8], "frequencies": f.tolist()[:8]})
    with attach.quiet():
        rec.mon("C20.unchanged")
        if snap.diff(before, snap.snapshot(h)):
            rec.fail(monitor="C20.unchanged", op="ascii.hbar", symptom="plotting modified the histogram", diff=["histogram"], detail={})
    rec.case(["ascii", np.asarray(h.frequencies).tolist(), width, show_values], len(f) >= 2, cls="ascii/hbar")


def refusal_case(ctx, index, rng: random.Random):
    import matplotlib

    matplotlib.use("Agg")
    import matplotlib.pyplot as plt

    rec = ctx.rec
    rec.mon("C20.artists")
    kind = rng.choice(["1d_as_map", "2d_as_bar", "unknown_backend", "unknown_kind", "2d_as_hbar", "1d_as_image", "plotly_2d_as_bar", "plotly_1d_as_map", "image_gapped", "image_irregular_tiny", "ascii_3d_as_map", "ascii_2d_as_hbar_explicit"])
    h1, _ = make_1d(rng)
    h2 = make_2d(rng)
    raised = False
    try:
        with warnings.catch_warnings():
            warnings.simplefilter("ignore")
            if kind == "1d_as_map":
                h1.plot("map", backend="matplotlib")
            elif kind == "2d_as_bar":
                h2.plot(rng.choice(["bar", "line", "step", "fill", "scatter"]), backend="matplotlib")
            elif kind == "unknown_backend":
                h1.plot("bar", backend="no_such_backend")
            elif kind == "unknown_kind":
                bname = rng.choice(["matplotlib", "plotly", "ascii"])
                name = "no_such_kind"
                if rng.random() < 0.7:
                    # a name that is not a plot type of the backend, although something of that name lives in its module
                    import physt.plotting as _pp

                    mod = _pp.backends[bname]
                    others = [n_ for n_ in dir(mod) if not n_.startswith("_") and n_ not in getattr(mod, "types", ()) and callable(getattr(mod, n_, None))]
                    if others:
                        name = rng.choice(others)
                kind = f"unknown_kind:{bname}.{name}"
                how = rng.randrange(3)
                with contextlib.redirect_stdout(io.StringIO()):
                    if how == 0:
                        h1.plot(name, backend=bname)
                    elif how == 1:
                        import physt.plotting as _pp

                        _pp.plot(h1, name, backend=bname)
                    else:
                        _pp_set = None
                        getattr(h1.plot, name)(backend=bname)
            elif kind == "2d_as_hbar":
                with contextlib.redirect_stdout(io.StringIO()):
                    h2.plot("hbar", backend="ascii")
            elif kind == "ascii_3d_as_map":
                import physt as _p

                h3_ = _p.h3(np.array([[0.5, 0.5, 0.5], [1.5, 0.5, 0.5]]), [np.array([0.0, 1.0, 2.0]), np.array([0.0, 1.0]), np.array([0.0, 1.0, 2.0, 3.0])])
                with contextlib.redirect_stdout(io.StringIO()):
                    h3_.plot("map", backend="ascii")
            elif kind == "ascii_2d_as_hbar_explicit":
                with contextlib.redirect_stdout(io.StringIO()):
                    h2.plot("hbar", backend="ascii")
            elif kind == "1d_as_image":
                h1.plot("image", backend="matplotlib")
            elif kind == "image_gapped":
                # equal-width bins with a gap: one pixel per bin cannot sit at the bins' positions (map can, image must refuse)
                import physt

                hg = physt.h2(np.array([0.5, 1.5, 5.5, 5.6]), np.array([0.5, 0.5, 1.5, 0.5]), [np.array([[0.0, 1.0], [1.0, 2.0], [5.0, 6.0]]), np.array([0.0, 1.0, 2.0])])
                hg.plot("image", backend="matplotlib")
            elif kind == "image_irregular_tiny":
                # irregular bins however small their scale (nanoseconds written in seconds): equal pixels cannot sit at the bins' positions
                from physt.histogram_nd import Histogram2D

                unit = rng.choice([1e-9, 1e-12, 1e-10, 1.0, 1e3])
                ex = np.array([0.0, 1.0, 3.0, 6.0]) * unit if rng.random() < 0.7 else np.array([0.0, 2.0, 3.0, 5.0, 6.0]) * unit
                hi_ = Histogram2D([ex, np.array([0.0, 1.0, 2.0])], np.arange(2 * (len(ex) - 1)).reshape(len(ex) - 1, 2) + 1)
                (hi_ if rng.random() < 0.7 else hi_.T).plot("image", backend="matplotlib")
            elif kind == "plotly_2d_as_bar":
                h2.plot("bar", backend="plotly")
            else:
                h1.plot("map", backend="plotly")
    except Exception:
        raised = True
    finally:
        plt.close("all")
    if not raised and kind != "2d_as_hbar":
        rec.fail(monitor="C20.artists", op=f"refusal/{kind}", symptom="wrong dimension / unknown backend or kind was not refused", diff=["not_refused"], detail={"kind": kind})
    rec.case(["refusal", kind], True, cls=f"refusal/{kind.split(':')[0]}")


def ticks_case(ctx, index, rng: random.Random):
    from physt.plotting.common import TimeTickHandler

    rec = ctx.rec
    rec.mon("C20.ticks")
    h, _ = make_1d(rng)
    unit_name, mult = rng.choice([("sec", 1), ("sec", 5), ("sec", 30), ("min", 1), ("min", 15), ("hour", 1), ("hour", 6), ("day", 1), ("sec", 0.5)])
    unit = {"sec": 1, "min": 60, "hour": 3600, "day": 86400}[unit_name] * mult
    lo = rng.choice([0.0, -500.0, 37.0, 1000.0, -50000.0, -86400.0 * 3, 12.5]) * rng.choice([1, 1, 10])
    span = unit * rng.choice([0.4, 2, 3.7, 10, 25])
    hi = lo + span
    if rng.random() < 0.3:
        lo = math.floor(lo / unit) * unit  # exactly on a multiple
    if rng.random() < 0.3:
        hi = math.ceil(hi / unit) * unit
    mode = rng.choice(["level", "level", "level", "edge", "center", "auto"])
    try:
        if mode == "level":
            spec = {"sec": f"{mult}s" if mult != 0.5 else "0.5s", "min": f"{mult}min", "hour": f"{mult}h", "day": f"{mult}d"}[unit_name]
            ticks, labels = TimeTickHandler(spec)(h, lo, hi)
        elif mode in ("edge", "center"):
            with attach.quiet():
                if mode == "edge" and not np.array_equal(np.asarray(h.bins)[1:, 0], np.asarray(h.bins)[:-1, 1]):
                    return  # edges of gapped bins are not defined
            ticks, labels = TimeTickHandler(mode)(h, lo, hi)
        else:
            ticks, labels = TimeTickHandler()(h, lo, hi)
    except Exception as e:
        rec.fail(monitor="C20.ticks", op=f"TimeTickHandler/{mode}", symptom=f"tick helper raised {type(e).__name__}", diff=["raised"], detail={"range": [lo, hi], "unit": unit, "error": str(e)[:160]})
        return
    ticks = [float(t) for t in ticks]
    desc = {"mode": mode, "range": [lo, hi], "unit": unit, "ticks": ticks[:12], "labels": list(labels)[:12]}
    if len(labels) != len(ticks):
        rec.fail(monitor="C20.ticks", op=f"TimeTickHandler/{mode}", symptom="not one label per tick", diff=["labels"], detail=desc)
    if mode == "level":
        k0, k1 = math.ceil(lo / unit - 1e-12), math.floor(hi / unit + 1e-12)
        want = [k * unit for k in range(k0, k1 + 1)]
        amb = abs(lo / unit - round(lo / unit)) < 1e-9 or abs(hi / unit - round(hi / unit)) < 1e-9
        if not close(ticks, want) and not (amb and abs(len(ticks) - len(want)) <= 1):
            rec.fail(monitor="C20.ticks", op="TimeTickHandler/level", symptom="ticks are not exactly the multiples of the unit inside the axis range", diff=["ticks"], detail={**desc, "expected": want[:12]})
    elif mode == "edge":
        with attach.quiet():
            cons = np.array_equal(np.asarray(h.bins)[1:, 0], np.asarray(h.bins)[:-1, 1])
            if cons and not close(ticks, np.concatenate([np.asarray(h.bins)[:1, 0], np.asarray(h.bins)[:, 1]])):
                rec.fail(monitor="C20.ticks", op="TimeTickHandler/edge", symptom="ticks are not at the bin edges", diff=["ticks"], detail=desc)
    elif mode == "center":
        with attach.quiet():
            if not close(ticks, (np.asarray(h.bins)[:, 0] + np.asarray(h.bins)[:, 1]) / 2):
                rec.fail(monitor="C20.ticks", op="TimeTickHandler/center", symptom="ticks are not at the bin centres", diff=["ticks"], detail=desc)
    else:
        if any(t < lo - 1e-9 * (1 + abs(lo)) or t > hi + 1e-9 * (1 + abs(hi)) for t in ticks):
            rec.fail(monitor="C20.ticks", op="TimeTickHandler/auto", symptom="automatic ticks lie outside the axis range", diff=["ticks"], detail=desc)
    rec.case(["ticks", mode, lo, hi, unit], lo < 0 or mode != "level", cls=f"ticks/{mode}")


class PlotUnchangedMonitor(Handler):
    """Passive (also under the repository's tests): no plotting call may modify the histogram."""

    name = "C20.plot"

    def before(self, call: Call):
        from ..world import is_hist

        h = call.args[0] if call.args else call.kwargs.get("histogram")
        call.bag["ph"] = None
        if call.depth == 0 and is_hist(h):
            call.bag["ph"] = (h, snap.snapshot(h))

    def after(self, call: Call):
        if not call.bag.get("ph"):
            return
        rec = core.recorder()
        rec.mon("C20.unchanged")
        h, before = call.bag["ph"]
        d = snap.diff(before, snap.snapshot(h))
        if d:
            rec.fail(prop="C20", monitor="C20.unchanged", op="plot(passive)", symptom="plotting modified the histogram", diff=sorted(d), detail={"kind": repr(call.args[1:2] or call.kwargs.get("kind"))})
        try:
            import matplotlib.pyplot as plt

            if len(plt.get_fignums()) > 15:
                plt.close("all")
        except Exception:
            pass


def mpl_special_2d_case(ctx, index, rng: random.Random):
    """polar_map (one wedge per bin at (phi, r)) and bar3d (one box per bin at the bin's position, height = value):
    the drawing calls of matplotlib are observed at its boundary (Axes.bar / Axes3D.bar3d arguments)."""
    import matplotlib

    matplotlib.use("Agg")
    import matplotlib.pyplot as plt
    from matplotlib.patches import Rectangle
    from mpl_toolkits.mplot3d import Axes3D
    from physt import special_histograms as sp

    rec = ctx.rec
    kind = rng.choice(["polar_map", "polar_map", "bar3d"])
    density = rng.random() < 0.3
    opts = {"density": True} if density else {}
    if kind == "polar_map":
        n = rng.randint(1, 40)
        pts = np.array([[rng.uniform(-3, 3), rng.uniform(-3, 3)] for _ in range(n)])
        r_edges = np.array(sorted({0.0, 4.5} | {round(rng.uniform(0.3, 4.2), 2) for _ in range(rng.randint(0, 3))}))
        kw = {"weights": np.asarray([rng.randint(0, 16) / 4 for _ in range(n)], dtype=float)} if rng.random() < 0.5 else {}
        with warnings.catch_warnings():
            warnings.simplefilter("ignore")
            h = sp.polar(pts[:, 0], pts[:, 1], radial_bins=r_edges, phi_bins=rng.choice([1, 3, 4, 7]), **kw)
        show_zero = rng.random() < 0.6
        if not show_zero:
            opts["show_zero"] = False
        if rng.random() < 0.5:
            opts["show_colorbar"] = False
    else:
        h = make_2d(rng)
        show_zero = True
    desc = {"backend": "matplotlib", "kind": kind, "opts": dict(opts), "shape": list(h.shape), "frequencies": np.asarray(h.frequencies).tolist()}
    rec.mon("C20.artists")
    with attach.quiet():
        before = snap.snapshot(h)
    calls = []
    orig = Axes3D.bar3d

    def spy(self, *a, **k):
        calls.append((a, k))
        return orig(self, *a, **k)

    try:
        with warnings.catch_warnings():
            warnings.simplefilter("ignore")
            if kind == "bar3d":
                Axes3D.bar3d = spy
            try:
                ax = h.plot(kind, backend="matplotlib", **opts)
            finally:
                Axes3D.bar3d = orig
    except Exception as e:
        if float(h.total) > 0:
            rec.fail(monitor="C20.artists", op=f"mpl.{kind}", symptom=f"plotting a valid histogram raised {type(e).__name__}", diff=["raised"], detail={**desc, "error": str(e)[:200]})
        plt.close("all")
        return
    try:
        with attach.quiet():
            rec.mon("C20.unchanged")
            dd = snap.diff(before, snap.snapshot(h))
            if dd:
                rec.fail(monitor="C20.unchanged", op=f"mpl.{kind}", symptom="plotting modified the histogram", diff=sorted(dd), detail=desc)
            f = np.asarray(h.frequencies, dtype=float)
            data = f / np.asarray(h.bin_sizes, dtype=float) if density else f
            b0, b1 = np.asarray(h.bins[0], dtype=float), np.asarray(h.bins[1], dtype=float)

            def fail(symptom, diff, **extra):
                rec.fail(monitor="C20.artists", op=f"mpl.{kind}", symptom=symptom, diff=diff, detail={**desc, **extra})

            want = {}
            for i in range(f.shape[0]):
                for j in range(f.shape[1]):
                    if data[i, j] > 0 or show_zero:
                        want[(i, j)] = float(data[i, j])
            if kind == "polar_map":
                # wedge of bin (i, j): x = phi_left, width = dphi, bottom (y) = r_left, height = dr
                rects = [p for p in ax.patches if isinstance(p, Rectangle)]
                geo = {(float(b1[j, 0]), float(b0[i, 0]), float(b1[j, 1] - b1[j, 0]), float(b0[i, 1] - b0[i, 0])): v for (i, j), v in want.items()}
                got = {(float(p.get_x()), float(p.get_y()), float(p.get_width()), float(p.get_height())): p.get_facecolor() for p in rects}
                if len(rects) != len(geo) or any(not any(all(abs(a - b) <= 1e-9 * (1 + abs(b)) for a, b in zip(k, kk)) for kk in got) for k in geo):
                    fail("polar_map does not draw exactly one wedge per (shown) bin at the bin's (phi, r) position", ["cells"], drawn=len(rects), expected=len(geo),
                         sample_drawn=list(got)[:4], sample_expected=list(geo)[:4])
                else:
                    pairs = sorted((v, float(np.dot(got[min(got, key=lambda g: sum(abs(a - b) for a, b in zip(g, k)))][:3], [0.299, 0.587, 0.114]))) for k, v in geo.items())
                    if any(pairs[i + 1][1] > pairs[i][1] + 1e-9 and pairs[i + 1][0] > pairs[i][0] for i in range(len(pairs) - 1)):
                        fail("wedge colour is not monotone in the bin's value", ["colours"], pairs=pairs[:8])
                if "polar" not in type(ax).__name__.lower() and getattr(ax, "name", "") != "polar":
                    fail("polar_map was not drawn on polar axes", ["axes"], axes=type(ax).__name__)
            else:
                if len(calls) != 1:
                    fail("bar3d did not issue exactly one box drawing call", ["cells"], calls=len(calls))
                else:
                    a, k = calls[0]
                    x, y, z, dx, dy, dz = [np.asarray(v, dtype=float).ravel() for v in a[:6]]
                    exp = []
                    for i in range(f.shape[0]):
                        for j in range(f.shape[1]):
                            exp.append((b0[i, 0], b1[j, 0], 0.0, b0[i, 1] - b0[i, 0], b1[j, 1] - b1[j, 0], data[i, j]))
                    exp = np.array(exp, dtype=float)
                    gotm = np.stack([x, y, z, dx, dy, dz], axis=1) if len(x) == len(exp) else None
                    if gotm is None:
                        fail("bar3d does not draw one box per bin", ["cells"], drawn=len(x), expected=len(exp))
                    else:
                        # Axes3D.bar3d anchors a box at (x, y, z) and extends it by (dx, dy, dz): on its bin iff anchored at the bin's left edges
                        corner = np.allclose(gotm, exp, rtol=1e-9, atol=1e-12)
                        centre = False
                        if not (corner or centre):
                            if not np.allclose(gotm[:, 5], exp[:, 5], rtol=1e-9, atol=1e-12):
                                fail("bar3d box heights are not the bins' values", ["heights"], got=gotm[:6, 5], expected=exp[:6, 5])
                            elif not np.allclose(gotm[:, 3:5], exp[:, 3:5], rtol=1e-9, atol=1e-12):
                                fail("bar3d box footprints are not the bins' widths", ["cells"], got=gotm[:4, 3:5], expected=exp[:4, 3:5])
                            else:
                                fail("bar3d boxes are not positioned on their bins", ["cells"], got=gotm[:4, :2], expected_corner=exp[:4, :2])
                    if ax.get_zlabel() != ("density" if density else "frequency"):
                        fail("bar3d z label does not say what is drawn", ["labels"], got=ax.get_zlabel())
            if kind == "bar3d":
                if ax.get_xlabel() != "x [mm]" or ax.get_ylabel() != "y [mm]":
                    fail("axis labels do not come from the histogram's axis names", ["labels"], got=[ax.get_xlabel(), ax.get_ylabel()])
    finally:
        plt.close("all")
    rec.case([kind, opts, np.asarray(h.frequencies).tolist(), [np.asarray(b).tolist() for b in h.bins]], float(h.total) > 0 and h.shape[0] * h.shape[1] >= 2,
             cls=f"mpl/{kind}{'/density' if density else ''}", sample={"kind": kind, "opts": opts, "shape": list(h.shape), "drawn": len(want)})


def mpl_other_case(ctx, index, rng: random.Random):
    """The remaining matplotlib plot types (globe_map, cylinder_map, surface_map, pair_bars): they accept the matching
    histograms and never modify them (pair_bars negates a copy under free arithmetics: the switch must be off again)."""
    import matplotlib

    matplotlib.use("Agg")
    import matplotlib.pyplot as plt
    import physt
    from physt import special_histograms as sp
    from physt.config import config
    from physt.plotting import matplotlib as pm

    rec = ctx.rec
    kind = rng.choice(["globe_map", "cylinder_map", "surface_map", "pair_bars"])
    n = rng.randint(2, 30)
    pts = np.array([[rng.gauss(0, 1.5) for _ in range(3)] for _ in range(n)])
    rec.mon("C20.unchanged")
    with warnings.catch_warnings():
        warnings.simplefilter("ignore")
        if kind == "globe_map":
            hs = [sp.spherical_surface(pts, theta_bins=rng.choice([2, 4]), phi_bins=rng.choice([3, 6]))]
        elif kind == "cylinder_map":
            hs = [sp.cylindrical_surface(pts, phi_bins=rng.choice([3, 6]), z_bins=np.array([-5.0, 0.0, 1.0, 5.0]))]
        elif kind == "surface_map":
            hs = [make_2d(rng)]
        else:
            e = np.array(gen.edges(rng, rng.randint(1, 6)))
            p = gen.pairs_from_edges(e.tolist())
            hs = [physt.h1(np.asarray(gen.data_for_bins(rng, p, n)), e, name="first"), physt.h1(np.asarray(gen.data_for_bins(rng, p, n)), e, name="second")]
        with attach.quiet():
            before = [snap.snapshot(h) for h in hs]
        flag = bool(config.free_arithmetics)
        try:
            if kind == "pair_bars":
                pm.pair_bars(hs[0], hs[1])
            else:
                # the title comes from the histogram's metadata unless overridden - for these plot types as for every other
                with attach.quiet():
                    hs[0].title = rng.choice(["Run 7", None, "títle"])
                    before = [snap.snapshot(h) for h in hs]
                over = rng.choice([None, None, "given"])
                ax_ = hs[0].plot(kind, backend="matplotlib", **({"title": over} if over else {}))
                want_t = over or hs[0].title
                try:
                    got_t = ax_.get_title()
                except Exception:
                    got_t = None
                if want_t and got_t is not None and got_t != want_t:
                    rec.mon("C20.artists")
                    rec.fail(monitor="C20.artists", op=f"mpl.{kind}", symptom="the plot does not carry the title (the histogram's own, unless one is given)", diff=["title"],
                             detail={"kind": kind, "got": got_t, "expected": want_t, "given": over})
        except Exception as e:
            rec.fail(monitor="C20.unchanged", op=f"mpl.{kind}", symptom=f"plotting a valid histogram raised {type(e).__name__}", diff=["raised"], detail={"kind": kind, "error": str(e)[:200]})
        finally:
            plt.close("all")
    with attach.quiet():
        for h, b in zip(hs, before):
            dd = snap.diff(b, snap.snapshot(h))
            if dd:
                rec.fail(monitor="C20.unchanged", op=f"mpl.{kind}", symptom="plotting modified the histogram", diff=sorted(dd), detail={"kind": kind})
        if bool(config.free_arithmetics) != flag:
            rec.fail(monitor="C20.unchanged", op=f"mpl.{kind}", symptom="plotting left the free-arithmetics switch changed", diff=["free_arithmetics"], detail={"kind": kind})
    rec.case([kind, pts.tolist()], True, cls=f"mpl/{kind}")


def default_backend_case(ctx, index, rng: random.Random):
    """The backend registry: the default backend is what set_default_backend chose (unknown names refused, nothing changed by
    the refusal) and plot() without a backend argument dispatches to it; the previous default is put back afterwards."""
    import matplotlib

    matplotlib.use("Agg")
    import matplotlib.pyplot as plt
    import physt.plotting as pp

    rec = ctx.rec
    rec.mon("C20.artists")
    h, _ = make_1d(rng)
    old = pp.get_default_backend()
    name = rng.choice(sorted(set(pp.backends) & {"matplotlib", "plotly", "ascii"}))
    try:
        try:
            pp.set_default_backend(rng.choice(["no_such_backend", "bokeh", ""]))
            rec.fail(monitor="C20.artists", op="set_default_backend", symptom="unknown backend accepted as the default", diff=["not_refused"], detail={})
        except Exception:
            if pp.get_default_backend() != old:
                rec.fail(monitor="C20.artists", op="set_default_backend", symptom="a refused default backend changed the default", diff=["default_backend"], detail={})
        pp.set_default_backend(name)
        if pp.get_default_backend() != name:
            rec.fail(monitor="C20.artists", op="set_default_backend", symptom="get_default_backend does not return the backend that was set", diff=["default_backend"],
                     detail={"set": name, "got": pp.get_default_backend()})
        buf = io.StringIO()
        with warnings.catch_warnings(), contextlib.redirect_stdout(buf):
            warnings.simplefilter("ignore")
            kind_ = "hbar" if name == "ascii" else "bar"
            res = h.plot(kind_) if rng.random() < 0.5 else pp.plot(h, kind_)
        with attach.quiet():
            if name == "ascii":
                ok = res is None and len(buf.getvalue().splitlines()) == h.bin_count
            elif name == "plotly":
                ok = type(res).__module__.startswith("plotly")
            else:
                ok = hasattr(res, "patches") and buf.getvalue() == ""
            if not ok:
                rec.fail(monitor="C20.artists", op="plot()", symptom="plot() without a backend argument did not use the default backend", diff=["backend"],
                         detail={"default": name, "result": type(res).__name__})
    except Exception as e:
        if float(h.total) > 0:  # an empty histogram cannot be normalised for the ASCII bars (as in the other ASCII cases)
            rec.fail(monitor="C20.artists", op="default backend", symptom=f"default backend handling raised {type(e).__name__}", diff=["raised"], detail={"error": str(e)[:160], "backend": name})
    finally:
        if old is not None:
            pp.set_default_backend(old)
        plt.close("all")
    rec.case(["default_backend", name], True, cls=f"default_backend/{name}")


def attach_monitors():
    import physt.plotting as pp

    mon = PlotUnchangedMonitor()
    attach.wrap(pp, "plot", mon)
    # the plotting functions themselves (the repository's tests call them directly)
    for backend in pp.backends.values():
        for kind in getattr(backend, "types", ()):
            if callable(getattr(backend, kind, None)):
                attach.wrap(backend, kind, mon, qualname=f"{backend.__name__}.{kind}")


def run(ctx):
    attach_monitors()
    ctx.run_cases(ctx.scale(90, 700), mpl_1d_case, salt="mpl1d")
    ctx.run_cases(ctx.scale(50, 400), mpl_2d_case, salt="mpl2d")
    ctx.run_cases(ctx.scale(30, 200), mpl_special_2d_case, salt="mplspecial")
    ctx.run_cases(ctx.scale(12, 80), mpl_other_case, salt="mplother")
    ctx.run_cases(ctx.scale(8, 40), default_backend_case, salt="default")
    ctx.run_cases(ctx.scale(120, 800), plotly_case, salt="plotly")
    ctx.run_cases(ctx.scale(60, 300), ascii_case, salt="ascii")
    ctx.run_cases(ctx.scale(40, 200), ascii_map_case, salt="asciimap")
    ctx.run_cases(ctx.scale(30, 120), refusal_case, salt="refusal")
    ctx.run_cases(ctx.scale(150, 1000), ticks_case, salt="ticks")
