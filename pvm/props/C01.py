"""C01 - 1D construction: each value counted once, in the bin that contains it."""
from __future__ import annotations

import math
import random
import warnings

import numpy as np

from .. import attach, gen, model
from ..monitors import construct

DECIDING_MONITORS = ["C01.h1.post"]
PASSIVE_UNDER_TESTS = True
RULE = ("cases = h1(data, bins, weights, dtype, keep_missed, dropna) with data aimed at every edge (on it, one ulp beside), "
        "gaps (also gaps far below numpy's allclose tolerance), far outside, NaN / None / object arrays; bins as edges/pairs/gapped pairs/binning objects/int/method names; "
        "non-trivial = >= 2 bins, >= 1 value on or one ulp beside an edge, >= 2 different destinations "
        "(bin/underflow/overflow/gap/NaN) occupied; distinct by hash of (bins, data, weights, flags) Plus `big_square_case`: integer weights whose squares (or sums of squares) leave 64-bit integers while contents stay small - errors2 exact or the request refused, for h1 and fill_n.")
ASSUMPTIONS = [
    "membership is judged on the edges the returned histogram reports (whether those are the right edges is C07)",
    "weights are small dyadic rationals (also as int8 .. float16 arrays), so every sum is exact and compared with ==; general float weights (also magnitudes 2**60 next to 1) are compared bin by bin within n_bin * eps of that bin's own weight sum",
    "numpy itself (asarray, nextafter) is trusted",
]


def attach_monitors():
    import physt
    from physt import _facade

    attach.wrap(_facade, "h1", construct.H1Monitor())


def _binning_object(rng: random.Random, pairs, consecutive: bool):
    from physt import binnings

    if consecutive and rng.random() < 0.4:
        e = [p[0] for p in pairs] + [pairs[-1][1]]
        return binnings.NumpyBinning(np.array(e), includes_right_edge=rng.random() < 0.7), "NumpyBinning"
    return binnings.StaticBinning(np.array(pairs), includes_right_edge=rng.random() < 0.7), "StaticBinning"


def _prepared_object(rng: random.Random):
    """Prepared (not data-derived) fixed-width / integer / exponential binnings: in 1D the last bin is closed for all."""
    from physt import binnings

    how = rng.randrange(4)
    nb = rng.randint(1, 10)
    w = rng.choice(gen.WIDTH_POOL)
    lo = rng.choice([0.0, 1.0, -2.5, 100.0, 0.7])
    if how == 0:
        return binnings.FixedWidthBinning(bin_width=w, bin_count=nb, min=lo)
    if how == 1:
        return binnings.fixed_width_binning(None, bin_width=w, range=(lo, lo + nb * w))
    if how == 2:
        return binnings.integer_binning(None, range=(int(lo), int(lo) + nb))
    return binnings.exponential_binning(None, nb, range=(0.5, 0.5 * 10 ** rng.choice([1, 2, 0.5])))


def one_case(ctx, index: int, rng: random.Random):
    import physt

    rec = ctx.rec
    big = not ctx.quick
    kind = rng.choice(["edges", "edges", "pairs", "gapped", "gapped", "tinygap", "object", "prepared", "int", "method", "none", "single"])
    nmax = 300 if not big else rng.choice([300, 300, 2000])
    n = rng.choice([0, 1, 2, 3, 10, 40, nmax]) if rng.random() < 0.5 else rng.randint(0, nmax)
    kwargs = {}
    bins_arg = None
    pairs = None
    mechanism = None
    if kind == "prepared":
        bins_arg = _prepared_object(rng)
        gen.touch_binning(rng, bins_arg)
        pairs = np.asarray(bins_arg.bins, dtype=float).tolist()
        data = gen.data_for_bins(rng, pairs, n, nan_ok=rng.random() < 0.3)
    elif kind in ("edges", "pairs", "gapped", "tinygap", "object", "single"):
        nb = 1 if kind == "single" else (rng.randint(1, 12) if not big else rng.randint(1, 60))
        if kind == "gapped":
            pairs = gen.gapped_pairs(rng, max(2, min(nb, 12)))
        elif kind == "tinygap":  # real gaps far below numpy's allclose tolerance: still gaps for membership
            pairs = gen.tiny_gapped_pairs(rng, max(2, min(nb, 6)))
        else:
            pairs = gen.pairs_from_edges(gen.edges(rng, nb))
        cons = gen.is_consecutive_pairs(pairs)
        if kind == "edges" or kind == "single":
            e = [p[0] for p in pairs] + [pairs[-1][1]]
            bins_arg = np.array(e) if rng.random() < 0.8 else tuple(e)
        elif kind in ("pairs", "gapped", "tinygap"):
            bins_arg = np.array(pairs) if rng.random() < 0.8 else [list(p) for p in pairs]
        else:
            bins_arg, _ = _binning_object(rng, pairs, cons)
            gen.touch_binning(rng, bins_arg)  # representations read before use must not change what the object means
        data = gen.data_for_bins(rng, pairs, n, nan_ok=rng.random() < 0.4)
        if kind == "tinygap" and data:
            gaps = [(pairs[i][1], pairs[i + 1][0]) for i in range(len(pairs) - 1) if pairs[i][1] != pairs[i + 1][0]]
            for _ in range(rng.randint(1, 4)):
                a, b = rng.choice(gaps)
                data[rng.randrange(len(data))] = rng.choice([a, (a + b) / 2, float(np.nextafter(b, -np.inf)), float(np.nextafter(a, np.inf))])
    else:
        # bins derived from the data: at least two distinct finite values
        n = max(n, 2)
        scale = 10 ** rng.uniform(-3, 4)
        off = rng.choice(gen.OFFSET_POOL)
        if scale * 1e6 < abs(off):
            off = 0.0
        data = [off + scale * rng.choice([rng.random(), rng.randint(0, 20) / 4, rng.gauss(0, 1)]) for _ in range(n)]
        data[0], data[1] = off, off + scale  # distinct
        if rng.random() < 0.3:
            for _ in range(rng.randint(1, 3)):
                data[rng.randrange(2, n) if n > 2 else 0] = float("nan") if n > 2 else data[0]
        if kind == "int":
            bins_arg = rng.choice([1, 2, 3, 5, 10, 17, 50])
        elif kind == "method":
            m = rng.choice(["numpy", "fixed_width", "pretty", "integer", "quantile", "sturges", "sqrt", "rice", "doane", "exponential"])
            bins_arg = m
            if m == "fixed_width":
                kwargs["bin_width"] = scale * rng.choice([0.1, 0.25, 0.3, 1.0, 2.5])
            elif m == "quantile":
                kwargs["bin_count"] = rng.randint(1, 6)
                # quantile binning refuses tied quantiles: make the data distinct
                data = [off + scale * (i + rng.random() * 0.5) for i in range(n)]
                rng.shuffle(data)
            elif m == "exponential":
                data = [abs(x) + scale * 1e-3 for x in data if not math.isnan(x)]
                data[0] = data[0] * 3 + scale
                kwargs["bin_count"] = rng.randint(1, 8)
            elif m == "integer":
                if scale > 50:
                    data = [x / scale * 10 if not math.isnan(x) else x for x in data]
            elif m == "numpy":
                kwargs["bin_count"] = rng.randint(1, 20)
        else:
            bins_arg = None
    infs = False
    if pairs is not None and len(data) > 2 and rng.random() < 0.12:
        for _ in range(rng.randint(1, 3)):
            data[rng.randrange(len(data))] = rng.choice([math.inf, -math.inf])
        infs = True
    wts, wkind = gen.weights(rng, len(data))
    general = False
    wide = False
    if wts is not None and rng.random() < 0.1:
        if rng.random() < 0.5:
            wts = [rng.uniform(0, 3) for _ in data]
        else:  # magnitudes many orders apart: a light bin next to a heavy one keeps its own sum
            wts = [rng.choice([2.0**60, 1e6, 1.0, 1.0, 1e-9, 3.0, 0.75, 2.0**-30]) for _ in data]
        wkind = "general"
        general = True
        wide = max(wts, default=0) > 1e5
    dtype = rng.choice([None, None, None, "int64", "float64", "float32", "int32", "int16", "float16"])
    w_is_float = wts is not None and (wkind in ("dyadic", "zeros_some", "general") or len(data) == 0)
    if dtype is not None and np.dtype(dtype).kind in "iu" and w_is_float:
        dtype = "float64"  # integer histogram + float weights is a refusal (C13), not generated here
    if wide and dtype in ("float16", "float32"):
        dtype = "float64"  # 2**120 squared weights do not fit the narrow float types
    if dtype == "float16" and (len(data) > 40):
        dtype = "float32"
    if dtype == "int16" and len(data) > 300:
        dtype = "int32"  # sums of squared weights must stay inside the type (overflow raised by numpy itself is outside the statement)
    keep_missed = rng.random() < 0.8
    dropna = True if any(isinstance(x, float) and math.isnan(x) for x in data) else rng.random() < 0.7
    if dtype is not None:
        kwargs["dtype"] = dtype
    if not keep_missed:
        kwargs["keep_missed"] = False
    if not dropna:
        kwargs["dropna"] = False
    w_arg = None
    if wts is not None:
        w_arg = np.asarray(wts) if rng.random() < 0.7 else list(wts)
        if dtype is None and not general and len(data) <= 300:
            if wkind == "int" and rng.random() < 0.5:
                wts = [w * 12 for w in wts]  # single weights fit int8 / uint8, their squares and sums do not
                w_arg = np.asarray(wts) if isinstance(w_arg, np.ndarray) else list(wts)
            nw, ndt = gen.narrow_weights(rng, wts, p=0.3)
            if nw is not None:
                w_arg, wkind = nw, f"{wkind}:{ndt}"
        if len(data) == 0:
            w_arg = np.zeros(0, dtype=float)
        kwargs["weights"] = w_arg
    container, ckind = gen.shaped(rng, data)
    if ckind.startswith("array2d") and w_arg is not None:
        # weights belong to values by index: same logical shape, C order whatever the memory layout of the data
        w_arg = np.asarray(wts).reshape(np.asarray(container).shape)
        kwargs["weights"] = w_arg
    elif ckind == "array" and w_arg is not None and len(data) >= 4 and len(data) % 2 == 0 and rng.random() < 0.2:
        # ... and the other way round: C-ordered data, weights in Fortran order
        container = np.asarray(data, dtype=float).reshape(2, -1)
        kwargs["weights"] = w_arg = np.asfortranarray(np.asarray(wts).reshape(2, -1))
        ckind = "array2d_wF"
    if ckind == "tuple" and len(data) == 0:
        container, ckind = [], "list"

    int_result = (dtype is None and not w_is_float) or (dtype is not None and np.dtype(dtype).kind in "iu")
    gapped = pairs is not None and not gen.is_consecutive_pairs(pairs)

    flat = np.asarray(data, dtype=float)
    wflat = None if wts is None else np.asarray(wts)
    desc = {"bins_kind": kind, "bins": (gen.hexlist(np.asarray(pairs).ravel()) if pairs is not None else repr(bins_arg)),
            "data": gen.hexlist(flat), "weights": None if wts is None else list(wts), "container": ckind,
            "kwargs": {k: (v if isinstance(v, (str, int, float, bool)) else "<array>") for k, v in kwargs.items()}}
    try:
        h = physt.h1(container, bins_arg, **kwargs)
    except Exception as e:
        rec.mon("C01.h1.post")
        rec.case(desc, False, cls=f"raised:{kind}")
        if infs:
            return  # infinite values may be refused (outside the quantifier); silently losing their weight may not
        if not (isinstance(e, ValueError) and "NaN" in str(e)):
            mechanism = None  # the known finding is this refusal only
        rec.fail(monitor="C01.h1.post", op="h1", symptom=f"valid input refused: {type(e).__name__}",
                 diff=["raised"], mechanism=mechanism, detail={"error": str(e)[:300], **desc})
        return
    # the oracle (also reached passively through the wrapper for list/array containers; the direct
    # call covers iterators and is the deciding evaluation)
    with attach.quiet():
        ok = construct.check_h1(rec, h, flat, wflat, bins_arg=bins_arg if kind not in ("object", "prepared") else None,
                                dtype=dtype, keep_missed=keep_missed, op="h1", detail=desc)
        if ckind == "named" and h.name != "label":
            rec.fail(monitor="C01.h1.post", op="h1", symptom="the (name, values) form did not name the histogram", diff=["name"], detail={"name": h.name})
        if kind in ("object", "prepared"):
            if not np.array_equal(np.asarray(h.bins), np.asarray(pairs)):
                rec.fail(monitor="C01.h1.post", op="h1", symptom="bins of the supplied binning object not reported unchanged",
                         diff=["bins"], detail=desc)
        bins = np.asarray(h.bins, dtype=float)
    all_edges = sorted(set(bins.ravel().tolist()))
    fin = flat[~np.isnan(flat)]
    adjacent = any(gen.is_edge_adjacent(float(v), all_edges) for v in fin[:400])
    m = model.bin_1d(bins, flat, None)
    dests = {d if isinstance(d, str) else "bin%d" % d[1] for d in m.dest}
    nontrivial = len(bins) >= 2 and adjacent and len(dests) >= 2
    rec.case(desc, nontrivial, cls=f"{kind}/{wkind}{'/general' if general else ''}/{'gapped' if gapped else 'cons'}{'/inf' if infs else ''}",
             sample={"bins": bins.tolist()[:6], "data": flat.tolist()[:12], "weights": None if wts is None else list(wts)[:12],
                     "frequencies": np.asarray(h.frequencies).tolist()[:6], "underflow": float(h.underflow), "overflow": float(h.overflow),
                     "kwargs": desc["kwargs"]})


def big_square_case(ctx, index: int, rng: random.Random):
    """Integer weights (event counts scaled up, nanoseconds) whose bins fit 2**53 comfortably while the sums of their squares leave 64-bit
    integers: the squared errors are those sums (rounded once into a float type), or the request is refused - never a wrapped number."""
    import physt
    from fractions import Fraction

    rec = ctx.rec
    rec.mon("C01.h1.post")
    nb = rng.randint(1, 4)
    edges = np.arange(nb + 1, dtype=float)
    n = rng.choice([1, 2, 5, 2500])
    w0 = rng.choice([5_000_000_000, 2**32, 3_037_000_500, 4_000_000_000]) if n < 100 else rng.choice([10**8, 2 * 10**8])
    data = np.asarray([rng.randrange(nb) + 0.5 for _ in range(n)])
    wts = np.asarray([w0 + rng.randint(0, 3) for _ in range(n)], dtype=np.int64)
    if rng.random() < 0.25:
        # one large negative weight (a correction entry) among many moderate positive ones in the same bin: the bin's weight stays positive,
        # the square of the negative one is the biggest number around
        n = 66
        data = np.full(n, 0.5)
        wts = np.asarray([-(2**32)] + [2**26 + rng.randint(0, 3) for _ in range(n - 1)], dtype=np.int64)
    dt = rng.choice([None, float, "float64", "int64"])
    form = rng.choice(["h1", "fill_n"])
    exp = [sum(Fraction(int(w)) ** 2 for x, w in zip(data, wts) if int(x) == k) for k in range(nb)]
    fits_int = max(exp) < 2**63
    desc = {"n": n, "weight": w0, "dtype": str(dt), "form": form, "bins": nb}
    try:
        with warnings.catch_warnings():
            warnings.simplefilter("ignore")
            if form == "h1":
                h = physt.h1(data, edges, weights=wts, **({} if dt is None else {"dtype": dt}))
            else:
                h = physt.h1(None, edges, **({} if dt is None else {"dtype": dt}))
                h.fill_n(data, weights=wts)
    except (OverflowError, ValueError) as ex:
        is_int = dt in (None, "int64")
        if not (is_int and not fits_int):
            rec.fail(monitor="C01.h1.post", op=form, symptom=f"valid input refused: {type(ex).__name__}", diff=["raised"], detail={**desc, "error": str(ex)[:160]})
        rec.case(desc, is_int and not fits_int, cls=f"big_square/{form}/{dt}/refused")
        return
    with attach.quiet():
        got = np.asarray(h.errors2)
        kind = np.dtype(h.dtype).kind
        want = [float(e) for e in exp]
        if kind in "iu" and not fits_int:
            rec.fail(monitor="C01.h1.post", op=form, symptom="sums of squared weights that do not fit the integer content type were stored in it (wrapped around)", diff=["errors2"],
                     detail={**desc, "got": got.tolist(), "expected": want})
        elif not np.allclose(got.astype(float), want, rtol=1e-12, atol=0):
            rec.fail(monitor="C01.h1.post", op=form, symptom="errors2 differ from the sums of squared weights", diff=["errors2"], detail={**desc, "got": got.astype(float).tolist(), "expected": want})
        cont = [float(sum(int(w) for x, w in zip(data, wts) if int(x) == k)) for k in range(nb)]
        if not np.array_equal(np.asarray(h.frequencies, dtype=float), cont):
            rec.fail(monitor="C01.h1.post", op=form, symptom="bin contents differ from the weight inside", diff=["frequencies"], detail={**desc, "got": np.asarray(h.frequencies, dtype=float).tolist(), "expected": cont})
    rec.case(desc, True, cls=f"big_square/{form}/{dt}/{np.dtype(h.dtype)}")


def run(ctx):
    ctx.run_cases(ctx.scale(40, 300), big_square_case, salt="bigsq")
    attach_monitors()
    ctx.run_cases(ctx.scale(700, 6000), one_case)
