"""C11 - indexing and slicing follow numpy semantics on the bin grid."""
from __future__ import annotations

import itertools
import random
import warnings

import numpy as np

from .. import attach, gen, snapshot as snap
from ..monitors import structure

DECIDING_MONITORS = ["C11.index.post"]
PASSIVE_UNDER_TESTS = True
RULE = ("(a) complete enumeration of the 1D slice space for 1..6 bins: start, stop in -n-1..n+1 or None, step in {None, 1, 2, -1} (shard 0); "
        "(b) sampled ints (incl. negative / out of range), boolean masks (right and wrong size), index arrays (sorted, negative, out of range, "
        "unsorted), on 1D histograms with under/overflow, gapped bins, keep_missed on/off, where the source's numpy_bins / edges were read "
        "before or not; (c) sampled tuples mixing ints and slices (too many, out of range, reversed) and select(axis, index) on 2-4D "
        "histograms with asymmetric shapes and named axes; the oracle is numpy indexing applied to the source's bins / contents / errors2, "
        "plus conservation of total + underflow + overflow for non-empty contiguous slices; after each selection the result's edge "
        "representations are cross-checked; non-trivial = selection that cuts off content on at least one side, or drops >= 1 axis of a >= 3D "
        "histogram; distinct by hash of (histogram, index) Integer positions are also given as numpy integers / 0-d integer arrays, and one-axis HistogramND objects are indexed.")
ASSUMPTIONS = ["empty selections and a zero step may be refused; forward steps are judged like the equivalent index array, negative steps must be refused",
               "unsorted / repeated index arrays: judged against 'taken in increasing order'; integer bookkeeping of what a slice cuts off is compared as integers (beyond 2**53)"]


def attach_monitors():
    structure.attach_structure_monitors(("index",))


def make_1d(rng, nb=None, read_edges=None):
    import physt

    nb = nb or rng.randint(1, 8)
    kind = rng.choice(["edges", "edges", "gapped", "numpy"])
    if kind == "gapped" and nb >= 2:
        pairs = gen.gapped_pairs(rng, nb)
    else:
        pairs = gen.pairs_from_edges(gen.edges(rng, nb))
    n = rng.randint(0, 40)
    data = gen.data_for_bins(rng, pairs, n)
    kw = {}
    gapped = not gen.is_consecutive_pairs(pairs)
    if rng.random() < 0.5 or gapped:
        kw["weights"] = np.asarray([rng.randint(1, 16) / 4 for _ in range(n)], dtype=float)
    if rng.random() < 0.15:
        kw["keep_missed"] = False
    if not gapped and rng.random() < 0.15:
        # float32 contents whose partial sums are float32 numbers only if they are formed exactly (2**24 + 1 + 1)
        from physt.histogram1d import Histogram1D

        vals = np.array([rng.choice([2.0**24, 1.0, 1.0, 5.0, 3.0]) for _ in range(len(pairs))], dtype=np.float32)
        if len(vals) >= 4 and rng.random() < 0.6:
            vals[0], vals[-1] = 2.0**24, 2.0**24  # what a slice cuts off on either side starts / ends with the big one
        h = Histogram1D(np.array([p[0] for p in pairs] + [pairs[-1][1]]), vals, name="src", axis_name="x")
    elif not gapped and rng.random() < 0.12:
        # integer contents far beyond 2**53 (given directly): the bookkeeping of what a slice cuts off stays exact
        from physt.histogram1d import Histogram1D

        big = np.array([2**58 + rng.randint(0, 99) if rng.random() < 0.6 else rng.randint(0, 9) for _ in range(len(pairs))], dtype=np.int64)
        h = Histogram1D(np.array([p[0] for p in pairs] + [pairs[-1][1]]), big, name="src", axis_name="x")
    elif kind == "numpy" and not gapped:
        h = physt.h1(np.asarray(data + [pairs[0][0], pairs[-1][1]], dtype=float), len(pairs))
    else:
        h = physt.h1(np.asarray(data, dtype=float), np.array(pairs), name="src", axis_name="x", **kw)
    if read_edges if read_edges is not None else rng.random() < 0.5:
        try:
            _ = h.numpy_bins  # the lazily cached edge array of the source must not leak into selections
            _ = h.binning.is_consecutive()
        except Exception:
            pass
    return h


def cross_check_result(rec, r, op, index, source=None):
    """The selection's edge representations must agree with its own bins (cached edges of the source must not leak), and its bins are
    the source's intervals: the last selected bin is closed on the right only if it is the source's closed last bin."""
    from ..world import is_hist

    if not is_hist(r):
        return
    with attach.quiet():
        try:
            binnings = r.binnings
            src_axis = {}
            if source is not None:
                if source.ndim == 1 and r.ndim == 1:
                    src_axis = {0: 0}
                elif len(set(source.axis_names)) == source.ndim:
                    src_axis = {i: list(source.axis_names).index(nm) for i, nm in enumerate(r.axis_names) if nm in source.axis_names}
            for ax, b in enumerate(binnings):
                bins = np.asarray(b.bins, dtype=float)
                if len(bins) == 0:
                    continue
                if ax in src_axis:
                    sb = source.binnings[src_axis[ax]]
                    sbins = np.asarray(sb.bins, dtype=float)
                    closed_in_source = bool(sb.includes_right_edge) and len(sbins) and bins[-1, 1] == sbins[-1, 1]
                    if bool(b.includes_right_edge) and not closed_in_source:
                        rec.fail(prop="C11", monitor="C11.index.post", op=op, symptom="a selection that leaves out the source's last bin closes its own last bin on the right (a half-open bin of the source became a closed one)",
                                 diff=["bins", "includes_right_edge"], detail={"index": repr(index)[:100], "axis": ax, "last_bin": bins[-1].tolist(), "source_last_bin": sbins[-1].tolist()})
                cons = np.array_equal(bins[1:, 0], bins[:-1, 1])
                if b.bin_count != len(bins):
                    rec.fail(prop="C11", monitor="C11.index.post", op=op, symptom="bin_count of the selection's binning differs from its bins", diff=["bins"], detail={"index": repr(index)[:100]})
                if float(b.first_edge) != bins[0, 0] or float(b.last_edge) != bins[-1, 1]:
                    rec.fail(prop="C11", monitor="C11.index.post", op=op, symptom="first_edge / last_edge of the selection disagree with its bins", diff=["bins"],
                             detail={"index": repr(index)[:100], "first": float(b.first_edge), "last": float(b.last_edge), "bins": bins[:4]})
                if cons:
                    nb = np.asarray(b.numpy_bins, dtype=float)
                    want = np.concatenate([bins[:1, 0], bins[:, 1]])
                    if nb.shape != want.shape or not np.array_equal(nb, want):
                        rec.fail(prop="C11", monitor="C11.index.post", op=op, symptom="numpy_bins (edges) of the selection disagree with its bins", diff=["bins"],
                                 detail={"index": repr(index)[:100], "numpy_bins": nb[:8], "bins": bins[:4]})
        except Exception as e:
            rec.fail(prop="C11", monitor="C11.index.post", op=op, symptom=f"edge representations of the selection raise {type(e).__name__}", diff=["bins"],
                     detail={"index": repr(index)[:100], "error": str(e)[:100]})


def enumerate_slices(ctx, index, rng: random.Random):
    """Shard 0 only: the complete slice space for n = index + 1 bins."""
    if ctx.shard != 0:
        return
    rec = ctx.rec
    n = index + 1
    h = make_1d(rng, nb=n, read_edges=bool(index % 2))
    vals = [None] + list(range(-n - 1, n + 2))
    count = 0
    nonempty_contiguous = 0
    for start, stop, step in itertools.product(vals, vals, [None, 1, 2, -1]):
        sl = slice(start, stop, step)
        try:
            with warnings.catch_warnings():
                warnings.simplefilter("ignore")
                r = h[sl]
            cross_check_result(rec, r, "h[slice]", sl)
            if step is None and len(range(*sl.indices(n))) > 0:
                nonempty_contiguous += 1
        except Exception:
            pass
        count += 1
        cut = step is None and len(range(*sl.indices(n))) not in (0, n)
        rec.case(["enum", n, start, stop, step], cut, cls=f"enum/n{n}")
    rec.notes["enumerated_slices"] = rec.notes.get("enumerated_slices", 0) + count
    rec.notes["enumerated_nonempty_contiguous"] = rec.notes.get("enumerated_nonempty_contiguous", 0) + nonempty_contiguous


def np_int(rng, i, zero_d=False):
    """The integer as the numpy scalar that argmax / searchsorted / iteration over arange would hand over (numpy treats all
    of them, and a 0-d integer array, as that integer)."""
    r = rng.random()
    if r < 0.7:
        return i
    if zero_d and r < 0.78:
        return np.array(i)
    return rng.choice([np.int64, np.int32, np.intp, np.int16])(i)


def case_1d(ctx, index, rng: random.Random):
    rec = ctx.rec
    h = make_1d(rng)
    n = h.shape[0]
    kind = rng.choice(["int", "slice", "slice", "mask", "mask_bad", "array", "array_neg", "array_bad", "array_unsorted", "select"])
    if kind == "int":
        ix = np_int(rng, rng.randint(-n - 2, n + 1), zero_d=True)
        if not isinstance(ix, int):
            kind = "int_numpy"
    elif kind in ("slice", "select"):
        ix = slice(rng.choice([None] + list(range(-n - 1, n + 2))), rng.choice([None] + list(range(-n - 1, n + 2))), rng.choice([None, None, None, 1, 2, -1]))
    elif kind == "mask":
        ix = np.array([rng.random() < 0.6 for _ in range(n)], dtype=bool)
    elif kind == "mask_bad":
        ix = np.ones(n + rng.choice([-1, 1, 2]) if n > 1 else n + 1, dtype=bool)
    elif kind == "array":
        k = rng.randint(1, n)
        ix = np.array(sorted(rng.sample(range(n), k)))
    elif kind == "array_neg":
        k = rng.randint(1, n)
        pos = sorted(rng.sample(range(n), k))
        ix = np.array([p - n if rng.random() < 0.5 else p for p in pos])
        if np.any(np.diff(np.where(ix < 0, ix + n, ix)) <= 0):
            ix = np.array(pos)
    elif kind == "array_bad":
        # beyond the end, or below -n (also so far below that it is in range again after one wrap)
        ix = np.array(rng.choice([[0, n + rng.randint(0, 3)], [-n - 1], [n - 1, -n - rng.randint(1, n)], [-2 * n], [0, -n - 2]]))
    else:
        if n < 2:
            return
        a = rng.sample(range(n), min(n, rng.randint(2, 4)))
        if a == sorted(a):
            a = a[::-1]
        ix = np.array(a)
    r = None
    try:
        with warnings.catch_warnings():
            warnings.simplefilter("ignore")
            r = h.select(0, ix) if kind == "select" else h[ix]
        cross_check_result(rec, r, "h[...]", ix, source=h)
    except Exception:
        pass
    cut = False
    if isinstance(ix, slice) and ix.step is None:
        cut = len(range(*ix.indices(n))) not in (0, n)
    elif isinstance(ix, np.ndarray) and ix.dtype == bool and ix.shape == (n,):
        cut = 0 < ix.sum() < n
    elif isinstance(ix, np.ndarray) and kind in ("array", "array_neg"):
        cut = len(ix) < n
    rec.case(["1d", np.asarray(h.bins).ravel().tolist(), np.asarray(h.frequencies).tolist(), repr(ix)], bool(cut), cls=f"1d/{kind}",
             sample={"bins": np.asarray(h.bins).tolist()[:5], "frequencies": np.asarray(h.frequencies).tolist()[:8], "underflow": float(h.underflow), "overflow": float(h.overflow),
                     "index": repr(ix), "result": None if r is None or not hasattr(r, "frequencies") else np.asarray(r.frequencies).tolist()[:8]})


def case_nd(ctx, index, rng: random.Random):
    import physt

    rec = ctx.rec
    d = rng.choice([1, 2, 2, 2, 3, 3, 3, 4, 4])  # one axis: what the facade makes of data with a single column
    shape = [rng.randint(1, 5) for _ in range(d)]
    if d == 2 and shape[0] == shape[1]:
        shape[1] += 1
    pairs = [gen.pairs_from_edges(gen.edges(rng, k)) for k in shape]
    specs = [np.array(p) for p in pairs]
    if rng.random() < 0.3:
        # an axis described by a rule (exponential / fixed-width binning object): the bins of a selection are the source's own bins,
        # edge for edge - not the rule evaluated again from another starting point
        from physt import binnings

        j = rng.randrange(d)
        if rng.random() < 0.6:
            b_ = binnings.ExponentialBinning(log_min=rng.choice([0.0, -1.0, 0.3]), log_width=rng.choice([1 / 3, 0.1, 0.25, 1 / 7]), bin_count=max(2, shape[j] + 2))
        else:
            b_ = binnings.FixedWidthBinning(bin_width=rng.choice([0.1, 0.3, 1 / 3]), bin_count=max(2, shape[j] + 2), min=rng.choice([0.0, 0.7, -1.1]))
        shape[j] = b_.bin_count
        pairs[j] = np.asarray(b_.bins, dtype=float).tolist()
        specs[j] = b_
    n = rng.randint(0, 60)
    rows = np.array([gen.data_for_bins(rng, p, n) for p in pairs], dtype=float).T.reshape(n, d)
    w = np.asarray([rng.randint(1, 16) / 4 for _ in range(n)], dtype=float)
    names = [f"n{i}" for i in range(d)]
    h = physt.h(rows, specs, weights=w, axis_names=names)
    if rng.random() < 0.5:
        _ = h.edges  # cached edge arrays of the source
    kind = rng.choice(["tuple", "tuple", "tuple", "select", "single", "too_many", "bad"])

    def one_index(k, allow_bad=False):
        r = rng.random()
        if r < 0.5:
            lo, hi = (-k - 2, k + 1) if allow_bad else (-k, k - 1)
            return np_int(rng, rng.randint(lo, hi))
        a = rng.choice([None] + list(range(-k - 1, k + 2)))
        b = rng.choice([None] + list(range(-k - 1, k + 2)))
        return slice(a, b, rng.choice([None, None, None, -1 if allow_bad else None]))

    r = None
    if kind == "tuple":
        L = rng.randint(1, d)
        ix = tuple(one_index(shape[i]) for i in range(L))
    elif kind == "single":
        ix = one_index(shape[0])
    elif kind == "too_many":
        ix = tuple(one_index(shape[i % d]) for i in range(d + 1))
    elif kind == "bad":
        ix = tuple(one_index(shape[i], allow_bad=True) for i in range(rng.randint(1, d)))
    else:
        ax = rng.randrange(d)
        ix = (names[ax] if rng.random() < 0.5 else ax, one_index(shape[ax], allow_bad=rng.random() < 0.2))
    try:
        with warnings.catch_warnings():
            warnings.simplefilter("ignore")
            r = h.select(ix[0], ix[1]) if kind == "select" else h[ix]
        cross_check_result(rec, r, "h[...]", ix, source=h)
    except Exception:
        pass
    ints = [i for i in (ix if isinstance(ix, tuple) else (ix,)) if isinstance(i, (int, np.integer))]
    rec.case(["nd", shape, np.asarray(h.frequencies).ravel()[:60].tolist(), repr(ix)], d >= 3 and len(ints) >= 1 and kind in ("tuple", "select"),
             cls=f"{d}d/{kind}", sample={"shape": shape, "index": repr(ix), "result_shape": None if r is None or not hasattr(r, "shape") else list(r.shape)})


def case_history(ctx, index, rng: random.Random):
    """The same histogram is indexed, changed (adaptive growth to either side, in-place merge, scaling, dtype change, more
    fills) and indexed again: every selection must reflect the state at the time of the call (no stale cached views)."""
    import physt

    rec = ctx.rec
    d = rng.choice([1, 1, 2])
    w = rng.choice([0.5, 1.0, 2.5])
    adaptive = rng.random() < 0.7
    n = rng.randint(3, 20)
    if d == 1:
        data = np.array([rng.uniform(-4, 4) for _ in range(n)])
        h = physt.h1(data, "fixed_width", bin_width=w, adaptive=adaptive) if adaptive or rng.random() < 0.5 else physt.h1(data, rng.randint(2, 8))
    else:
        rows = np.array([[rng.uniform(-4, 4), rng.uniform(0, 6)] for _ in range(n)])
        h = physt.h(rows, "fixed_width", bin_width=[w, 1.0], adaptive=adaptive, axis_names=["a", "b"])
    log = []

    def index_once():
        k = h.shape[0]
        try:
            with warnings.catch_warnings():
                warnings.simplefilter("ignore")
                if d == 1:
                    r = rng.random()
                    if r < 0.5 and k >= 2:
                        a = rng.randint(0, k - 2)
                        ix = slice(a, rng.randint(a + 1, k))
                    elif r < 0.7:
                        ix = np.array([rng.random() < 0.6 for _ in range(k)], dtype=bool)
                        if not ix.any():
                            ix[0] = True
                    elif r < 0.85:
                        ix = np.array(sorted(rng.sample(range(k), rng.randint(1, k))))
                    else:
                        ix = rng.randint(-k, k - 1)
                    res = h[ix]
                else:
                    ix = (rng.randint(0, k - 1), slice(None)) if rng.random() < 0.5 else (slice(0, max(1, k - 1)), rng.randint(0, h.shape[1] - 1))
                    res = h[ix]
                cross_check_result(rec, res, "h[...] in a history", ix)
                log.append(f"index {ix!r}")
                # using the selection afterwards (also growing it) must never reach back into the source
                from ..world import is_hist

                if is_hist(res) and res is not h and rng.random() < 0.5:
                    with attach.quiet():
                        before = snap.snapshot(h)
                    try:
                        rb = [np.asarray(res.bins)] if res.ndim == 1 else [np.asarray(b) for b in res.bins]
                        if all(len(b) for b in rb):
                            far = [b[-1, 1] + 3.3 * w if res.is_adaptive() else (b[0, 0] + b[-1, 1]) / 2 for b in rb]
                            res.fill(far[0] if res.ndim == 1 else np.array(far))
                            log.append("fill selection")
                    except Exception:
                        pass
                    with attach.quiet():
                        dd = snap.diff(before, snap.snapshot(h))
                        probs = snap.wellformed_problems(h)
                        if dd or probs:
                            rec.fail(prop="C11", monitor="C11.index.post", op="use of a selection", symptom="filling a selection modified / corrupted the source histogram",
                                     diff=sorted(dd) or ["wellformed"], detail={"problems": probs, "log": log[-6:]})
        except Exception as e:
            log.append(f"index raised {type(e).__name__}")

    for step in range(rng.randint(3, 7)):
        index_once()
        op = rng.choice(["grow_left", "grow_right", "fill", "merge", "scale", "dtype", "read_edges"])
        try:
            with warnings.catch_warnings():
                warnings.simplefilter("ignore")
                if op in ("grow_left", "grow_right") and h.is_adaptive():
                    bins = [np.asarray(h.bins)] if d == 1 else [np.asarray(b) for b in h.bins]
                    v = [(b[0, 0] - rng.uniform(0.2, 4) * w) if op == "grow_left" else (b[-1, 1] + rng.uniform(0.2, 4) * w) for b in bins]
                    h.fill(v[0] if d == 1 else np.array(v))
                elif op == "fill":
                    bins = [np.asarray(h.bins)] if d == 1 else [np.asarray(b) for b in h.bins]
                    v = [rng.uniform(b[0, 0], b[-1, 1]) for b in bins]
                    h.fill(v[0] if d == 1 else np.array(v), rng.choice([1, 2.5]))
                elif op == "merge" and min(h.shape) >= 2:
                    h.merge_bins(2, inplace=True)
                elif op == "scale":
                    h *= 2
                elif op == "dtype":
                    h.set_dtype("float64")
                elif op == "read_edges":
                    _ = h.numpy_bins if d == 1 else h.edges
            log.append(op)
        except Exception as e:
            log.append(f"{op} raised {type(e).__name__}")
    index_once()
    rec.case(["history", d, adaptive, log], any(x.startswith("grow") for x in log) or "merge" in log, cls=f"history/{d}d/{'adaptive' if adaptive else 'fixed'}",
             sample={"log": log})


def run(ctx):
    attach_monitors()
    ctx.run_cases(ctx.scale(250, 2000), case_history, salt="history")
    ctx.run_cases(6, enumerate_slices, salt="enum")
    ctx.run_cases(ctx.scale(500, 4000), case_1d, salt="1d")
    ctx.run_cases(ctx.scale(500, 4000), case_nd, salt="nd")
