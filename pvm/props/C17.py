"""C17 - every supported input container gives the same histogram as its array."""
from __future__ import annotations

import math
import os
import random
import warnings

import numpy as np

from .. import attach, core, gen, model, snapshot as snap

DECIDING_MONITORS = ["C17.differential", "C17.conversion"]
PASSIVE_UNDER_TESTS = False
RULE = ("differential monitor: h1 / h2 / h called with list, tuple, iterator, multi-dimensional array, pandas Series / DataFrame (+ .physt "
        "accessors, weights as array / Series / column name), polars Series / DataFrame (+ .physt namespaces), dask arrays under random "
        "chunkings, against the same call on the equivalent numpy array - public snapshots must be equal (axis names from Series / column "
        "names unless given); NaN entries / rows are dropped with their weights; non-numeric, null-containing and wrongly shaped inputs "
        "must be refused; conversions: xarray round trip, to_series / to_dataframe, binning_to_index / index_to_binning (also gapped), "
        "Geant4 CSV files generated from known 1D / 2D (nx != ny, with under/overflow rows) histograms, with the moment-consistency oracle; "
        "non-trivial = data with >= 1 NaN and weights, or >= 2 dask chunks, or a gapped / asymmetric conversion; distinct by hash of (container, data, args) The pandas DataFrame accessor is also entered with a one-column selection, the dask facades with data-derived ('pretty') bins, and the Geant4 1D reader's statistics are compared with the file's moments.")
ASSUMPTIONS = ["row order of the Geant4 2D format (x index fastest) was established from the shipped sample's own per-bin moments",
               "dask chunk histograms are adaptive by construction: compared per bin interval with the adaptive histogram of the whole array"]

NUM_KEYS = ("bins", "frequencies", "errors2", "dtype", "underflow", "overflow", "inner_missed", "missed", "keep_missed")


def same_numeric(rec, ref, other, *, op, detail, names=None):
    with attach.quiet():
        s0, s1 = snap.snapshot(ref), snap.snapshot(other)
    d = [k for k in NUM_KEYS if k in s0 and s0[k] != s1.get(k)]
    if s0["class"] != s1["class"]:
        d.append("class")
    if names is not None and tuple(s1["axis_names"]) != tuple(names):
        d.append("axis_names")
    if d:
        rec.fail(monitor="C17.differential", op=op, symptom="container input gives a different histogram than the equivalent numpy array", diff=d,
                 detail={**detail, "array": _num(s0), "container": _num(s1), "axis_names": s1["axis_names"], "expected_names": names})
    return not d


def _num(s):
    return {k: (snap.arr_values(v).astype(float).ravel()[:10].tolist() if isinstance(v, tuple) and len(v) == 3 and isinstance(v[2], bytes) else v)
            for k, v in s.items() if k in ("frequencies", "errors2", "underflow", "overflow", "missed", "dtype")}


def case_1d(ctx, index, rng: random.Random):
    import pandas as pd
    import physt
    import polars as pl

    rec = ctx.rec
    rec.mon("C17.differential")
    pairs = gen.pairs_from_edges(gen.edges(rng, rng.randint(1, 8)))
    e = np.array([p[0] for p in pairs] + [pairs[-1][1]])
    n = rng.randint(1, 40)
    bins = rng.choice(["edges", "int", "fixed"])
    # data-derived fixed-width bins: keep the data inside a modest range (far values would force millions of bins)
    data = np.asarray(gen.data_for_bins(rng, pairs, n, nan_ok=rng.random() < 0.5, outside=(bins == "edges")), dtype=float)
    weighted = rng.random() < 0.5
    w = np.asarray([rng.randint(0, 16) / 4 for _ in range(n)], dtype=float) if weighted else None
    has_nan = bool(np.isnan(data).any())
    kw = {}
    if bins == "edges":
        barg = e
    elif bins == "int":
        barg = rng.choice([3, 5, 10])
        fin = data[~np.isnan(data)]
        if fin.size < 2 or fin.min() == fin.max():
            barg = e
    else:
        barg = "fixed_width"
        kw["bin_width"] = (pairs[-1][1] - pairs[0][0]) / rng.choice([2, 3, 7])
    if w is not None:
        kw["weights"] = w
    try:
        with warnings.catch_warnings():
            warnings.simplefilter("ignore")
            ref = physt.h1(data.copy(), barg, **kw)
    except Exception:
        rec.case(["ref-raised"], False, cls="1d/ref_raised")
        return
    container = rng.choice(["list", "tuple", "iter", "gen", "array2d", "array2d_layout", "pd_series", "pd_series_acc", "pd_df_acc", "pl_series", "pl_series_acc", "pl_df_acc", "int_array", "f32_array"])
    if container in ("int_array", "f32_array") and bins != "edges":
        container = "list"  # converted values with data-derived fixed-width bins could force millions of bins
    desc = {"container": container, "bins": bins, "data": gen.hexlist(data), "weights": None if w is None else w.tolist()}
    names = None
    kw2 = dict(kw)
    try:
        with warnings.catch_warnings():
            warnings.simplefilter("ignore")
            if container == "list":
                got = physt.h1(data.tolist(), barg, **kw2)
            elif container == "tuple":
                got = physt.h1(tuple(data.tolist()), barg, **kw2)
            elif container == "iter":
                got = physt.h1(iter(data.tolist()), barg, **kw2)
            elif container == "gen":
                got = physt.h1((x for x in data.tolist()), barg, **kw2)
            elif container == "array2d":
                m = n - n % 2
                if m < 2:
                    return
                k2 = dict(kw)
                if w is not None:
                    k2["weights"] = w[:m].reshape(2, -1)
                with attach.quiet():
                    kr = dict(kw)
                    if w is not None:
                        kr["weights"] = w[:m]
                    try:
                        ref = physt.h1(data[:m].copy(), barg, **kr)
                    except Exception:
                        return
                got = physt.h1(data[:m].reshape(2, -1), barg, **k2)
            elif container == "array2d_layout":
                # multi-dimensional input that is not C-contiguous (Fortran order / a transposed view): the flattened order of the
                # values is the logical (C) order, and weights of the same shape follow it, with dropna on or off
                m = n - n % 2
                if m < 4 or np.isnan(data[:m]).any():
                    return
                a2 = data[:m].reshape(2, -1)
                alt = np.asfortranarray(a2) if rng.random() < 0.5 else np.ascontiguousarray(a2.T).T
                k2 = dict(kw)
                if w is not None:
                    k2["weights"] = w[:m].reshape(2, -1) if rng.random() < 0.5 else np.asfortranarray(w[:m].reshape(2, -1))
                if rng.random() < 0.6:
                    k2["dropna"] = False
                with attach.quiet():
                    kr = dict(kw)
                    if w is not None:
                        kr["weights"] = w[:m]
                    try:
                        ref = physt.h1(data[:m].copy(), barg, **kr)
                    except Exception:
                        return
                got = physt.h1(alt, barg, **k2)
            elif container in ("int_array", "f32_array"):
                conv = np.round(np.nan_to_num(data, nan=0.0)).astype(np.int64) if container == "int_array" else data.astype(np.float32)
                with attach.quiet():
                    try:
                        ref = physt.h1(conv.astype(float), barg, **kw)
                    except Exception:
                        return
                got = physt.h1(conv, barg, **kw2)
            elif container.startswith("pd"):
                sname = rng.choice(["col", "x value", None])
                ser = pd.Series(data, name=sname)
                if w is not None and rng.random() < 0.5:
                    kw2["weights"] = pd.Series(w)
                if container == "pd_series":
                    got = physt.h1(ser, barg, **kw2)
                    names = (sname,) if sname else ("axis0",)
                elif container == "pd_series_acc":
                    got = ser.physt.h1(barg, **kw2)
                    names = (sname,) if sname else ("axis0",)
                else:
                    df = pd.DataFrame({"a": data, "wcol": w if w is not None else np.ones(n), "other": np.arange(n)})
                    if w is not None and rng.random() < 0.5:
                        kw2["weights"] = "wcol"
                    form_ = rng.randrange(4)
                    if form_ == 0 or isinstance(kw2.get("weights"), str):
                        got = df.physt.h1("a", barg, **kw2)
                    elif form_ == 1:
                        # the general accessor with a selection of one column (a list of one label, or a scalar label)
                        got = df.physt.histogram(["a"] if rng.random() < 0.6 else "a", bins=barg, **kw2)
                    elif form_ == 2:
                        got = df[["a"]].physt.histogram(bins=barg, **kw2)
                    else:
                        got = df[["a"]].physt.h1(bins=barg, **kw2)
                    names = ("a",)
                if rng.random() < 0.3:
                    names = None
            else:
                ser = pl.Series("pcol", data)
                if w is not None and rng.random() < 0.5:
                    kw2["weights"] = pl.Series("w", w)
                if container == "pl_series":
                    got = physt.h1(ser, barg, **kw2)
                elif container == "pl_series_acc":
                    got = ser.physt.h1(barg, **kw2)
                else:
                    df = pl.DataFrame({"pcol": data, "other": np.arange(n, dtype=float)})
                    got = df.physt.h("pcol", bins=barg, **kw2)
                names = ("pcol",)
    except Exception as ex:
        rec.fail(monitor="C17.differential", op=f"h1({container})", symptom=f"supported container refused: {type(ex).__name__}", diff=["raised"],
                 detail={**desc, "error": str(ex)[:200]})
        rec.case(desc, False, cls=f"1d/raised/{container}")
        return
    same_numeric(rec, ref, got, op=f"h1({container})", detail=desc, names=names)
    rec.case(desc, has_nan and weighted, cls=f"1d/{container}", sample={"container": container, "data": data[:8].tolist(), "weights": None if w is None else w[:8].tolist(),
                                                                          "frequencies": np.asarray(ref.frequencies).tolist()[:8]})


def case_nd(ctx, index, rng: random.Random):
    import pandas as pd
    import physt
    import polars as pl

    rec = ctx.rec
    rec.mon("C17.differential")
    d = rng.choice([2, 2, 3])
    axes = [gen.pairs_from_edges(gen.edges(rng, rng.randint(1, 4))) for _ in range(d)]
    edges = [np.array([p[0] for p in q] + [q[-1][1]]) for q in axes]
    n = rng.randint(1, 30)
    rows = np.array([gen.data_for_bins(rng, p, n) for p in axes], dtype=float).T.reshape(n, d)
    has_nan = rng.random() < 0.5
    if has_nan:
        for _ in range(rng.randint(1, 3)):
            rows[rng.randrange(n), rng.randrange(d)] = np.nan
    weighted = rng.random() < 0.6
    w = np.asarray([rng.randint(0, 16) / 4 for _ in range(n)], dtype=float) if weighted else None
    kw = {}
    if w is not None:
        kw["weights"] = w
    try:
        with warnings.catch_warnings():
            warnings.simplefilter("ignore")
            ref = physt.h(rows.copy(), [e.copy() for e in edges], **kw)
    except Exception:
        return
    cols = [f"c{i}" for i in range(d)]
    container = rng.choice(["rows_list", "pd_df", "pd_df_acc", "pl_df", "pl_df_acc", "h2_series_pd", "h2_series_pl", "h2_lists", "h3_cols", "h2_layouts", "pl_df_acc_reused", "pd_df_acc_reused"])
    desc = {"container": container, "d": d, "rows": gen.hexlist(rows.ravel()), "weights": None if w is None else w.tolist()}
    names = tuple(cols)
    bins = [e.copy() for e in edges]
    try:
        with warnings.catch_warnings():
            warnings.simplefilter("ignore")
            if container == "rows_list":
                got = physt.h(rows.tolist(), bins, **kw)
                names = None
            elif container == "pd_df":
                got = physt.h(pd.DataFrame(rows, columns=cols), bins, **kw)
            elif container == "pd_df_acc":
                df = pd.DataFrame(rows, columns=cols)
                df["extra"] = np.arange(n)
                if d == 2 and rng.random() < 0.5:
                    got = df.physt.h2(cols[0], cols[1], bins, **kw)
                else:
                    got = df.physt.histogram(cols, bins, **kw)
            elif container == "pl_df":
                got = physt.h(pl.DataFrame({c: rows[:, i] for i, c in enumerate(cols)}), bins, **kw)
            elif container == "pl_df_acc":
                df = pl.DataFrame({c: rows[:, i] for i, c in enumerate(cols)})
                got = df.physt.h(*cols, bins=bins, **kw)
            elif container in ("pl_df_acc_reused", "pd_df_acc_reused"):
                # the accessor object is cached on the frame: after the frame was changed in place (a cell, the column names) the
                # histogram is that of the values and names the frame holds now
                fin_rows = np.where(np.isnan(rows), 0.0, rows) if False else rows
                if container.startswith("pl"):
                    df = pl.DataFrame({c: rows[:, i] for i, c in enumerate(cols)})
                    with attach.quiet():
                        df.physt.h(bins=[b_.copy() for b_ in bins])  # first use of the accessor
                    r_, c_ = rng.randrange(n), rng.randrange(d)
                    newv = float(edges[c_][0] + (edges[c_][-1] - edges[c_][0]) * rng.choice([0.25, 0.5, 0.75]))
                    df[r_, cols[c_]] = newv
                    rows[r_, c_] = newv
                    cols = [f"n{i}" for i in range(d)]
                    df.columns = cols
                    got = df.physt.h(bins=bins, **kw)
                else:
                    df = pd.DataFrame(rows.copy(), columns=cols)
                    with attach.quiet():
                        df.physt.histogram(cols, [b_.copy() for b_ in bins])
                    r_, c_ = rng.randrange(n), rng.randrange(d)
                    newv = float(edges[c_][0] + (edges[c_][-1] - edges[c_][0]) * rng.choice([0.25, 0.5, 0.75]))
                    df.iloc[r_, c_] = newv
                    rows[r_, c_] = newv
                    cols = [f"n{i}" for i in range(d)]
                    df.columns = cols
                    got = df.physt.histogram(cols, bins, **kw)
                names = tuple(cols)
                with attach.quiet():
                    ref = physt.h(rows.copy(), [e.copy() for e in edges], **kw)
                desc["rows"] = gen.hexlist(rows.ravel())
            elif container in ("h2_series_pd", "h2_series_pl", "h2_lists"):
                if d != 2:
                    return
                if container == "h2_series_pd":
                    a, b = pd.Series(rows[:, 0], name=cols[0]), pd.Series(rows[:, 1], name=cols[1])
                elif container == "h2_series_pl":
                    a, b = pl.Series(cols[0], rows[:, 0]), pl.Series(cols[1], rows[:, 1])
                else:
                    a, b = rows[:, 0].tolist(), rows[:, 1].tolist()
                    names = None
                got = physt.h2(a, b, bins, **kw)
            elif container == "h2_layouts":
                # the two coordinate arrays are multi-dimensional with different memory layouts: pairs are formed in logical order
                m = n - n % 2
                if d != 2 or m < 4 or np.isnan(rows[:m]).any():
                    return
                with attach.quiet():
                    kr = dict(kw)
                    if w is not None:
                        kr["weights"] = w[:m]
                    ref = physt.h(rows[:m].copy(), [e.copy() for e in edges], **kr)
                a = np.asfortranarray(rows[:m, 0].reshape(2, -1))
                b = rows[:m, 1].reshape(2, -1).copy()
                k2 = dict(kw)
                if w is not None:
                    k2["weights"] = w[:m]
                got = physt.h2(a, b, bins, **k2)
                names = None
            else:
                if d != 3:
                    return
                got = physt.h3([rows[:, 0].copy(), rows[:, 1].copy(), rows[:, 2].copy()], bins, **kw)
                names = None
    except Exception as ex:
        rec.fail(monitor="C17.differential", op=f"h({container})", symptom=f"supported container refused: {type(ex).__name__}", diff=["raised"],
                 detail={**desc, "error": str(ex)[:200]})
        rec.case(desc, False, cls=f"nd/raised/{container}")
        return
    same_numeric(rec, ref, got, op=f"h({container})", detail=desc, names=names)
    rec.case(desc, has_nan and weighted, cls=f"nd/{container}", sample={"container": container, "rows": rows[:4].tolist(), "weights": None if w is None else w[:4].tolist(),
                                                                         "total": float(ref.total), "missed": float(ref.missed)})


def case_refusal(ctx, index, rng: random.Random):
    import pandas as pd
    import physt
    import polars as pl

    rec = ctx.rec
    rec.mon("C17.differential")
    kind = rng.choice(["pd_nonnumeric", "pl_nonnumeric", "pl_null", "df_to_h1", "series_to_h", "ragged", "scalar", "pl_df_to_h1", "weights_shape", "dim_mismatch", "dates_in_objects",
                       "pd_df_dim_mismatch", "pl_df_dim_mismatch", "h3_two_columns", "pd_df_nonnumeric", "pl_series_to_h", "weights_pl_df", "weights_pd_df",
                       "pl_weights_null", "pl_df_null", "pl_df_nonnumeric_selected", "list_of_numeric_strings", "array_of_strings", "datetime_array", "timedelta_list",
                       "nd_strings"])
    raised = False
    try:
        with warnings.catch_warnings():
            warnings.simplefilter("ignore")
            if kind == "pd_nonnumeric":
                physt.h1(pd.Series(["a", "b", "c"]), 2)
            elif kind == "pl_nonnumeric":
                physt.h1(pl.Series("s", ["a", "b", "c"]), 2)
            elif kind == "pl_null":
                physt.h1(pl.Series("s", [1.0, None, 3.0]), 2)
            elif kind == "df_to_h1":
                physt.h1(pd.DataFrame({"a": [1.0, 2.0], "b": [2.0, 3.0]}), 2)
            elif kind == "series_to_h":
                physt.h(pd.Series([1.0, 2.0, 3.0]), 2)
            elif kind == "ragged":
                physt.h([[1.0, 2.0], [3.0]], 2)
            elif kind == "scalar":
                physt.h1(3.5, 2)
            elif kind == "pl_df_to_h1":
                physt.h1(pl.DataFrame({"a": [1.0, 2.0], "b": [2.0, 3.0]}), 2)
            elif kind == "dates_in_objects":
                # dates / time spans are not numbers, whatever the container they arrive in (a list with a None in it becomes an object array)
                d_ = [np.datetime64("2020-01-01"), np.datetime64("2020-02-01"), np.datetime64("2020-03-05")]
                which_ = rng.randrange(4)
                if which_ == 0:
                    physt.h1(d_ + [None], 3)
                elif which_ == 1:
                    physt.h1(np.array(d_, dtype=object), 3)
                elif which_ == 2:
                    physt.h1(np.array([np.timedelta64(3, "D"), np.timedelta64(5, "D"), None], dtype=object), 2)
                else:
                    physt.h(np.array([[d_[0], 1.0], [d_[1], 2.0], [d_[2], 3.0]], dtype=object), 2)
            elif kind == "weights_shape":
                x6 = np.array([0.5, 1.5, 2.5, 3.5, 0.6, 1.6])
                which_ = rng.randrange(7)
                if which_ == 0:
                    physt.h1([1.0, 2.0, 3.0], np.array([0.0, 2.0, 4.0]), weights=[1.0, 2.0])
                elif which_ == 1:
                    # as many weights as values, in another shape: whose weight is whose is anybody's guess
                    physt.h1(x6, np.array([0.0, 2.0, 4.0]), weights=np.arange(6.0).reshape(2, 3))
                elif which_ == 2:
                    physt.h1(x6, np.array([0.0, 2.0, 4.0]), weights=np.arange(6.0).reshape(6, 1))
                elif which_ == 3:
                    physt.h1(x6.reshape(2, 3), np.array([0.0, 2.0, 4.0]), weights=np.arange(6.0).reshape(3, 2))
                elif which_ == 4:
                    physt.h1(pd.Series(x6), np.array([0.0, 2.0, 4.0]), weights=np.arange(6.0).reshape(1, 6))
                elif which_ == 5:
                    physt.h(np.stack([x6, x6], axis=1), [np.array([0.0, 2.0, 4.0])] * 2, weights=np.arange(6.0).reshape(6, 1))
                else:
                    physt.h2(x6, x6, [np.array([0.0, 2.0, 4.0])] * 2, weights=np.arange(6.0).reshape(3, 2))
            elif kind == "pd_df_dim_mismatch":
                physt.h(pd.DataFrame({"a": [1.0, 2.0, 3.0], "b": [2.0, 3.0, 5.0]}), 2, dim=3)
            elif kind == "pl_df_dim_mismatch":
                physt.h(pl.DataFrame({"a": [1.0, 2.0, 3.0], "b": [2.0, 3.0, 5.0]}), 2, dim=3)
            elif kind == "h3_two_columns":
                physt.h3(pd.DataFrame({"a": [1.0, 2.0, 3.0], "b": [2.0, 3.0, 5.0]}), 2)
            elif kind == "pd_df_nonnumeric":
                physt.h(pd.DataFrame({"a": [1.0, 2.0, 3.0], "b": ["x", "y", "z"]}), 2)
            elif kind == "list_of_numeric_strings":
                physt.h1(["1.5", "2.5", "3.5"], 2)
            elif kind == "array_of_strings":
                physt.h1(np.array(["1", "2", "4"]), np.array([0.0, 2.0, 5.0]))
            elif kind == "datetime_array":
                physt.h1(np.array(["2020-01-01", "2020-01-03", "2020-02-01"], dtype="datetime64[D]"), 2)
            elif kind == "timedelta_list":
                physt.h1([np.timedelta64(1, "s"), np.timedelta64(5, "s"), np.timedelta64(9, "s")], 2)
            elif kind == "nd_strings":
                physt.h([["1", "2"], ["3", "4"], ["5", "7"]], 2)
            elif kind == "pl_series_to_h":
                physt.h(pl.Series("s", [1.0, 2.0, 3.0]), 2)
            elif kind == "weights_pl_df":
                physt.h1([1.0, 2.0, 3.0], np.array([0.0, 2.0, 4.0]), weights=pl.DataFrame({"w": [1.0, 2.0, 3.0]}))
            elif kind == "weights_pd_df":
                physt.h1([1.0, 2.0, 3.0], np.array([0.0, 2.0, 4.0]), weights=pd.DataFrame({"w": [1.0, 2.0, 3.0], "v": [1.0, 2.0, 3.0]}))
            elif kind == "pl_weights_null":
                physt.h1([1.0, 2.0, 3.0], np.array([0.0, 2.0, 4.0]), weights=pl.Series("w", [1.0, None, 3.0]))
            elif kind == "pl_df_null":
                physt.h(pl.DataFrame({"a": [1.0, None, 3.0], "b": [2.0, 3.0, 5.0]}), 2)
            elif kind == "pl_df_nonnumeric_selected":
                pl.DataFrame({"a": [1.0, 2.0, 3.0], "b": ["x", "y", "z"]}).physt.h("a", "b", bins=2)
            else:
                physt.h(np.zeros((4, 3)), 2, dim=2)
    except Exception:
        raised = True
    if not raised:
        rec.fail(monitor="C17.differential", op=f"refusal/{kind}", symptom="non-numeric / null-containing / wrongly shaped input was not refused", diff=["not_refused"], detail={"kind": kind})
    rec.case(["refusal", kind], True, cls=f"refusal/{kind}")


def case_dask(ctx, index, rng: random.Random):
    try:
        import dask
        import dask.array as da
        from physt.compat import dask as pdask
    except Exception:
        ctx.rec.skip("C17.dask", "unavailable")
        return
    import physt

    rec = ctx.rec
    rec.mon("C17.differential")
    d = rng.choice([1, 1, 2, 2, 3])
    n = rng.randint(4, 80)
    wdt = [rng.choice([0.5, 1.0, 2.5]) for _ in range(d)]
    rows = np.array([[rng.choice([0.0, 20.0]) + wdt[ax] * (rng.randint(-15, 15) + rng.choice([0.0, 0.5, rng.random()])) for ax in range(d)] for _ in range(n)])
    chunks = rng.randint(1, max(1, n // 2))
    nan_mode = rng.random() < 0.25
    if nan_mode:
        k = rng.randrange(n)
        rows[k, rng.randrange(d)] = np.nan
    all_nan_chunk = False
    if nan_mode and rng.random() < 0.4 and chunks < n:
        rows[:chunks] = np.nan  # a chunk without a single finite value
        all_nan_chunk = True
    desc = {"d": d, "rows": gen.hexlist(rows.ravel()), "chunks": chunks, "widths": wdt}
    # any chunk without a single finite row? (was known finding D12, repaired: such chunks contribute an empty histogram; the
    # mechanism label only classifies the record should it ever come back)
    finite = ~np.isnan(rows).any(axis=1)
    starved = any(not finite[i:i + chunks].any() for i in range(0, n, chunks))
    mech = "adaptive.construct.no_finite_data" if starved else None
    # the bin specification: data-independent (a width), or derived from the data ("pretty": then from all of the data, not block by block)
    spec, spec_kw, spec_kw1 = "fixed_width", {"bin_width": list(wdt)}, {"bin_width": wdt[0]}
    if rng.random() < 0.25 and not starved and not all_nan_chunk:
        # many values, a good part of them NaN: the number of *valid* values decides the default number of "pretty" bins (the count
        # crosses a power of two when the NaN entries are dropped)
        n = rng.choice([66, 70, 130, 140, 260])
        rows = np.array([[wdt[ax] * rng.uniform(-15, 15) for ax in range(d)] for _ in range(n)])
        for k_ in rng.sample(range(n), n // 8 + rng.randint(0, 3)):
            rows[k_, rng.randrange(d)] = np.nan
        chunks = rng.randint(7, max(8, n // 3))
        finite = ~np.isnan(rows).any(axis=1)
        starved = any(not finite[i:i + chunks].any() for i in range(0, n, chunks))
        desc.update({"rows": gen.hexlist(rows.ravel())[:40], "chunks": chunks, "many_nan": int((~finite).sum())})
        spec = "pretty"
        spec_kw, spec_kw1 = {}, {}
        desc["spec"] = [spec, {}]
    elif rng.random() < 0.3 and not starved:
        spec = rng.choice(["pretty", "human"])
        opt = rng.randrange(3)
        spec_kw = {} if opt == 0 else ({"bin_count": rng.choice([5, 10, 20])} if opt == 1 else {"range": (-40.0, 60.0)})
        spec_kw1 = dict(spec_kw)
        desc["spec"] = [spec, {k: list(v) if isinstance(v, tuple) else v for k, v in spec_kw.items()}]
    try:
        with warnings.catch_warnings():
            warnings.simplefilter("ignore")
            with dask.config.set(scheduler="threads"):
                if d == 1 and n >= 6 and n % 2 == 0 and rng.random() < 0.25:
                    # the 1D facade takes arrays of more dimensions as well: a chunk grid with a remainder block on either axis
                    tbl = rows[:, 0].reshape(2, n // 2) if rng.random() < 0.5 else rows[:, 0].reshape(n // 2, 2)
                    ck = (1, max(1, tbl.shape[1] - 1)) if tbl.shape[0] == 2 else (max(1, tbl.shape[0] - 1), 1)
                    got = pdask.h1(da.from_array(tbl, chunks=ck), spec, **spec_kw1, dask_method=rng.choice(["threaded", None]))
                    desc["table"] = [list(tbl.shape), list(ck)]
                elif d == 1:
                    got = pdask.h1(da.from_array(rows[:, 0], chunks=chunks), spec, **spec_kw1, dask_method=rng.choice(["threaded", None]))
                else:
                    form = rng.choice(["dd", "dd", "h2", "columns"] if d == 2 else ["dd", "h3", "columns"])
                    desc["form"] = form
                    if form in ("h2", "columns"):
                        # coordinate arrays, each chunked in its own way; the row blocks are those of the stacked array
                        cols = [da.from_array(rows[:, ax].copy(), chunks=(chunks if ax == 0 else rng.randint(1, max(1, n // 2)))) for ax in range(d)]
                        bounds = np.cumsum((0,) + da.stack(cols, axis=1).chunks[0])
                        starved = any(not finite[a:b].any() for a, b in zip(bounds[:-1], bounds[1:]))
                        mech = "adaptive.construct.no_finite_data" if starved else None
                        if form == "h2":
                            got = pdask.h2(cols[0], cols[1], spec, **spec_kw)
                        else:
                            got = pdask.histogramdd(cols, spec, **spec_kw)
                    elif form == "h3":
                        got = pdask.h3(da.from_array(rows, chunks=(chunks, d)), spec, **spec_kw)
                    else:
                        got = pdask.histogramdd(da.from_array(rows, chunks=(chunks, d)), spec, **spec_kw, dask_method=rng.choice(["threaded", None]))
            if d == 1:
                ref = physt.h1(rows[:, 0].copy(), spec, adaptive=True, **spec_kw1)
            else:
                ref = physt.h(rows.copy(), spec, adaptive=True, **spec_kw)
    except Exception as ex:
        rec.fail(monitor="C17.differential", op="dask", symptom=f"dask array refused: {type(ex).__name__}", diff=["raised"], mechanism=mech, detail={**desc, "error": str(ex)[:200]})
        rec.case(desc, False, cls="dask/raised")
        return
    with attach.quiet():
        if tuple(got.axis_names) != tuple(ref.axis_names):
            rec.fail(monitor="C17.differential", op="dask", symptom="axis names of a dask histogram are not those of the histogram of the equivalent array", diff=["axis_names"],
                     detail={**desc, "got": [str(a_)[:30] for a_ in got.axis_names], "expected": list(ref.axis_names)})
        m0, m1 = snap.interval_map(snap.snapshot(ref)), snap.interval_map(snap.snapshot(got))
        if m0 != m1 or float(ref.total) != float(got.total):
            rec.fail(monitor="C17.differential", op="dask", symptom="dask (chunked) histogram differs from the histogram of the whole array", diff=["frequencies"],
                     detail={**desc, "total": [float(ref.total), float(got.total)]})
    rec.case(desc, chunks < n // 2 + 1 and n > 8, cls=f"dask/{d}d{'/nan' if nan_mode else ''}", sample={"n": n, "chunks": chunks, "total": float(got.total)})


def case_conversion(ctx, index, rng: random.Random):
    import pandas as pd
    import physt
    from physt import binnings
    from physt.compat import pandas as ppd

    rec = ctx.rec
    rec.mon("C17.conversion")
    kind = rng.choice(["xarray", "series", "dataframe", "index", "index_gapped", "index_bad", "geant1", "geant2", "geant2"])
    gapped = kind == "index_gapped" or (kind in ("series", "dataframe") and rng.random() < 0.3)
    if gapped and rng.random() < 0.4:
        pairs = gen.tiny_gapped_pairs(rng, rng.randint(2, 6))  # gaps far below numpy's allclose tolerance are gaps all the same
    else:
        pairs = gen.gapped_pairs(rng, rng.randint(2, 6)) if gapped else gen.pairs_from_edges(gen.edges(rng, rng.randint(1, 7)))
    n = rng.randint(0, 30)
    data = np.asarray(gen.data_for_bins(rng, pairs, n), dtype=float)
    w = np.asarray([rng.randint(1, 16) / 4 for _ in range(n)], dtype=float)
    desc = {"kind": kind, "bins": np.asarray(pairs).tolist()}
    try:
        with warnings.catch_warnings():
            warnings.simplefilter("ignore")
            if kind in ("xarray", "series", "dataframe", "index", "index_gapped"):
                h = physt.h1(data, np.array(pairs), weights=w, name=rng.choice([None, "nm"]))
            if kind == "xarray":
                import physt.compat.xarray  # noqa: F401
                from physt.histogram1d import Histogram1D

                ds = h.to_xarray()
                back = Histogram1D.from_xarray(ds)
                with attach.quiet():
                    s0, s1 = snap.snapshot(h), snap.snapshot(back)
                    dd = [k for k in ("bins", "frequencies", "errors2", "underflow", "overflow", "inner_missed", "keep_missed", "name") if s0[k] != s1.get(k)]
                    if dd:
                        rec.fail(monitor="C17.conversion", op="xarray round trip", symptom="xarray round trip does not preserve the histogram", diff=dd, detail={**desc, "before": _num(s0), "after": _num(s1)})
            elif kind in ("series", "dataframe"):
                obj = h.to_series() if kind == "series" else h.to_dataframe()
                with attach.quiet():
                    idx = obj.index
                    vals = obj.to_numpy() if kind == "series" else obj["frequency"].to_numpy()
                    bins = np.asarray(h.bins)
                    ok = (len(idx) == len(bins) and np.array_equal(np.asarray(idx.left), bins[:, 0]) and np.array_equal(np.asarray(idx.right), bins[:, 1])
                          and np.array_equal(np.asarray(vals, dtype=float), np.asarray(h.frequencies, dtype=float)) and idx.closed == "left")
                    if kind == "dataframe":
                        ok = ok and np.allclose(obj["error"].to_numpy() ** 2, np.asarray(h.errors2, dtype=float), rtol=1e-12)
                    if not ok:
                        rec.fail(monitor="C17.conversion", op=f"to_{kind}", symptom="pandas representation does not preserve bins / contents / errors", diff=["conversion"], detail=desc)
                    back = ppd.index_to_binning(idx)
                    if not np.array_equal(np.asarray(back.bins), bins):
                        rec.fail(monitor="C17.conversion", op="index_to_binning(to_series().index)", symptom="IntervalIndex -> binning does not reproduce the bins", diff=["bins"],
                                 detail={**desc, "got": np.asarray(back.bins).tolist()})
            elif kind in ("index", "index_gapped"):
                b = h.binning
                idx = ppd.binning_to_index(b, name="ix")
                back = ppd.index_to_binning(idx)
                with attach.quiet():
                    if not (np.array_equal(np.asarray(idx.left), np.asarray(b.bins)[:, 0]) and np.array_equal(np.asarray(idx.right), np.asarray(b.bins)[:, 1]) and idx.closed == "left"):
                        rec.fail(monitor="C17.conversion", op="binning_to_index", symptom="IntervalIndex does not carry the bins", diff=["bins"], detail=desc)
                    if not np.array_equal(np.asarray(back.bins), np.asarray(b.bins)):
                        rec.fail(monitor="C17.conversion", op="index_to_binning", symptom="binning -> IntervalIndex -> binning does not reproduce the bins (gaps lost?)", diff=["bins"],
                                 detail={**desc, "got": np.asarray(back.bins).tolist()})
            elif kind == "index_bad":
                which = rng.choice(["right_closed", "overlap", "not_index", "non_rising"])
                raised = False
                try:
                    if which == "right_closed":
                        ppd.index_to_binning(pd.IntervalIndex.from_breaks([0, 1, 2], closed="right"))
                    elif which == "overlap":
                        ppd.index_to_binning(pd.IntervalIndex.from_arrays([0, 0.5], [1, 1.5], closed="left"))
                    elif which == "not_index":
                        ppd.index_to_binning(pd.Index([1, 2, 3]))
                    else:
                        ppd.index_to_binning(pd.IntervalIndex.from_arrays([2, 0], [3, 1], closed="left"))
                except Exception:
                    raised = True
                if not raised:
                    rec.fail(monitor="C17.conversion", op=f"index_to_binning/{which}", symptom="invalid IntervalIndex was not refused", diff=["not_refused"], detail={"which": which})
            else:
                geant_case(rec, rng, kind, desc)
    except Exception as ex:
        rec.fail(monitor="C17.conversion", op=kind, symptom=f"conversion raised {type(ex).__name__}", diff=["raised"], detail={**desc, "error": str(ex)[:200]})
    rec.case([kind, np.asarray(pairs).tolist(), gen.hexlist(data)], gapped or kind.startswith("geant") or kind == "xarray", cls=f"conversion/{kind}{'/gapped' if gapped else ''}")


def geant_case(rec, rng, kind, desc):
    """Write a Geant4 CSV file for a known histogram (incl. under/overflow rows), read it back."""
    from physt.compat import geant4

    d = core.ROOT / ".work" / "geant_scratch"
    d.mkdir(parents=True, exist_ok=True)
    path = d / f"g_{os.getpid()}_{rng.randrange(10**9)}.csv"
    if kind == "geant1":
        nx = rng.randint(1, 8)
        xmin = rng.choice([0.0, -10.0, 5.0])
        xw = rng.choice([1.0, 0.5, 10.0])
        xmax = xmin + nx * xw
        freq = [rng.randint(0, 9) for _ in range(nx + 2)]  # with underflow / overflow rows
        lines = ["#class tools::histo::h1d", "#title generated one", "#dimension 1", f"#axis fixed {nx} {xmin:g} {xmax:g}", "#annotation axis_x.title", f"#bin_number {nx + 2}",
                 "entries,Sw,Sw2,Sxw0,Sx2w0"]
        for i, f in enumerate(freq):
            c = xmin + (i - 0.5) * xw
            lines.append(f"{f},{f},{f},{f * c:g},{f * c * c:g}")
        path.write_text("\n".join(lines) + "\n")
        try:
            h = geant4.load_csv(str(path))
        finally:
            path.unlink()
        with attach.quiet():
            bins = np.asarray(h.bins)
            ok = (h.shape == (nx,) and np.allclose(bins[0, 0], xmin) and np.allclose(bins[-1, 1], xmax) and np.array_equal(np.asarray(h.frequencies, dtype=float), np.array(freq[1:-1], dtype=float))
                  and float(h.underflow) == freq[0] and float(h.overflow) == freq[-1] and h.name == "generated one")
            if not ok:
                rec.fail(monitor="C17.conversion", op="geant4 1D", symptom="Geant4 1D CSV not read back as written (bins / contents / under-overflow)", diff=["conversion"],
                         detail={**desc, "written": freq, "read": np.asarray(h.frequencies).tolist(), "underflow": float(h.underflow), "overflow": float(h.overflow)})
            # the moments of the file belong to the weight of the file: a mean that is a number is the mean of the in-range rows
            inside = freq[1:-1]
            sw = float(sum(inside))
            mean = float(h.statistics.mean())
            if sw > 0:
                want = sum(f * (xmin + (i + 0.5) * xw) for i, f in enumerate(inside)) / sw
                if not (math.isnan(mean) or abs(mean - want) <= 1e-6 * (abs(want) + xw)):
                    rec.fail(monitor="C17.conversion", op="geant4 1D", symptom="statistics of a Geant4 1D CSV give a mean that is neither unknown nor the mean of the file's moments", diff=["statistics"],
                             detail={**desc, "mean": mean, "expected": want, "weight": float(h.statistics.weight), "Sw": sw})
        return
    nx, ny = rng.randint(1, 6), rng.randint(1, 6)
    if nx == ny:
        ny += rng.randint(1, 2)
    xmin, ymin = rng.choice([0.0, -10.0]), rng.choice([0.0, 100.0])
    xw, yw = rng.choice([1.0, 2.0]), rng.choice([0.5, 5.0])
    grid = np.array([[rng.randint(0, 9) for _ in range(ny + 2)] for _ in range(nx + 2)])  # [ix, iy] incl. under/overflow
    lines = ["#class tools::histo::h2d", "#title generated two", "#dimension 2", f"#axis fixed {nx} {xmin:g} {xmin + nx * xw:g}", f"#axis fixed {ny} {ymin:g} {ymin + ny * yw:g}",
             "#annotation axis_x.title", "#annotation axis_y.title", f"#bin_number {(nx + 2) * (ny + 2)}", "entries,Sw,Sw2,Sxw0,Sx2w0,Sxw1,Sx2w1"]
    for iy in range(ny + 2):  # x index runs fastest
        for ix in range(nx + 2):
            f = int(grid[ix, iy])
            cx, cy = xmin + (ix - 0.5) * xw, ymin + (iy - 0.5) * yw
            lines.append(f"{f},{f},{f},{f * cx:g},{f * cx * cx:g},{f * cy:g},{f * cy * cy:g}")
    path.write_text("\n".join(lines) + "\n")
    try:
        h = geant4.load_csv(str(path))
        raw = np.array([[float(v) for v in ln.split(",")] for ln in lines[9:]])
    finally:
        path.unlink()
    with attach.quiet():
        f = np.asarray(h.frequencies, dtype=float)
        want = grid[1:-1, 1:-1].astype(float)
        bx, by = np.asarray(h.bins[0]), np.asarray(h.bins[1])
        ok = h.shape == (nx, ny) and np.array_equal(f, want) and np.allclose(bx[0, 0], xmin) and np.allclose(by[0, 0], ymin) and np.allclose(bx[-1, 1], xmin + nx * xw)
        if not ok:
            rec.fail(monitor="C17.conversion", op="geant4 2D", symptom="Geant4 2D CSV not read back as written (x index runs fastest)", diff=["conversion"],
                     detail={**desc, "shape": [nx, ny], "written": want.tolist(), "read": f.tolist() if f.shape == want.shape else list(f.shape),
                             "transposed_match": bool(f.shape == want.T.shape and nx * ny > 1 and np.array_equal(f.reshape(-1), want.T.reshape(-1)))})
        # the border cells of the file are the weight outside the bins: it is the missed weight of the histogram
        want_missed = float(grid.sum() - grid[1:-1, 1:-1].sum())
        if h.shape == (nx, ny) and float(h.missed) != want_missed:
            rec.fail(monitor="C17.conversion", op="geant4 2D", symptom="the under / overflow cells of a Geant4 2D CSV are not kept as missed weight", diff=["missed"],
                     detail={**desc, "missed": float(h.missed), "expected": want_missed})
        # moment consistency: the mean coordinates of every filled cell lie inside the cell physt assigns to it
        if h.shape == (nx, ny):
            for ix in range(nx):
                for iy in range(ny):
                    if f[ix, iy] > 0:
                        rows = [r for r in raw if r[1] > 0 and bx[ix, 0] <= r[3] / r[1] <= bx[ix, 1] and by[iy, 0] <= r[5] / r[1] <= by[iy, 1]]
                        if not any(r[1] == f[ix, iy] for r in rows):
                            rec.fail(monitor="C17.conversion", op="geant4 2D", symptom="cell content is not the content of the file row whose moments lie in that cell", diff=["conversion"],
                                     detail={**desc, "cell": [ix, iy]})
                            return


def run(ctx):
    ctx.run_cases(ctx.scale(350, 2500), case_1d, salt="1d")
    ctx.run_cases(ctx.scale(300, 2500), case_nd, salt="nd")
    ctx.run_cases(ctx.scale(60, 300), case_refusal, salt="refusal")
    ctx.run_cases(ctx.scale(25, 200), case_dask, salt="dask")
    ctx.run_cases(ctx.scale(200, 1500), case_conversion, salt="conversion")
