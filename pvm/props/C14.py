"""C14 - statistics are those of the raw data entered, not of the bins."""
from __future__ import annotations

import math
import random
import warnings

import numpy as np

from .. import attach, core, gen, model, snapshot as snap
from ..attach import Call, Handler
from ..monitors import algebra

DECIDING_MONITORS = ["C14.ledger", "C14.add.stats", "C14.invalid"]
PASSIVE_UNDER_TESTS = True
RULE = ("a shadow ledger of (value, weight) pairs, all inside the bins, is entered into 1D histograms by construction, fill, fill_n over "
        "random chunkings, sums of partial histograms, copies, positive rescalings and refused additions (other bins) in random histories; after every step statistics "
        "(weight, sum, sum2, min, max; mean / variance / std; median after unweighted construction) are compared with math.fsum over the "
        "ledger (rel 1e-9); after subtraction, array arithmetic (free-arithmetics mode) and construction from bare frequencies every "
        "field must be NaN; empty histograms report weight 0 and NaN mean; non-trivial = ledger with >= 3 values, >= 2 entry paths and "
        ">= 1 addition or rescaling; distinct by hash of the history Plus `narrow_data_case`: values in compact element types (int16 / int32 / float16 / float32, big int64), all-equal values and values at a large offset through five entry routes; variance never negative, std never NaN.")
ASSUMPTIONS = [
    "values are generated inside the bins (the statement's precondition)",
    "float aggregates compared with relative tolerance 1e-9 scaled by the sum of absolute terms (soundness rule 3.7)",
]


def check_stats(rec: core.Recorder, h, values, weights, *, op: str, median=None, detail=None, rel=1e-9) -> bool:
    rec.mon("C14.ledger")
    st = h.statistics
    m = model.stats_model(values, weights)
    ok = True

    def fail(symptom, **extra):
        nonlocal ok
        ok = False
        rec.fail(prop="C14", monitor="C14.ledger", op=op, symptom=symptom, diff=["statistics"],
                 detail={**(detail or {}), "statistics": [float(getattr(st, f)) for f in ("sum", "sum2", "min", "max", "weight", "median")],
                         "model": {k: m[k] for k in ("sum", "sum2", "min", "max", "weight")}, **extra})

    if not model.close(float(st.weight), m["weight"], m["abs_weight"], rel):
        fail("statistics.weight is not the total weight entered")
    if not model.close(float(st.sum), m["sum"], m["abs_sum"], rel):
        fail("statistics.sum is not the weighted sum of the values entered")
    if not model.close(float(st.sum2), m["sum2"], m["abs_sum2"], rel):
        fail("statistics.sum2 is not the weighted sum of squares of the values entered")
    if len(values):
        if float(st.min) != m["min"] or float(st.max) != m["max"]:
            fail("statistics.min / max are not the extremes of the values entered")
    if m["weight"] > 0:
        mean = m["sum"] / m["weight"]
        var = m["sum2"] / m["weight"] - mean * mean
        scale = m["abs_sum2"] / m["weight"] + mean * mean
        if not model.close(float(st.mean()), mean, abs(mean) + math.sqrt(scale), 10 * rel):
            fail("mean() is not the weighted mean of the raw data", mean=mean, got=float(st.mean()))
        if not model.close(float(st.variance()), var, scale, 1e-7):
            fail("variance() is not the weighted population variance of the raw data", variance=var, got=float(st.variance()))
        sd = float(st.std())
        if weights is None or all(float(w_) >= 0 for w_ in weights):
            if not (float(st.variance()) >= 0) or math.isnan(sd):
                fail("variance() is negative / std() is NaN for data entered with non-negative weights", variance=float(st.variance()), std=sd)
        if var > 1e-6 * scale and not model.close(sd, math.sqrt(max(var, 0.0)), math.sqrt(scale), 1e-6):
            fail("std() is not the square root of the variance", std=math.sqrt(max(var, 0.0)), got=sd)
    elif len(values) == 0:
        if float(st.weight) != 0 or not math.isnan(float(st.mean())):
            fail("empty histogram must report weight 0 and NaN mean")
    if median is not None:
        got = float(st.median)
        if not (math.isnan(median) and math.isnan(got)) and got != median:
            fail("median is not the data median after unweighted construction", median=median, got=got)
    return ok


def all_invalid(h) -> bool:
    st = h.statistics
    return all(math.isnan(float(getattr(st, f))) for f in ("sum", "sum2", "min", "max", "weight"))


class H1StatsMonitor(Handler):
    """Passive: statistics of every h1 construction whose data lie inside the reported bins."""

    name = "C14.h1"

    def before(self, call: Call):
        args, kw = call.args, call.kwargs
        data = args[0] if args else kw.get("data")
        flat = model.to_flat_float(data)
        call.bag["c14"] = None
        if flat is None or flat.size == 0:
            return
        fin = flat[~np.isnan(flat)]
        if not kw.get("dropna", True) and fin.size != flat.size:
            return
        if fin.size and (np.any(np.isinf(fin)) or np.max(np.abs(fin)) > 1e100):
            return
        w = kw.get("weights")
        wf = None
        if w is not None:
            wf = model.to_flat_float(w)
            if wf is None or wf.shape != flat.shape or np.any(wf < 0) or not np.all(np.isfinite(wf)):
                return
            wf = wf[~np.isnan(flat)]
        call.bag["c14"] = (fin.copy(), wf)

    def after(self, call: Call):
        if call.exc is not None or call.bag.get("c14") is None:
            return
        h = call.result
        if not hasattr(h, "statistics") or not hasattr(h, "underflow"):
            return
        fin, wf = call.bag["c14"]
        bins = np.asarray(h.bins, dtype=float)
        if len(bins) == 0 or len(fin) == 0:
            return
        if fin.min() < bins[0, 0] or fin.max() > bins[-1, 1] or not np.array_equal(bins[1:, 0], bins[:-1, 1]):
            core.recorder().skip(self.name, "values_outside_bins")
            return
        med = float(np.median(fin)) if wf is None else None
        check_stats(core.recorder(), h, fin.tolist(), None if wf is None else wf.tolist(), op="h1(passive)", median=med)


def attach_monitors():
    from physt import _facade

    attach.wrap(_facade, "h1", H1StatsMonitor())
    algebra.attach_algebra_monitors(("add", "scale"))


class _Skip(Exception):
    pass


def one_history(ctx, index, rng: random.Random):
    import physt
    from physt.config import config

    rec = ctx.rec
    e = gen.edges(rng, rng.randint(1, 8))
    lo, hi = e[0], e[-1]
    adaptive = rng.random() < 0.25
    width = rng.choice([0.5, 1.0, 0.3])
    weighted = rng.random() < 0.5

    def values(n):
        out = []
        for _ in range(n):
            r = rng.random()
            if adaptive:
                out.append(rng.uniform(-20, 20))
            elif r < 0.2:
                out.append(float(rng.choice(e)))
            elif r < 0.3:
                x = rng.choice(e)
                y = float(np.nextafter(x, rng.choice([-np.inf, np.inf])))
                out.append(min(max(y, lo), hi))
            else:
                out.append(rng.uniform(lo, hi))
        return out

    def wts(n):
        if not weighted:
            return None
        return [rng.choice([rng.randint(0, 16) / 4, rng.uniform(0, 3)]) for _ in range(n)]

    def build(v, w):
        kw = {}
        if w is not None:
            kw["weights"] = np.asarray(w, dtype=float)
        if adaptive:
            if not v:
                return physt.h1(None, "fixed_width", bin_width=width, adaptive=True)
            return physt.h1(np.asarray(v), "fixed_width", bin_width=width, adaptive=True, **kw)
        return physt.h1(np.asarray(v, dtype=float), np.array(e), **kw)

    log = []
    paths = set()
    n0 = rng.choice([0, 1, 3, 10, 30])
    lv, lw = values(n0), wts(n0)
    try:
        h = build(lv, lw)
    except Exception as ex:
        rec.mon("C14.ledger")
        rec.fail(monitor="C14.ledger", op="construct", symptom=f"construction refused valid in-range data: {type(ex).__name__}", diff=["raised"], detail={"error": str(ex)[:160]})
        return
    paths.add("construct")
    log.append(f"construct n={n0} weighted={weighted}")
    lw_full = list(lw) if lw is not None else [1.0] * n0
    med = float(np.median(lv)) if (lw is None and lv) else None
    with attach.quiet():
        check_stats(rec, h, lv, lw_full, op="construct", median=med, detail={"log": log})
    combos = 0
    for _ in range(rng.randint(2, 8 if ctx.quick else 16)):
        op = rng.choice(["fill", "fill", "fill_n", "fill_n", "add", "iadd", "scale", "copy", "sum3", "refused_iadd"])
        try:
            with warnings.catch_warnings():
                warnings.simplefilter("ignore")
                if op == "fill":
                    v = values(1)[0]
                    w = None if not weighted else rng.randint(1, 12) / 4
                    if rng.random() < 0.2 and not adaptive:
                        # the value / weight arrive as narrow numpy scalars (an element of an int16 / uint8 / float32 array): their
                        # products and squares are numbers, not elements of that type
                        iv = [x for x in range(int(math.ceil(lo)), int(math.floor(hi)) + 1) if 0 <= x <= 250]
                        if iv:
                            v = float(rng.choice(iv))
                            v_arg = rng.choice([np.uint8, np.int16, np.float32, np.float16])(v)
                            w_arg = None if w is None else rng.choice([np.float32, np.float16])(w)
                            h.fill(v_arg) if w_arg is None else h.fill(v_arg, w_arg)
                            lv.append(v)
                            lw_full.append(1.0 if w is None else w)
                            paths.add("fill")
                            log.append(op + ":narrow")
                            with attach.quiet():
                                check_stats(rec, h, lv, lw_full, op="fill(narrow scalar)", detail={"log": log[-10:], "value_type": type(v_arg).__name__})
                            continue
                    h.fill(v) if w is None else h.fill(v, w)
                    lv.append(v)
                    lw_full.append(1.0 if w is None else w)
                    paths.add("fill")
                elif op == "fill_n":
                    n = rng.randint(0, 8)
                    v, w = values(n), wts(n)
                    h.fill_n(np.asarray(v, dtype=float), None if w is None else np.asarray(w, dtype=float))
                    lv += v
                    lw_full += [1.0] * n if w is None else w
                    paths.add("fill_n")
                elif op in ("add", "iadd", "sum3"):
                    k = 2 if op == "sum3" else 1
                    others = []
                    for _i in range(k):
                        n = rng.randint(0, 8)
                        v, w = values(n), wts(n)
                        others.append(build(v, w))
                        lv += v
                        lw_full += [1.0] * n if w is None else w
                    if op == "add":
                        h = h + others[0] if rng.random() < 0.5 else others[0] + h
                    elif op == "iadd":
                        h += others[0]
                    else:
                        h = sum([h] + others)
                    combos += 1
                    paths.add("add")
                elif op == "refused_iadd":
                    # an addition that is refused (other bins) leaves the statistics what they were
                    oe = np.array(list(e) + [e[-1] + 1.0, e[-1] + 2.5])
                    g = physt.h1(np.asarray([rng.uniform(lo, hi + 2.5) for _ in range(rng.randint(1, 6))]), oe)
                    try:
                        if rng.random() < 0.7:
                            h += g
                        else:
                            _ = h + g
                        accepted = True
                    except Exception:
                        accepted = False
                    if accepted:
                        rec.case(["refused_iadd accepted", adaptive], False, cls="accepted_other_bins")
                        return
                    paths.add("refused")
                elif op == "scale":
                    c = rng.choice([2, 0.5, 3.0, 0.25, np.float64(1.5), 10, np.int64(2), np.float32(0.5), np.int32(3), np.float32(4.0)])
                    how = rng.randrange(4)
                    if how == 0:
                        h = h * c
                    elif how == 1:
                        h = c * h
                    elif how == 2:
                        h = h / c
                        c = 1 / c
                    else:
                        h *= c
                    lw_full = [w * float(c) for w in lw_full]
                    combos += 1
                    paths.add("scale")
                else:
                    h = h.copy()
                    paths.add("copy")
        except Exception as ex:
            rec.mon("C14.ledger")
            rec.fail(monitor="C14.ledger", op=op, symptom=f"valid operation refused: {type(ex).__name__}", diff=["raised"], detail={"error": str(ex)[:160], "log": log})
            return
        log.append(op)
        with attach.quiet():
            check_stats(rec, h, lv, lw_full, op=op, detail={"log": log[-10:]})
            if op != "copy" and not math.isnan(float(h.statistics.median)) and len(lv) != n0:
                rec.fail(monitor="C14.ledger", op=op, symptom="median kept although the data changed", diff=["statistics"], detail={"log": log[-10:]})
    # operations that cannot maintain the statistics: everything reads as invalid
    rec.mon("C14.invalid")
    with warnings.catch_warnings():
        warnings.simplefilter("ignore")
        kind = rng.choice(["sub", "isub", "free_add_array", "free_mul_array", "bare", "free_sub_hist", "add_bare", "bare_add", "normalize_bins"])
        try:
            if kind == "sub":
                r = h - h * 0.5
            elif kind == "isub":
                r = h.copy()
                r -= h * 0.25
            elif kind == "bare":
                from physt.histogram1d import Histogram1D

                r = Histogram1D(np.array(h.bins), np.asarray(h.frequencies).copy())
            elif kind in ("add_bare", "bare_add"):
                # valid statistics + a histogram that has none (built from bare contents): nothing stays behind as a number
                from physt.histogram1d import Histogram1D

                bare = Histogram1D(h.binning.copy(), np.asarray(h.frequencies).copy())
                r = (h + bare) if kind == "add_bare" else (bare + h)
            elif kind == "normalize_bins":
                # the members of a collection divided bin by bin (array arithmetic)
                from physt.histogram_collection import HistogramCollection

                if adaptive or h.total == 0:
                    raise _Skip()
                col = HistogramCollection(h.copy(), h.copy() * 2)
                r = col.normalize_bins().histograms[0]
            else:
                with config.enable_free_arithmetics():
                    if kind == "free_add_array":
                        r = h + np.ones(h.shape)
                    elif kind == "free_mul_array":
                        r = h * np.full(h.shape, 2.0)
                    else:
                        r = h - h * 0.5
            with attach.quiet():
                if not all_invalid(r):
                    st = r.statistics
                    rec.fail(monitor="C14.invalid", op=kind, symptom="statistics read as numbers after an operation that cannot maintain them (must be NaN)",
                             diff=["statistics"], detail={"statistics": [float(getattr(st, f)) for f in ("sum", "sum2", "min", "max", "weight")], "log": log[-6:]})
        except _Skip:
            pass
        except Exception as ex:
            if kind not in ("sub", "isub"):
                rec.fail(monitor="C14.invalid", op=kind, symptom=f"operation raised {type(ex).__name__}", diff=["raised"], detail={"error": str(ex)[:160]})
    rec.case([gen.hexlist(lv), lw_full[:50], log], len(lv) >= 3 and len(paths) >= 2 and combos >= 1,
             cls=f"{'adaptive' if adaptive else 'static'}/{'w' if weighted else 'u'}", sample={"log": log[:12], "n": len(lv), "values": lv[:8], "weights": lw_full[:8],
                                                                                               "statistics": [float(getattr(h.statistics, f)) for f in ("sum", "sum2", "min", "max", "weight")]})


def collection_case(ctx, index, rng: random.Random):
    """Collections: create(name, values) fills a member from raw values, sum() adds the members (an empty collection sums to an
    empty histogram: weight 0, then usable as an accumulator)."""
    import physt
    from physt.histogram_collection import HistogramCollection

    rec = ctx.rec
    e = gen.edges(rng, rng.randint(1, 6))
    lo, hi = e[0], e[-1]
    binning = physt.h1([lo], np.array(e)).binning.copy()
    log = []
    try:
        with warnings.catch_warnings():
            warnings.simplefilter("ignore")
            col = HistogramCollection(binning=binning)
            k = rng.choice([0, 0, 1, 2, 3])
            lv, lw = [], []
            for i in range(k):
                v = [rng.uniform(lo, hi) for _ in range(rng.randint(0, 8))]
                col.create(f"m{i}", np.asarray(v, dtype=float))
                with attach.quiet():
                    check_stats(rec, col.histograms[-1], v, [1.0] * len(v), op="collection.create", detail={"member": i})
                lv += v
                lw += [1.0] * len(v)
            log.append(f"collection of {k}")
            tot = col.sum()
            with attach.quiet():
                check_stats(rec, tot, lv, lw, op=f"collection.sum({k} members)", detail={"log": log})
                if k == 0 and not (float(tot.statistics.weight) == 0 and math.isnan(float(tot.statistics.mean()))):
                    rec.fail(monitor="C14.ledger", op="collection.sum(0 members)", symptom="the empty sum does not report weight 0 and NaN mean", diff=["statistics"],
                             detail={"weight": float(tot.statistics.weight)})
            # the sum goes on as an accumulator
            v = [rng.uniform(lo, hi) for _ in range(rng.randint(1, 6))]
            if rng.random() < 0.5:
                tot.fill_n(np.asarray(v))
            else:
                for x in v:
                    tot.fill(x)
            lv += v
            lw += [1.0] * len(v)
            with attach.quiet():
                check_stats(rec, tot, lv, lw, op="fill after collection.sum", detail={"log": log})
    except Exception as ex:
        rec.mon("C14.ledger")
        rec.fail(monitor="C14.ledger", op="collection", symptom=f"collection history raised {type(ex).__name__}", diff=["raised"], detail={"error": str(ex)[:160]})
        return
    rec.case(["collection", k, gen.hexlist(lv)], len(lv) >= 3, cls=f"collection/{k}")


def narrow_data_case(ctx, index, rng: random.Random):
    """Values handed over in a compact element type (int16 / int32 counts, float32 / float16 read-outs) or all equal: the recorded sums
    are those of the numbers (not of their squares taken modulo the integer type), the variance is never negative and std() never NaN."""
    import physt
    from physt.binnings import NumpyBinning
    from physt.histogram1d import Histogram1D

    rec = ctx.rec
    kind = rng.choice(["int16", "int32", "int64_big", "float32", "float16", "constant", "constant", "offset"])
    if kind == "constant":
        v = rng.choice([0.1, 0.3, 0.7, 1.0 / 3, 2.2, 1e-3])
        n = rng.randint(1, 12)
        data = np.full(n, v)
        edges = np.array([0.0, 1.0, 2.0, 3.0])
    elif kind == "offset":
        base = rng.choice([1e6, 1.7e9, 1e8])
        n = rng.randint(2, 40)
        data = base + np.asarray([rng.randint(-8, 8) / 8 for _ in range(n)])
        edges = np.array([base - 2, base, base + 2])
    else:
        dt = {"int64_big": "int64"}.get(kind, kind)
        pool = {"int16": [100, 200, 300, 181, 182], "int32": [100, 200, 60000, 70000, 46341], "int64_big": [1, 4_000_000_000, 4_000_000_001, 3_037_000_500],
                "float32": [100.0, 200.0, 60000.0, 70000.0, 0.1], "float16": [100.0, 200.0, 30000.0, 0.5]}[kind]
        n = rng.randint(1, 10)
        data = np.asarray([rng.choice(pool) for _ in range(n)], dtype=dt)
        edges = np.array([0.0, 1000.0, 1e5, 1e10])
    how = rng.choice(["h1", "from_calculate_frequencies", "fill_n", "fill", "sum"])
    desc = {"kind": kind, "how": how, "data": np.asarray(data, dtype=float).tolist()[:10], "dtype": str(data.dtype)}
    try:
        with warnings.catch_warnings():
            warnings.simplefilter("ignore")
            if how == "h1":
                h = physt.h1(data, edges)
            elif how == "from_calculate_frequencies":
                h = Histogram1D.from_calculate_frequencies(data, NumpyBinning(edges))
            elif how == "fill_n":
                h = physt.h1(None, edges)
                h.fill_n(data)
            elif how == "fill":
                h = physt.h1(None, edges)
                for x in data:
                    h.fill(x)
            else:
                k = len(data) // 2
                h = physt.h1(data[:k], edges) + Histogram1D.from_calculate_frequencies(data[k:], NumpyBinning(edges))
    except Exception as ex:
        rec.mon("C14.ledger")
        rec.fail(monitor="C14.ledger", op=how, symptom=f"entering in-range values raised {type(ex).__name__}", diff=["raised"], detail={**desc, "error": str(ex)[:140]})
        return
    with attach.quiet():
        vals = [float(x) for x in data]
        check_stats(rec, h, vals, None, op=f"narrow_data/{how}", detail=desc, rel=1e-3 if kind == "float16" else (1e-6 if kind == "float32" else 1e-9))
    rec.case(["narrow_data", kind, how, desc["data"]], len(data) > 1, cls=f"narrow_data/{kind}/{how}")


def setter_case(ctx, index, rng: random.Random):
    """Bin contents assigned through the public setter (h.frequencies = ..., which is also where h.frequencies *= 2 ends): the recorded
    statistics belong to other contents now and read as invalid - also after the histogram is added to another one."""
    import physt

    rec = ctx.rec
    rec.mon("C14.invalid")
    e = np.array([0.0, 1.0, 2.0, 3.0])
    h = physt.h1(np.asarray([rng.uniform(0, 3) for _ in range(rng.randint(1, 8))]), e)
    how = rng.choice(["assign", "augmented", "masked"])
    try:
        with warnings.catch_warnings():
            warnings.simplefilter("ignore")
            if how == "assign":
                h.frequencies = [10, 20, rng.randint(0, 5)]
            elif how == "augmented":
                h.frequencies *= 2
            else:
                h.frequencies = np.asarray(h.frequencies) * np.array([1, 0, 1])
            g = h + physt.h1([0.25], e) if rng.random() < 0.5 else h
    except Exception as ex:
        rec.fail(monitor="C14.invalid", op=f"frequencies setter/{how}", symptom=f"assigning bin contents raised {type(ex).__name__}", diff=["raised"], detail={"error": str(ex)[:140]})
        return
    with attach.quiet():
        if not all_invalid(g):
            st = g.statistics
            rec.fail(monitor="C14.invalid", op=f"frequencies setter/{how}", symptom="statistics still read as numbers after the bin contents were assigned (they describe other contents)", diff=["statistics"],
                     detail={"total": float(g.total), "weight": float(st.weight), "mean": float(st.mean()) if float(st.weight) == float(st.weight) and float(st.weight) else None})
    rec.case(["setter", how, np.asarray(h.frequencies).tolist()], True, cls=f"setter/{how}")


def run(ctx):
    ctx.run_cases(ctx.scale(120, 800), narrow_data_case, salt="narrowdata")
    ctx.run_cases(ctx.scale(40, 200), setter_case, salt="setter")
    attach_monitors()
    ctx.run_cases(ctx.scale(60, 400), collection_case, salt="collection")
    ctx.run_cases(ctx.scale(500, 4000), one_history, salt="ledger")
    from . import C05

    ctx.run_cases(ctx.scale(120, 1000), C05.case_adaptive, salt="adaptive")
