"""C16 - densities, bin geometry and cumulative values are consistent."""
from __future__ import annotations

import math
import random
import warnings

import numpy as np

from .. import attach, gen, snapshot as snap

DECIDING_MONITORS = ["C16.geometry"]
PASSIVE_UNDER_TESTS = False
RULE = ("histograms of every class (Histogram1D incl. gapped, Histogram2D / ND, Polar, Radial, Azimuthal, Spherical, SphericalSurface, "
        "Cylindrical, CylindricalSurface) built over irregular bins (partial and full angular ranges) with arbitrary int16..float64 contents; "
        "checked: bin_sizes against the closed formulas of the statement evaluated with the math module, densities * bin_sizes == frequencies, "
        "measures additive under merge_bins (every amount / axis), sums equal to total_width / total_size and to the measure of the covered "
        "region (pi R^2, 4 pi, 4/3 pi R^3, pi R^2 dz, 2 pi dz for full angular ranges), left / right edges, centres, widths and their ND per-axis and "
        "mesh forms consistent with bins, cumulative_frequencies = running sum ending at total; the same self-description re-inspected on a projection / selection (or its source) after the other one grew; non-trivial = >= 2 bins on >= 1 axis with "
        "unequal widths and non-zero contents; distinct by hash of (class, bins, contents) Edges are also given as integers (python ints, int32, int16) of a magnitude whose sums / squares leave the integer type.")
ASSUMPTIONS = ["measures compared with relative tolerance 1e-12 (1e-9 for sums of many bins)"]

CLASSES = ["h1", "h1_gapped", "h2", "hnd", "polar", "radial", "azimuthal", "spherical", "spherical_surface", "cylindrical", "cylindrical_surface"]


def _edges(rng, lo, hi, n, full=False):
    if n == 1:
        return [lo, hi]
    cuts = sorted(rng.uniform(lo, hi) for _ in range(n - 1))
    e = [lo] + cuts + [hi]
    for i in range(1, len(e)):
        if not e[i] > e[i - 1]:
            e[i] = e[i - 1] + (hi - lo) * 1e-3
    return e


def _sq(r1, r2):
    return (r2 - r1) * (r2 + r1)  # r2**2 - r1**2 without cancellation (a thin ring far out)


def _cube(r1, r2):
    return (r2 - r1) * (r2 * r2 + r1 * r2 + r1 * r1)


def _cosd(t1, t2):
    return 2.0 * math.sin((t1 + t2) / 2) * math.sin((t2 - t1) / 2)  # cos t1 - cos t2 (a narrow cap at a pole)


def measure(kind, cell):
    """Closed formulas of the statement, cell = list of (left, right) per axis (evaluated in forms that do not lose the
    measure of a thin bin to cancellation)."""
    if kind in ("h1", "h1_gapped"):
        (a, b), = cell
        return b - a
    if kind in ("h2", "hnd"):
        return math.prod(b - a for a, b in cell)
    if kind == "polar":
        (r1, r2), (p1, p2) = cell
        return _sq(r1, r2) / 2 * (p2 - p1)
    if kind == "radial":
        (r1, r2), = cell
        return math.pi * _sq(r1, r2)
    if kind == "azimuthal":
        (p1, p2), = cell
        return p2 - p1
    if kind == "spherical":
        (r1, r2), (t1, t2), (p1, p2) = cell
        return _cube(r1, r2) / 3 * _cosd(t1, t2) * (p2 - p1)
    if kind == "spherical_surface":
        (t1, t2), (p1, p2) = cell
        return _cosd(t1, t2) * (p2 - p1)
    if kind == "cylindrical":
        (r1, r2), (p1, p2), (z1, z2) = cell
        return _sq(r1, r2) / 2 * (p2 - p1) * (z2 - z1)
    if kind == "cylindrical_surface":
        (p1, p2), (z1, z2) = cell
        return (p2 - p1) * (z2 - z1)
    raise ValueError(kind)


def build(rng: random.Random, kind: str):
    from physt import special_histograms as sp
    from physt.histogram1d import Histogram1D
    from physt.histogram_nd import Histogram2D, HistogramND

    full = rng.random() < 0.5
    R = rng.choice([1.0, 2.5, 0.3, 10.0])
    nb = lambda: rng.randint(1, 5)
    phi = lambda: _edges(rng, 0.0, 2 * math.pi, nb()) if full else _edges(rng, rng.uniform(0, 1), rng.uniform(2, 6), nb())
    theta = lambda: _edges(rng, 0.0, math.pi, nb()) if full else _edges(rng, rng.uniform(0, 0.5), rng.uniform(1, 3), nb())
    rad = lambda: _edges(rng, 0.0 if full else rng.choice([0.0, 0.2 * R]), R, nb())
    zed = lambda: _edges(rng, -rng.uniform(0.5, 3), rng.uniform(0.5, 3), nb())
    gapped = False
    if kind == "h1":
        axes = [gen.irregular_edges(rng, rng.randint(1, 8))]
        if rng.random() < 0.2:
            # widths that agree to five or six digits without being equal (decimal edges cut short, a leap second among days):
            # "regular" within the library's tolerance, yet their sum is their sum
            nb_ = rng.randint(2, 7)
            w_ = rng.choice([0.333333, 86400.0, 1.0])
            steps_ = [w_] * nb_
            steps_[rng.randrange(nb_)] = w_ * (1 + rng.choice([3e-6, -3e-6, 1.2e-5 / 1.0]))
            start_ = rng.choice([0.0, 1.0e9])
            axes = [[start_ + sum(steps_[:i]) for i in range(nb_ + 1)]]
        cls = Histogram1D
    elif kind == "h1_gapped":
        pairs = gen.gapped_pairs(rng, rng.randint(2, 6))
        axes = [pairs]
        gapped = True
        cls = Histogram1D
    elif kind == "h2":
        axes = [gen.irregular_edges(rng, nb()), gen.irregular_edges(rng, nb())]
        cls = Histogram2D
    elif kind == "hnd":
        axes = [gen.irregular_edges(rng, rng.randint(1, 3)) for _ in range(rng.choice([3, 4]))]
        cls = HistogramND
    elif kind == "polar":
        axes = [rad(), phi()]
        cls = sp.PolarHistogram
    elif kind == "radial":
        axes = [rad()]
        cls = sp.RadialHistogram
    elif kind == "azimuthal":
        axes = [phi()]
        cls = sp.AzimuthalHistogram
    elif kind == "spherical":
        axes = [rad(), theta(), phi()]
        cls = sp.SphericalHistogram
    elif kind == "spherical_surface":
        axes = [theta(), phi()]
        cls = sp.SphericalSurfaceHistogram
    elif kind == "cylindrical":
        axes = [rad(), phi(), zed()]
        cls = sp.CylindricalHistogram
    else:
        axes = [phi(), zed()]
        cls = sp.CylindricalSurfaceHistogram
    if kind in ("spherical", "spherical_surface", "radial", "polar", "cylindrical") and rng.random() < 0.15:
        # thin bins where the closed formulas subtract nearly equal numbers: a cap of 1e-8 rad at a pole, a 1 mm shell at the earth's radius
        if kind in ("spherical", "spherical_surface") and rng.random() < 0.6:
            ti = 1 if kind == "spherical" else 0
            axes[ti] = rng.choice([[0.0, 1e-8, 1e-6, 0.5], [0.3, math.pi - 1e-6, math.pi], [0.0, 1e-7, 1.0, math.pi]])
            if axes[ti][0] != 0.0 or axes[ti][-1] != math.pi:
                full = False
        elif kind != "spherical_surface":
            axes[0] = [6371000.0, 6371000.001, 6371000.0025, 6371001.0]
            full = False
    bins = [np.array(a) if gapped else np.array(a, dtype=float) for a in axes]
    if not gapped and kind in ("h1", "h2", "hnd", "radial", "polar", "spherical", "cylindrical") and rng.random() < 0.15:
        # edges given as integers (a python list of ints, time stamps in an int32 array, ADC counts in int16): the bins are the same intervals
        # as with float edges, and every centre / width / measure is the real number, not one reduced modulo the integer type
        which = [0] if kind in ("radial", "polar", "spherical") else ([0, 2] if kind == "cylindrical" else list(range(len(bins))))
        for ax in which:
            n_ = len(bins[ax]) - 1
            it = rng.choice(["int64", "int32", "int16"])
            if it == "int64":
                step, start = rng.choice([1_000_000, 3_000_000, 7]), 0
            elif it == "int32":
                step, start = rng.choice([50_000_000, 1000, 40000]), rng.choice([0, 1_600_000_000]) if kind in ("h1", "h2", "hnd") else 0
            else:
                step, start = rng.choice([2000, 9000]), rng.choice([0, 15000, -30000]) if kind in ("h1", "h2", "hnd") else 0
            ed = [start]
            for i in range(n_):
                ed.append(ed[-1] + step * (1 + (i % 2)))  # widths alternate: irregular bins
            if it == "int16" and kind in ("h2", "hnd") and n_ == 2 and rng.random() < 0.5:
                ed = [-32768, 0, 32767]  # every edge is a number of the type; the width of a bin (and the sum of two edges) is not
            top_ = {"int64": 2**62, "int32": 2**31 - 1, "int16": 2**15 - 1}[it]
            if ed[-1] > top_ or 2 * ed[-1] <= top_ and it != "int64" and ed[0] != -32768:
                continue  # (narrow types: only edges whose sums leave the type are of interest)
            bins[ax] = np.array(ed, dtype=it) if it != "int64" or rng.random() < 0.5 else np.array([int(x) for x in ed])
            if ax == 0 and kind in ("radial", "polar", "spherical", "cylindrical"):
                R = float(ed[-1])  # the covered region reaches that far now
    if not gapped and rng.random() < 0.12 and all(np.asarray(b).dtype.kind == "f" for b in bins):
        # edges handed over as float32 / float16 arrays (read-outs, compact files): the bins are those numbers, and their centres, widths
        # and measures are computed from them in double precision
        et = rng.choice([np.float32, np.float32, np.float16])
        if et is np.float16:
            ok16 = all(float(np.max(np.abs(b))) < 300 for b in bins)
            et = np.float16 if ok16 else np.float32
        nb_ = [np.asarray(b).astype(et) for b in bins]
        if all(len(np.unique(x)) == len(x) and np.all(np.diff(x.astype(float)) > 0) for x in nb_):
            if rng.random() < 0.4 and kind in ("radial", "polar", "spherical", "cylindrical", "h1"):
                # a thin ring far out: r = 1000 with bins 0.125 wide (all float32 numbers)
                n0 = len(nb_[0]) - 1
                nb_[0] = (1000.0 + 0.125 * np.arange(n0 + 1)).astype(np.float32)
            bins = nb_
            full = False  # (2 pi, pi and R as float32 numbers are other numbers: the covered region is no longer "the full range")
    shape = tuple(len(b) if gapped else len(b) - 1 for b in bins)
    dtype = rng.choice(["int64", "float64", "int16", "float32", "int32"])
    if np.dtype(dtype).kind in "iu":
        top = rng.choice([50, 50, 20000]) if dtype in ("int16", "int32") else 50  # every bin fits the type, running sums may not
        freq = np.array([rng.randint(0, top) for _ in range(int(np.prod(shape)))]).reshape(shape).astype(dtype)
    else:
        if dtype == "float32" and rng.random() < 0.3:
            # every bin is a float32, their running sum / total is a number (2**24 + 1 + 1 is not lost)
            freq = np.array([rng.choice([2.0**24, 1.0, 1.0, 3.0, 0.0]) for _ in range(int(np.prod(shape)))]).reshape(shape).astype(dtype)
        else:
            freq = np.array([rng.randint(0, 400) / 8 for _ in range(int(np.prod(shape)))]).reshape(shape).astype(dtype)
    if gapped:
        freq = freq.astype("float64")
    kw = {}
    if kind == "cylindrical_surface" and rng.random() < 0.5:
        kw["axis_names"] = ["phi", "z"]
    # the surface / angle classes carry a radius of their own (plotting aid): the measures of the statement do not depend on it
    set_radius = None
    if kind in ("azimuthal", "spherical_surface", "cylindrical_surface") and rng.random() < 0.5:
        set_radius = rng.choice([2.0, 0.5, 7.5])
        if rng.random() < 0.5:
            kw["radius"] = set_radius
    if len(bins) == 1:
        h = cls(bins[0], freq, **kw)
    else:
        h = cls(bins, freq, **kw)
    if set_radius is not None and "radius" not in kw:
        h.radius = set_radius
    pairs = [np.asarray(b) if gapped else np.stack([np.asarray(b, dtype=float)[:-1], np.asarray(b, dtype=float)[1:]], axis=1) for b in bins]
    return h, pairs, full, R


def one_case(ctx, index, rng: random.Random):
    rec = ctx.rec
    kind = CLASSES[index % len(CLASSES)] if rng.random() < 0.5 else rng.choice(CLASSES)
    rec.mon("C16.geometry")
    try:
        with warnings.catch_warnings():
            warnings.simplefilter("ignore")
            h, pairs, full, R = build(rng, kind)
    except Exception as e:
        rec.fail(monitor="C16.geometry", op=f"construct/{kind}", symptom=f"construction from bins and contents raised {type(e).__name__}", diff=["raised"],
                 detail={"kind": kind, "error": str(e)[:200]})
        return
    desc = {"kind": kind, "bins": [p.tolist() for p in pairs], "full": full}

    def fail(symptom, diff, **extra):
        rec.fail(monitor="C16.geometry", op=kind, symptom=symptom, diff=diff, detail={**desc, **extra})

    with attach.quiet(), warnings.catch_warnings():
        warnings.simplefilter("ignore")
        shape = tuple(len(p) for p in pairs)
        exp = np.zeros(shape)
        for idx in np.ndindex(*shape):
            exp[idx] = measure(kind, [tuple(pairs[ax][i]) for ax, i in enumerate(idx)])
        try:
            sizes = np.asarray(h.bin_sizes, dtype=float)
        except Exception as e:
            fail(f"bin_sizes raised {type(e).__name__}", ["bin_sizes"], error=str(e)[:160])
            return
        if sizes.shape != exp.shape or not np.allclose(sizes, exp, rtol=1e-12, atol=1e-15 * float(np.abs(exp).max())):
            fail("bin_sizes differ from the true measure of the bins in the histogram's own coordinates", ["bin_sizes"], got=sizes.ravel()[:6], expected=exp.ravel()[:6])
        f = np.asarray(h.frequencies, dtype=float)
        dens = np.asarray(h.densities, dtype=float)
        if dens.shape != f.shape or not np.allclose(dens * exp, f, rtol=1e-12, atol=1e-12):
            fail("densities * bin_sizes differs from frequencies", ["densities"], densities=dens.ravel()[:6], sizes=exp.ravel()[:6], frequencies=f.ravel()[:6])
        # sum of the measures = measure of the covered region
        total = math.fsum(exp.ravel().tolist())
        if hasattr(h, "total_size"):
            if not math.isclose(float(h.total_size), total, rel_tol=1e-9):
                fail("total_size is not the sum of the bin measures", ["total_size"], got=float(h.total_size), expected=total)
        if hasattr(h, "total_width") and kind in ("h1", "h1_gapped"):
            if not math.isclose(float(h.total_width), total, rel_tol=1e-9):
                fail("total_width is not the sum of the bin widths (gaps not counted)", ["total_width"], got=float(h.total_width), expected=total)
        if full:
            region = {"polar": math.pi * R * R, "radial": math.pi * R * R, "spherical": 4 / 3 * math.pi * R**3, "spherical_surface": 4 * math.pi,
                      "azimuthal": 2 * math.pi}.get(kind)
            if kind == "cylindrical":
                region = math.pi * R * R * (pairs[2][-1][1] - pairs[2][0][0])
            if kind == "cylindrical_surface":
                region = 2 * math.pi * (pairs[1][-1][1] - pairs[1][0][0])
            if region is not None and not math.isclose(float(np.sum(sizes)), region, rel_tol=1e-9):
                fail("bin measures do not sum to the measure of the covered region", ["bin_sizes"], got=float(np.sum(sizes)), expected=region)
        # additivity under merge_bins
        if kind == "h1_gapped":
            amount = rng.randint(2, shape[0])
            try:
                m = h.merge_bins(amount)
                ms = np.asarray(m.bin_sizes, dtype=float)
                if not math.isclose(float(ms.sum()), total, rel_tol=1e-9):
                    fail("merging bins changed the total measure (a gap was swallowed)", ["bin_sizes"], amount=amount, got=float(ms.sum()), expected=total)
            except Exception:
                pass  # merging across a gap is refused (C10)
        else:
            ax = rng.randrange(len(pairs))
            amount = rng.randint(1, max(1, shape[ax]))
            try:
                m = h.merge_bins(amount, axis=ax)
                ms = np.asarray(m.bin_sizes, dtype=float)
                groups = [(k, min(k + amount, shape[ax])) for k in range(0, shape[ax], amount)]
                want = np.stack([np.take(exp, range(a, b), axis=ax).sum(axis=ax) for a, b in groups], axis=ax)
                if ms.shape != want.shape or not np.allclose(ms, want, rtol=1e-10, atol=1e-14 * float(np.abs(exp).max())):
                    # merged transformed histograms may legitimately degrade to the plain class only if the class is kept
                    if type(m) is type(h):
                        fail("bin measures are not additive when adjacent bins are merged", ["bin_sizes"], axis=ax, amount=amount, got=ms.ravel()[:6], expected=want.ravel()[:6])
            except Exception as e:
                fail(f"merge_bins on a {kind} histogram raised {type(e).__name__}", ["raised"], error=str(e)[:160])
        # edges, centres, widths
        if len(pairs) == 1:
            p = pairs[0]
            checks = {"bin_left_edges": p[:, 0], "bin_right_edges": p[:, 1], "bin_centers": (p[:, 0] + p[:, 1]) / 2, "bin_widths": p[:, 1] - p[:, 0]}
            for name, want in checks.items():
                got = np.asarray(getattr(h, name), dtype=float)
                if got.shape != want.shape or not np.allclose(got, want, rtol=1e-14, atol=0):
                    fail(f"{name} is inconsistent with bins", [name], got=got[:6], expected=want[:6])
            if float(h.min_edge) != p[0, 0] or float(h.max_edge) != p[-1, 1]:
                fail("min_edge / max_edge inconsistent with bins", ["min_edge"])
            cum = np.asarray(h.cumulative_frequencies, dtype=float)
            run = np.cumsum(f.astype(float))
            if cum.shape != run.shape or not np.allclose(cum, run, rtol=1e-12, atol=0) or (len(cum) and not math.isclose(float(cum[-1]), float(h.total), rel_tol=1e-12, abs_tol=1e-12)):
                fail("cumulative_frequencies is not the running sum ending at total", ["cumulative_frequencies"], got=cum[:6], expected=run[:6], total=float(h.total))
        else:
            for ax, p in enumerate(pairs):
                name_or_ix = h.axis_names[ax] if rng.random() < 0.5 else ax
                checks = {"get_bin_left_edges": p[:, 0], "get_bin_right_edges": p[:, 1], "get_bin_centers": (p[:, 0] + p[:, 1]) / 2, "get_bin_widths": p[:, 1] - p[:, 0]}
                for name, want in checks.items():
                    got = np.asarray(getattr(h, name)(name_or_ix), dtype=float)
                    if got.shape != want.shape or not np.allclose(got, want, rtol=1e-14, atol=0):
                        fail(f"{name}({ax}) is inconsistent with bins", [name], got=got[:6], expected=want[:6])
                ed = np.asarray(h.get_bin_edges(ax), dtype=float)
                want_e = np.concatenate([p[:1, 0], p[:, 1]])
                if ed.shape != want_e.shape or not np.array_equal(ed, want_e):
                    fail(f"get_bin_edges({ax}) is inconsistent with bins", ["get_bin_edges"])
            for name, col in (("get_bin_left_edges", 0), ("get_bin_right_edges", 1), ("get_bin_centers", None), ("get_bin_widths", "w")):
                mesh = getattr(h, name)()
                if len(mesh) != len(pairs):
                    fail(f"{name}() does not return one mesh per axis", [name])
                    continue
                for ax, g in enumerate(mesh):
                    g = np.asarray(g, dtype=float)
                    p = pairs[ax]
                    vec = p[:, col] if col in (0, 1) else ((p[:, 0] + p[:, 1]) / 2 if col is None else p[:, 1] - p[:, 0])
                    shp = [1] * len(pairs)
                    shp[ax] = len(vec)
                    want = np.broadcast_to(vec.reshape(shp), shape)
                    if g.shape != shape or not np.allclose(g, want, rtol=1e-14, atol=0):
                        fail(f"mesh form {name}() is inconsistent with bins (axis {ax})", [name], got_shape=g.shape, expected_shape=shape)
                        break
    unequal = any(len(p) >= 2 and not np.allclose(p[:, 1] - p[:, 0], (p[0, 1] - p[0, 0])) for p in pairs)
    rec.case([kind, [p.tolist() for p in pairs], np.asarray(h.frequencies).ravel()[:40].tolist()], unequal and float(np.abs(f).sum()) > 0, cls=kind,
             sample={"kind": kind, "bins": [p.tolist()[:3] for p in pairs], "bin_sizes": np.asarray(sizes).ravel()[:4].tolist(), "frequencies": f.ravel()[:4].tolist()})


def geometry_problems(h):
    """The self-description of one histogram: measures, densities, edge / centre / width forms against its contents."""
    probs = []
    f = np.asarray(h.frequencies, dtype=float)
    sizes = np.asarray(h.bin_sizes, dtype=float)
    if sizes.shape != f.shape:
        probs.append(f"bin_sizes shape {sizes.shape} != frequencies shape {f.shape}")
    dens = np.asarray(h.densities, dtype=float)
    if dens.shape != f.shape or not np.allclose(dens * sizes, f, rtol=1e-12, atol=1e-12):
        probs.append("densities * bin_sizes != frequencies")
    if h.ndim == 1:
        for name in ("bin_left_edges", "bin_right_edges", "bin_centers", "bin_widths"):
            if np.asarray(getattr(h, name)).shape != f.shape:
                probs.append(f"{name} shape differs from frequencies")
        cum = np.asarray(h.cumulative_frequencies, dtype=float)
        if cum.shape != f.shape or (len(cum) and not math.isclose(float(cum[-1]), float(h.total), rel_tol=1e-12, abs_tol=1e-12)):
            probs.append("cumulative_frequencies does not end at total")
    else:
        for name in ("get_bin_left_edges", "get_bin_right_edges", "get_bin_centers", "get_bin_widths"):
            for ax, g in enumerate(getattr(h, name)()):
                if np.asarray(g).shape != f.shape:
                    probs.append(f"mesh {name}()[{ax}] shape {np.asarray(g).shape} != frequencies shape {f.shape}")
        if hasattr(h, "total_size") and not math.isclose(float(h.total_size), float(sizes.sum()), rel_tol=1e-9):
            probs.append("total_size is not the sum of bin_sizes")
    return probs


def selection_case(ctx, index, rng: random.Random):
    """The self-description of a selection (slice / mask / index array / ND selection), taken after the source's
    representations were read: edges, widths, measures and densities are those of the selected bins."""
    from .. import snapshot as snap_

    rec = ctx.rec
    rec.mon("C16.geometry")
    kind = rng.choice(["h1", "h1", "h2", "hnd", "radial", "azimuthal", "polar", "cylindrical_surface"])
    try:
        with warnings.catch_warnings():
            warnings.simplefilter("ignore")
            h, pairs, full, R = build(rng, kind)
            for nm in rng.sample(["edges", "numpy_like", "bins", "bin_sizes", "densities", "total"], rng.randint(1, 4)):
                try:
                    getattr(h, nm)
                except Exception:
                    pass
            for b in h.binnings:
                gen.touch_binning(rng, b, p=0.7)
            n0 = h.shape[0]
            if n0 < 2:
                rec.case(["selection", kind, "too_small"], False, cls="selection/too_small")
                return
            a = rng.randint(0, n0 - 1)
            b_ = rng.randint(a + 1, n0)
            how = rng.choice(["slice", "mask", "index", "select"] if h.ndim == 1 else ["slice", "select"])
            if how == "slice":
                g = h[a:b_]
                idx = list(range(a, b_))
            elif how == "mask":
                m = np.zeros(n0, dtype=bool)
                m[a:b_] = True
                g = h[m]
                idx = list(range(a, b_))
            elif how == "index":
                idx = sorted(rng.sample(range(n0), rng.randint(1, n0)))
                g = h[np.array(idx)]
            else:
                g = h.select(0, slice(a, b_))
                idx = list(range(a, b_))
    except OverflowError:
        # compact integer contents: the weight cut off by the selection does not fit the content type and is refused
        # loudly (never wrapped) - nothing to inspect
        rec.case(["selection", kind, "cut_off_weight_overflow"], False, cls="selection/cutoff_overflow_refused")
        return
    except Exception as e:
        rec.fail(monitor="C16.geometry", op=f"selection/{kind}", symptom=f"selection raised {type(e).__name__}", diff=["raised"], detail={"kind": kind, "error": str(e)[:160]})
        return
    with attach.quiet(), warnings.catch_warnings():
        warnings.simplefilter("ignore")
        probs = []
        try:
            want = pairs[0][idx]
            got = np.asarray(g.bins if g.ndim == 1 else g.bins[0], dtype=float)
            if got.shape != want.shape or not np.array_equal(got, want):
                probs.append("bins of the selection are not the selected bins")
            probs += snap_.wellformed_problems(g)
            cons = all(np.array_equal(np.asarray(bb)[1:, 0], np.asarray(bb)[:-1, 1]) for bb in ([g.bins] if g.ndim == 1 else g.bins))
            if cons or g.ndim > 1:
                probs += geometry_problems(g)
            if g.ndim == 1 and cons:
                f_, e_ = g.numpy_like
                if len(np.asarray(e_)) != len(np.asarray(f_)) + 1:
                    probs.append(f"numpy_like: {len(np.asarray(f_))} contents with {len(np.asarray(e_))} edges")
        except Exception as e:
            probs.append(f"inspection raised {type(e).__name__}: {str(e)[:100]}")
        if probs:
            rec.fail(monitor="C16.geometry", op=f"selection/{kind}/{how}", symptom="a selection does not describe itself consistently (edges / widths / measures vs its bins and contents)",
                     diff=["geometry"], detail={"kind": kind, "how": how, "problems": probs[:4], "selected": idx[:8]})
    rec.case(["selection", kind, how, idx, [p.tolist() for p in pairs]], len(idx) < n0, cls=f"selection/{kind}/{how}")


def detached_case(ctx, index, rng: random.Random):
    """Geometry vs contents of a histogram are re-inspected after a histogram derived from it (or its source) has grown."""
    from ..monitors import structure

    structure.detached_workload(ctx, index, rng, prop="C16", monitor="C16.geometry", inspect=geometry_problems)


def run(ctx):
    ctx.run_cases(ctx.scale(500, 4000), one_case)
    ctx.run_cases(ctx.scale(100, 600), detached_case, salt="detached")
    ctx.run_cases(ctx.scale(120, 800), selection_case, salt="selection")
