"""C09 - projections are exact marginals."""
from __future__ import annotations

import random
import warnings

import numpy as np

from .. import attach, gen, model, snapshot as snap
from ..monitors import construct, structure

DECIDING_MONITORS = ["C09.projection.post", "C09.projection.refusal", "C09.chain"]
PASSIVE_UNDER_TESTS = True
RULE = ("ND histograms, d = 2..4, asymmetric shapes, integer / dyadic contents with independent errors2 (weighted data), axes named; "
        "projections onto every kind of non-empty proper axis subset given by index or name in any order, chains of projections vs one "
        "step, equality with the histogram built directly from the kept columns (all rows inside), T (T.T == h), accumulate along each "
        "axis, unknown / duplicate / empty / negative / non-int-str axes refused; every projection call is checked against an explicit "
        "loop marginal; compact integer contents (int16 / int32 bins that fit, running sums and marginals that do not); projections / selections and their sources re-inspected after one of them grew (fixed-width axes that are or become adaptive); non-trivial = d >= 3 or asymmetric 2D shape, weighted data, axes given in non-ascending order or by name; "
        "distinct by hash of (shape, contents, axes)")
ASSUMPTIONS = ["the marginal is recomputed by an explicit Python loop over all cells (independent of numpy's axis reduction)"]


def attach_monitors():
    structure.attach_structure_monitors(("projection",))


def one_case(ctx, index, rng: random.Random):
    import physt

    rec = ctx.rec
    d = rng.choice([2, 2, 3, 3, 4])
    shape = [rng.randint(1, 5) for _ in range(d)]
    if d == 2 and shape[0] == shape[1]:
        shape[1] += 1
    axes_pairs = [gen.pairs_from_edges(gen.edges(rng, n)) for n in shape]
    n = rng.randint(0, 80)
    cols = [gen.data_for_bins(rng, p, n, outside=False, edge_bias=0.2) for p in axes_pairs]
    rows = np.array(cols, dtype=float).T.reshape(n, d)
    # keep all rows inside (closed last edge) so that the directly built marginal is comparable
    for ax, p in enumerate(axes_pairs):
        rows[:, ax] = np.clip(rows[:, ax], p[0][0], p[-1][1])
    weighted = rng.random() < 0.6
    w = np.asarray([rng.randint(0, 24) / 8 for _ in range(n)], dtype=float) if weighted else None
    names = [rng.choice(["x", "a", "pt"]) + str(i) for i in range(d)]
    edges = [np.array([q[0] for q in p] + [p[-1][1]]) for p in axes_pairs]
    kw = {"axis_names": names}
    if w is not None:
        kw["weights"] = w
    h = physt.h(rows, [e.copy() for e in edges], **kw)
    if n >= 2 and rng.random() < 0.15:
        # a parent that is the sum of parts whose axes were labelled differently: it reports default names (axis0, axis1, ...), and
        # those are the names of its axes - for its projections, by index and by name, in one step or several
        m_ = rng.randint(1, n - 1)
        kw_a = {"axis_names": names, **({"weights": w[:m_]} if w is not None else {})}
        kw_b = {"axis_names": [nm + "'" for nm in names], **({"weights": w[m_:]} if w is not None else {})}
        with warnings.catch_warnings():
            warnings.simplefilter("ignore")
            h = physt.h(rows[:m_], [e.copy() for e in edges], **kw_a) + physt.h(rows[m_:], [e.copy() for e in edges], **kw_b)
        names = list(h.axis_names)
    by_name = rng.random() < 0.5
    k = rng.randint(1, d - 1)
    axes = rng.sample(range(d), k)
    given = [names[a] if (by_name and rng.random() < 0.8) else a for a in axes]
    desc = {"shape": shape, "axes": given, "weighted": weighted, "n": n}
    rec.mon("C09.chain")
    try:
        p = h.projection(*given)
    except Exception as e:
        rec.case(desc, False, cls="raised")
        return  # the per-call monitor judged the refusal
    with attach.quiet():
        # directly built histogram of the kept columns
        kept = sorted(axes)
        sub_kw = {}
        if w is not None:
            sub_kw["weights"] = w
        if len(kept) == 1:
            direct = physt.h1(rows[:, kept[0]], edges[kept[0]].copy(), **sub_kw)
        else:
            direct = physt.h(rows[:, kept], [edges[a].copy() for a in kept], **sub_kw)
        if not (np.array_equal(np.asarray(p.frequencies, dtype=float), np.asarray(direct.frequencies, dtype=float))
                and np.array_equal(np.asarray(p.errors2, dtype=float), np.asarray(direct.errors2, dtype=float))):
            rec.fail(monitor="C09.chain", op="projection vs direct", symptom="projection differs from the histogram built directly from the kept columns",
                     diff=["frequencies", "errors2"], detail={**desc, "projection": np.asarray(p.frequencies).ravel()[:10], "direct": np.asarray(direct.frequencies).ravel()[:10]})
    # chains: project in steps == once
    if len(kept) >= 1 and d >= 3:
        mid_size = rng.randint(len(kept) + 1, d - 1) if len(kept) + 1 <= d - 1 else None
        if mid_size:
            extra = rng.sample([a for a in range(d) if a not in kept], mid_size - len(kept))
            mid_axes = sorted(kept + extra)
            try:
                mid = h.projection(*rng.sample(mid_axes, len(mid_axes)))
                final_names = [names[a] for a in kept]
                rng.shuffle(final_names)
                step = mid.projection(*final_names)
                with attach.quiet():
                    s1, s2 = snap.snapshot(p), snap.snapshot(step)
                    dd = [kk for kk in ("bins", "frequencies", "errors2", "axis_names") if s1[kk] != s2[kk]]
                    if dd:
                        rec.fail(monitor="C09.chain", op="chain", symptom="projecting in steps differs from projecting once", diff=dd, detail={**desc, "mid": mid_axes})
            except Exception as e:
                rec.fail(monitor="C09.chain", op="chain", symptom=f"chained projection raised {type(e).__name__}", diff=["raised"], detail={**desc, "error": str(e)[:160]})
    # T and accumulate
    if d == 2:
        t = h.T
        tt = t.T
        with attach.quiet():
            # (the raw metadata entry behind unlabelled axes may read None or the default names: what the histogram reports is compared)
            dd_ = snap.diff(snap.snapshot(h), snap.snapshot(tt), ignore=("meta_data",))
            if dd_ or not (tt == h):
                rec.fail(monitor="C09.chain", op="T.T", symptom="T.T differs from the original", diff=sorted(dd_) or ["eq"], detail=desc)
    ax = rng.randrange(d)
    h.accumulate(names[ax] if rng.random() < 0.5 else ax)
    narrow = None
    if rng.random() < 0.2:
        # compact integer contents: every bin fits the type, the running sums and marginals do not have to
        from physt.histogram_nd import Histogram2D, HistogramND

        narrow = rng.choice(["int16", "int32", "float16", "float32"])
        top = {"float16": 60000, "float32": 2**24}.get(narrow) or int(np.iinfo(narrow).max)
        big = np.array([rng.choice([0, 1, top // 2, top - 1, top, rng.randint(0, top)]) for _ in range(int(np.prod(shape)))]).astype(narrow).reshape(shape)
        bn = [b.copy() for b in h.binnings]
        try:
            g = Histogram2D(bn, frequencies=big, axis_names=names) if d == 2 else HistogramND(bn, frequencies=big, axis_names=names)
            g.accumulate(names[ax] if rng.random() < 0.5 else ax)
            pg = g.projection(*given)
            with attach.quiet():
                dropped = tuple(i for i in range(d) if i not in axes)
                wide_ = np.int64 if narrow.startswith("int") else np.float64
                exact = big.astype(wide_).sum(axis=dropped)
                if not np.array_equal(np.asarray(pg.frequencies).astype(wide_), exact) or float(pg.total) != float(big.astype(wide_).sum()):
                    rec.fail(monitor="C09.chain", op="projection(narrow integer contents)", symptom="marginal sums of compact integer contents wrapped around", diff=["frequencies"],
                             detail={**desc, "dtype": narrow, "got": np.asarray(pg.frequencies).ravel()[:8], "expected": exact.ravel()[:8]})
        except Exception as e:
            rec.fail(monitor="C09.chain", op="narrow integer contents", symptom=f"projection / accumulate of compact integer contents raised {type(e).__name__}", diff=["raised"],
                     detail={**desc, "dtype": narrow, "error": str(e)[:160]})
    # refusals
    bad = rng.choice([(d + 1,), (0, 0), (), ("nope",), (-1,), (1.5,), (names[0], 0)])
    try:
        with warnings.catch_warnings():
            warnings.simplefilter("ignore")
            h.projection(*bad)
    except Exception:
        pass
    unordered = list(axes) != sorted(axes)
    rec.case([shape, gen.hexlist(rows.ravel())[:200], given], (d >= 3 or shape[0] != shape[1]) and weighted and (unordered or any(isinstance(g, str) for g in given)),
             cls=f"{d}d/{'w' if weighted else 'u'}/{'name' if any(isinstance(g, str) for g in given) else 'index'}{'/unordered' if unordered else ''}{'/' + narrow if narrow else ''}",
             sample={"shape": shape, "axes": given, "total": float(h.total), "projection": np.asarray(p.frequencies).ravel()[:8].tolist()})


def transformed_case(ctx, index, rng: random.Random):
    """Projections of the coordinate-transformed classes: the mapped special class and marginal contents."""
    from physt import special_histograms as sp

    rec = ctx.rec
    rec.mon("C09.chain")
    kind = rng.choice(["polar", "spherical", "cylindrical"])
    n = rng.randint(3, 40)
    pts = np.array([[rng.uniform(-3, 3) for _ in range(3)] for _ in range(n)])
    w = np.asarray([rng.randint(1, 16) / 4 for _ in range(n)], dtype=float)
    with warnings.catch_warnings():
        warnings.simplefilter("ignore")
        if kind == "polar":
            h = sp.polar(pts[:, 0], pts[:, 1], radial_bins=np.array([0.0, 1.0, 2.5, 5.0]), phi_bins=rng.choice([3, 4, 8]), weights=w)
            cmap = {(0,): "RadialHistogram", (1,): "AzimuthalHistogram"}
        elif kind == "spherical":
            h = sp.spherical(pts, radial_bins=np.array([0.0, 2.0, 6.0]), theta_bins=rng.choice([2, 4]), phi_bins=rng.choice([3, 4]), weights=w)
            cmap = {(1, 2): "SphericalSurfaceHistogram", (0,): "RadialHistogram", (0, 1): "Histogram2D", (2,): "Histogram1D"}
        else:
            h = sp.cylindrical(pts, rho_bins=np.array([0.0, 1.5, 5.0]), phi_bins=rng.choice([3, 4]), z_bins=np.array([-3.5, 0.0, 1.0, 3.5]), weights=w)
            cmap = {(0,): "RadialHistogram", (1,): "AzimuthalHistogram", (0, 1): "PolarHistogram", (1, 2): "CylindricalSurfaceHistogram", (0, 2): "Histogram2D", (2,): "Histogram1D"}
        axes = rng.choice(list(cmap))
        given = [h.axis_names[i] if rng.random() < 0.5 else i for i in axes]
        if rng.random() < 0.5:
            given = given[::-1]
        try:
            p = h.projection(*given)
        except Exception as e:
            rec.fail(monitor="C09.chain", op=f"{kind}.projection{axes}", symptom=f"projection of a transformed histogram raised {type(e).__name__}", diff=["raised"], detail={"error": str(e)[:160]})
            return
    with attach.quiet():
        if type(p).__name__ != cmap[axes]:
            rec.fail(monitor="C09.chain", op=f"{kind}.projection{axes}", symptom="projection does not have the matching (special) class", diff=["class"],
                     detail={"got": type(p).__name__, "expected": cmap[axes]})
        dropped = tuple(i for i in range(h.ndim) if i not in axes)
        if not (np.array_equal(np.asarray(p.frequencies, dtype=float), np.asarray(h.frequencies, dtype=float).sum(axis=dropped))
                and np.array_equal(np.asarray(p.errors2, dtype=float), np.asarray(h.errors2, dtype=float).sum(axis=dropped))):
            rec.fail(monitor="C09.chain", op=f"{kind}.projection{axes}", symptom="projection of a transformed histogram is not the marginal", diff=["frequencies", "errors2"], detail={})
        if tuple(p.axis_names) != tuple(h.axis_names[i] for i in axes):
            rec.fail(monitor="C09.chain", op=f"{kind}.projection{axes}", symptom="axis names of the projection are not those of the kept axes in original order", diff=["axis_names"],
                     detail={"got": p.axis_names})
    # refusals hold for the transformed classes as well: repeated (index / name / both), unknown, empty
    nm = list(h.axis_names)
    a0 = rng.randrange(h.ndim)
    bad = rng.choice([(a0, a0), (nm[a0], nm[a0]), (nm[a0], a0), (a0, nm[a0]), (h.ndim + 1,), ("nope",), (), tuple(range(h.ndim)) + (0,)])
    rec.mon("C09.projection.refusal")
    try:
        with warnings.catch_warnings():
            warnings.simplefilter("ignore")
            with attach.quiet():
                q = h.projection(*bad)
        rec.fail(monitor="C09.projection.refusal", op=f"{kind}.projection{bad}", symptom="unknown / duplicate / empty axis list accepted by a transformed histogram", diff=["not_refused"],
                 detail={"axes": [str(b) for b in bad], "result": type(q).__name__})
    except Exception:
        pass
    rec.case(["transformed", kind, axes, pts.tolist()], True, cls=f"transformed/{kind}")


def detached_case(ctx, index, rng: random.Random):
    structure.detached_workload(ctx, index, rng, prop="C09", monitor="C09.chain")


def unbounded_T_case(ctx, index, rng: random.Random):
    """T.T == original also for a histogram whose outer bins are unbounded (edges -inf / +inf: 'everything below', 'everything above')."""
    from physt.histogram_nd import Histogram2D

    rec = ctx.rec
    rec.mon("C09.chain")
    ex = [-np.inf, -1.0, 0.0, 1.0, np.inf] if rng.random() < 0.7 else [0.0, 1.0, 2.5, np.inf]
    ey = [0.0, 1.0, 2.0] if rng.random() < 0.5 else [-np.inf, 0.0, np.inf]
    f = np.array([[rng.randint(0, 9) for _ in range(len(ey) - 1)] for _ in range(len(ex) - 1)])
    try:
        h = Histogram2D([np.array(ex), np.array(ey)], f, axis_names=["u", "v"])
        with warnings.catch_warnings():
            warnings.simplefilter("ignore")
            with np.errstate(all="ignore"):
                t = h.T
                tt = t.T
                same = bool(tt == h)
                swapped = np.array_equal(np.asarray(t.frequencies), f.T) and tuple(t.axis_names) == ("v", "u")
    except Exception as e:
        rec.case(["unbounded", ex, ey], False, cls="unbounded_T/raised")
        return
    if not same or not swapped:
        rec.fail(monitor="C09.chain", op="T.T", symptom="T.T differs from the original", diff=["eq"], detail={"edges": [ex, ey], "T_swapped": bool(swapped), "T.T == h": same})
    rec.case(["unbounded", ex, ey, f.tolist()], True, cls="unbounded_T")


def run(ctx):
    ctx.run_cases(ctx.scale(20, 100), unbounded_T_case, salt="unbounded")
    attach_monitors()
    ctx.run_cases(ctx.scale(120, 800), detached_case, salt="detached")
    ctx.run_cases(ctx.scale(400, 3500), one_case)
    ctx.run_cases(ctx.scale(60, 400), transformed_case, salt="transformed")
