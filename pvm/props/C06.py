"""C06 - scaling, division and normalisation are exactly linear."""
from __future__ import annotations

import math
import random
import warnings

import numpy as np

from .. import attach, gen, model, snapshot as snap
from ..monitors import algebra

DECIDING_MONITORS = ["C06.scale.post", "C06.identities", "C06.scale.refusal", "C06.scale.stats"]
PASSIVE_UNDER_TESTS = True
RULE = ("histograms (1D incl. gapped, 2-3D; int16..float64 contents; with under/overflow or missed values; custom errors) are multiplied / "
        "divided by python and numpy scalars of every kind, copying and in place, in chains; every observed scaling is checked element-wise "
        "by the per-call monitor (contents, missed x c, errors2 x c*c, bins / operand untouched, statistics invariant), plus identities "
        "c*h == h*c, (h*c)/c == h, normalize() total 1 / 100 with unchanged proportions, partial_normalize row/column sums 1, "
        "normalize_bins shares summing to 1; h*h, h/h, c/h, negative factors and array operands must be refused; "
        "partial_normalize by axis index and name, copying and in place (same result); refusals also after leaving a free-arithmetics block normally or by an exception; non-trivial = histogram with >= 2 non-empty bins and missed weight or custom errors, factor not 1; distinct by hash of (histogram, factor chain) Plus `far_scale_case`: factors of 1e150 / 1e-150 (mean(), variance(), std() against exact moments) and in-place scaling of a histogram that holds a negative bin (all or nothing). `big_int_factor_case`: integer factors whose square times the squared errors leaves int64 (values demanded, in whichever type); unsigned numpy integer factors.")
ASSUMPTIONS = [
    "a product / quotient is one IEEE operation per element in the result dtype: compared within 4 eps of that dtype (exact for integers)",
    "zero and non-finite factors are outside the statement",
]

FACTORS = [2, 3, 0.5, 0.25, 1.5, 7, 10, 0.1, 1 / 3, 2.5, np.int64(3), np.int32(2), np.float64(0.75), np.float32(0.5), np.float32(1.5), np.int16(4), np.float16(2.0), 1000, 1e-3,
           np.uint64(2), np.uint32(3), np.uint64(5),
           # numpy scalars whose square does not fit / is rounded in their own type
           np.uint8(20), np.int16(300), np.int32(70000), np.float16(0.1), np.float32(0.1), np.uint16(1000)]


def attach_monitors():
    algebra.attach_algebra_monitors(("scale",))


def make_hist(rng: random.Random, big=False):
    import physt

    d = rng.choice([1, 1, 1, 2, 2, 3])
    n = rng.randint(0, 40)
    if d == 1:
        gapped = rng.random() < 0.2
        pairs = gen.gapped_pairs(rng, rng.randint(2, 6)) if gapped else gen.pairs_from_edges(gen.edges(rng, rng.randint(1, 8)))
        data = gen.data_for_bins(rng, pairs, n)
        kw = {}
        wk = rng.choice(["none", "dyadic", "int"])
        if gapped and wk != "dyadic":
            wk = "dyadic"
        if wk == "dyadic":
            kw["weights"] = np.asarray([rng.randint(0, 24) / 8 for _ in range(n)], dtype=float)
        elif wk == "int":
            kw["weights"] = np.asarray([rng.randint(0, 5) for _ in range(n)], dtype=int)
        if not gapped and rng.random() < 0.5:
            dt = rng.choice(["int16", "int32", "int64", "float16", "float32", "float64"])
            if not (np.dtype(dt).kind in "iu" and wk == "dyadic"):
                kw["dtype"] = dt
        if rng.random() < 0.15:
            kw["keep_missed"] = False
        h = physt.h1(np.asarray(data, dtype=float), np.array(pairs), **kw)
    else:
        axes = [gen.pairs_from_edges(gen.edges(rng, rng.randint(1, 4))) for _ in range(d)]
        rows = np.array([gen.data_for_bins(rng, p, n) for p in axes], dtype=float).T.reshape(n, d)
        kw = {}
        if rng.random() < 0.5:
            kw["weights"] = np.asarray([rng.randint(0, 24) / 8 for _ in range(n)], dtype=float)
        h = physt.h(rows, [np.array(p) for p in axes], **kw)
    custom = False
    if rng.random() < 0.3 and h.total > 0:
        # custom errors through the public setter (keeps dtype semantics: same dtype as contents)
        e = np.asarray(h.errors2) * rng.choice([2, 3]) + (1 if np.dtype(h.dtype).kind in "iu" else 0.5)
        h.errors2 = e.astype(h.dtype)
        custom = True
    return h, custom


def one_case(ctx, index, rng: random.Random):
    rec = ctx.rec
    try:
        h, custom = make_hist(rng)
    except Exception as e:
        rec.monitor_error("C06.make_hist", e)
        return
    with attach.quiet():
        s0 = snap.snapshot(h)
    chain = []
    cur = h
    steps = rng.randint(1, 4)
    # narrow integer contents: keep products (errors2 x c*c) inside the type - overflow produced by numpy itself is outside the statement
    # (numpy integers of the content type's own width count like python ints: the products are formed in 64 bits, the type widens)
    narrow = {"int16": [2, 0.5, 1.5, np.float32(0.5), np.int16(2), np.float64(0.75), np.int16(100), np.int16(300), 1000, np.uint64(2), np.uint16(3)],
              "int32": [2, 3, 0.5, 10, 1.5, np.int32(2), np.float32(0.5), 7, np.int32(70000), np.int16(300), 70000]}.get(s0["dtype"])
    if narrow is not None:
        steps = 1 if s0["dtype"] == "int16" else min(steps, 2)
    try:
        with warnings.catch_warnings():
            warnings.simplefilter("ignore")
            for _ in range(steps):
                c = rng.choice(narrow if narrow is not None else FACTORS)
                form = rng.choice(["mul", "rmul", "div", "imul", "idiv"])
                if np.dtype(cur.dtype).kind in "iu" and form in ("mul", "rmul", "imul") and float(np.max(np.asarray(cur.errors2), initial=0)) * float(c) ** 2 > 1e17:
                    c = 0.5  # integer contents stay far inside int64 (numpy's silent wrap-around is outside the statement)
                chain.append((form, repr(c)))
                if form == "mul":
                    cur = cur * c
                elif form == "rmul":
                    cur = c * cur
                elif form == "div":
                    cur = cur / c
                elif form == "imul":
                    cur = cur.copy()
                    cur *= c
                else:
                    cur = cur.copy()
                    cur /= c
    except Exception as e:
        rec.mon("C06.identities")
        rec.fail(monitor="C06.identities", op=str(chain[-1]), symptom=f"valid scaling raised {type(e).__name__}", diff=["raised"],
                 detail={"error": str(e)[:200], "chain": chain, "dtype": s0["dtype"]})
    # identities
    rec.mon("C06.identities")
    c = rng.choice([2, 3, 0.5, 4.0, np.float64(1.5), np.int64(5), 0.1, 7]) if s0["dtype"] != "int16" else rng.choice([2, 0.5, 1.5])
    with warnings.catch_warnings():
        warnings.simplefilter("ignore")
        try:
            a, b = h * c, c * h
            with attach.quiet():
                sa, sb = snap.snapshot(a), snap.snapshot(b)
                if snap.diff(sa, sb):
                    rec.fail(monitor="C06.identities", op="c*h vs h*c", symptom="c*h differs from h*c", diff=sorted(snap.diff(sa, sb)), detail={"factor": repr(c)})
            back = (h * c) / c
            with attach.quiet():
                f0, f1 = snap.arr_values(s0["frequencies"]).astype(float), np.asarray(back.frequencies, dtype=float)
                e0, e1 = snap.arr_values(s0["errors2"]).astype(float), np.asarray(back.errors2, dtype=float)
                eps = 8 * max(algebra._eps(back.dtype), algebra._eps(s0["dtype"]), 2.3e-16)
                if not (np.allclose(f0, f1, rtol=eps, atol=0) and np.allclose(e0, e1, rtol=2 * eps, atol=0)):
                    rec.fail(monitor="C06.identities", op="(h*c)/c", symptom="(h*c)/c does not reproduce h", diff=["frequencies", "errors2"],
                             detail={"factor": repr(c), "before": f0.ravel()[:8], "after": f1.ravel()[:8], "dtype": s0["dtype"]})
            if h.total > 0:
                percent = rng.random() < 0.4
                inplace = rng.random() < 0.4
                hn = h.copy().normalize(inplace=True, percent=percent) if inplace else h.normalize(percent=percent)
                with attach.quiet():
                    want = 100.0 if percent else 1.0
                    tol = 16 * max(algebra._eps(hn.dtype), 2.3e-16) * max(1, hn.frequencies.size)
                    if abs(float(hn.total) - want) > tol * want:
                        rec.fail(monitor="C06.identities", op=f"normalize(percent={percent}, inplace={inplace})", symptom="normalized total is not 1 (100 with percent)",
                                 diff=["total"], detail={"total": float(hn.total), "dtype": str(hn.dtype)})
                    f0 = snap.arr_values(s0["frequencies"]).astype(float)
                    prop0 = f0 / f0.sum()
                    prop1 = np.asarray(hn.frequencies, dtype=float) / want
                    if not np.allclose(prop0, prop1, rtol=1e-3 if np.dtype(hn.dtype).itemsize < 4 else 1e-6, atol=1e-7):
                        rec.fail(monitor="C06.identities", op="normalize", symptom="normalize changed the proportions", diff=["frequencies"],
                                 detail={"before": prop0.ravel()[:8], "after": prop1.ravel()[:8]})
                    if not inplace and snap.diff(s0, snap.snapshot(h)):
                        rec.fail(monitor="C06.identities", op="normalize", symptom="normalize() modified its operand", diff=sorted(snap.diff(s0, snap.snapshot(h))), detail={})
            if type(h).__name__ == "Histogram2D":
                ax = rng.randrange(2)
                named = rng.random() < 0.5
                if named:
                    with attach.quiet():
                        h.axis_names = ("first", "second")
                        s0 = snap.snapshot(h)
                ax_arg = ("first", "second")[ax] if named else ax
                pn = h.partial_normalize(ax_arg)
                with attach.quiet():
                    f = np.asarray(pn.frequencies, dtype=float)
                    e2 = np.asarray(pn.errors2, dtype=float)
                    src = snap.arr_values(s0["frequencies"]).astype(float)
                    src_e = snap.arr_values(s0["errors2"]).astype(float)
                    sums = f.sum(axis=ax)
                    src_sums = src.sum(axis=ax)
                    good = np.all(np.where(src_sums > 0, np.abs(sums - 1) < 1e-9, sums == 0))
                    if not good:
                        rec.fail(monitor="C06.identities", op=f"partial_normalize({ax_arg!r})", symptom="rows / columns do not sum to 1 after partial_normalize",
                                 diff=["frequencies"], detail={"sums": sums, "source_sums": src_sums})
                    div = np.where(src_sums > 0, src_sums, 1.0)
                    div = div[np.newaxis, :] if ax == 0 else div[:, np.newaxis]
                    if not (np.allclose(f, src / div, rtol=1e-12, atol=0) and np.allclose(e2, src_e / (div * div), rtol=1e-12, atol=0)):
                        rec.fail(monitor="C06.identities", op=f"partial_normalize({ax_arg!r})", symptom="contents / errors2 not divided by the sums along the axis (and their squares)",
                                 diff=["frequencies", "errors2"], detail={"got": f, "expected": src / div})
                    if snap.diff(s0, snap.snapshot(h)):
                        rec.fail(monitor="C06.identities", op="partial_normalize", symptom="partial_normalize() modified its operand", diff=["operand"], detail={})
                # in place: same result as the copying form, for the axis given either way
                hc = h.copy()
                ret = hc.partial_normalize(ax_arg, inplace=True)
                with attach.quiet():
                    dd = snap.diff(snap.snapshot(pn), snap.snapshot(hc))
                    if dd or ret is not hc:
                        rec.fail(monitor="C06.identities", op=f"partial_normalize({ax_arg!r}, inplace=True)", symptom="in-place partial_normalize differs from the copying one",
                                 diff=sorted(dd) or ["return"], detail={"copying": np.asarray(pn.frequencies), "inplace": np.asarray(hc.frequencies)})
        except Exception as e:
            rec.fail(monitor="C06.identities", op="identities", symptom=f"valid scaling / normalisation raised {type(e).__name__}", diff=["raised"],
                     detail={"error": str(e)[:200], "factor": repr(c), "dtype": s0["dtype"]})
        # refusals (also after a block with free arithmetics was left, normally or by an exception: the
        # switch must not outlive the block)
        left_block = None
        if rng.random() < 0.3:
            from physt.config import config as _cfg
            left_block = rng.choice(["normal", "raised", "nested_raised"])
            try:
                with _cfg.enable_free_arithmetics():
                    _ = h * -1 if h.total else None
                    if left_block == "nested_raised":
                        with _cfg.enable_free_arithmetics(False):
                            pass
                    if left_block != "normal":
                        _ = h * h.copy()  # refused even here; the exception leaves the block
            except Exception:
                pass
        for kind in rng.sample(["hh_mul", "hh_div", "rdiv", "neg", "neg_div", "array", "array_div"], 3):
            raised = False
            try:
                if kind == "hh_mul":
                    _ = h * h.copy()
                elif kind == "hh_div":
                    _ = h / h.copy()
                elif kind == "rdiv":
                    _ = 2 / h
                elif kind == "neg":
                    _ = h * rng.choice([-1, -2.5]) if rng.random() < 0.5 else h.copy().__imul__(-3)
                elif kind == "neg_div":
                    _ = h / rng.choice([-2, -0.5, np.float64(-4.0)]) if rng.random() < 0.5 else h.copy().__itruediv__(-2.0)
                elif kind == "array_div":
                    _ = h / np.full(h.shape, 2.0)
                else:
                    _ = h * np.full(h.shape, 2.0)
            except Exception:
                raised = True
            rec.mon("C06.scale.refusal")
            if not raised:
                rec.fail(monitor="C06.scale.refusal", op=kind, symptom="operation that the statement says is refused was accepted", diff=["not_refused"], detail={"kind": kind, "after_free_arithmetics_block": left_block})
        # a bin reading "unknown" (NaN, e.g. the share of a bin that is empty in every member of a collection) does not
        # switch the refusal of negative factors off for the other bins
        if np.dtype(h.dtype).kind == "f" and h.frequencies.size >= 2 and float(np.nansum(np.asarray(h.frequencies, dtype=float))) > 0 and rng.random() < 0.3:
            with attach.quiet():
                hn = h.copy()
                fr = np.asarray(hn.frequencies).copy()
                pos = [i for i in range(fr.size) if not (fr.flat[i] > 0)] or [0]
                fr.flat[rng.choice(pos)] = np.nan
                ok_nan = float(np.nansum(fr)) > 0
                try:
                    hn.frequencies = fr
                except Exception:
                    ok_nan = False
            if ok_nan:
                for kind in ("neg", "neg_div", "ineg"):
                    raised = False
                    try:
                        if kind == "neg":
                            _ = hn * -2
                        elif kind == "neg_div":
                            _ = hn / -2.0
                        else:
                            hn.copy().__imul__(-1)
                    except Exception:
                        raised = True
                    rec.mon("C06.scale.refusal")
                    if not raised:
                        rec.fail(monitor="C06.scale.refusal", op=f"{kind}/nan_bin", symptom="negative factor accepted on a histogram that holds an unknown (NaN) bin beside positive ones",
                                 diff=["not_refused"], detail={"kind": kind, "frequencies": fr.ravel()[:8]})
        with attach.quiet():
            dd = snap.diff(s0, snap.snapshot(h))
            if dd:
                rec.fail(monitor="C06.identities", op="operand", symptom="the operand was modified by copying operations", diff=sorted(dd), detail={"chain": chain})
    f = snap.arr_values(s0["frequencies"]).astype(float)
    missed = sum(float(s0[k]) for k in algebra._missed_keys(s0) if s0[k] != "nan")
    nontrivial = int((f != 0).sum()) >= 2 and (missed > 0 or custom)
    rec.case({"h": {k: (v if not isinstance(v, tuple) else str(v[:2]) + v[2].hex()[:64]) for k, v in s0.items() if k in ("bins", "frequencies", "dtype")}, "chain": chain},
             nontrivial, cls=f"{s0['class']}/{s0['dtype']}{'/custom' if custom else ''}",
             sample={"class": s0["class"], "dtype": s0["dtype"], "frequencies": f.ravel()[:8].tolist(), "missed": missed, "chain": chain})


def collection_case(ctx, index, rng: random.Random):
    import physt
    from physt.histogram_collection import HistogramCollection

    rec = ctx.rec
    rec.mon("C06.identities")
    e = gen.edges(rng, rng.randint(1, 6))
    pairs = gen.pairs_from_edges(e)
    k = rng.randint(1, 4)
    hs = []
    narrow_members = rng.random() < 0.15
    with_missed = rng.random() < 0.4  # members that missed some values (and, half of them, with float contents from the start)
    for i in range(k):
        data = gen.data_for_bins(rng, pairs, rng.randint(1, 30), outside=with_missed)
        if with_missed:
            data = list(data) + [e[0] - 1.0, e[-1] + 2.0, e[-1] + 3.0]
        kw_ = {"weights": np.asarray([rng.randint(1, 8) / 4 for _ in data])} if with_missed and rng.random() < 0.5 else {}
        hs.append(physt.h1(np.asarray(data), np.array(e), name=f"h{i}", **kw_))
        if narrow_members:
            # float16 members whose bins fit the type while their sum over the members does not
            with attach.quiet():
                from physt.histogram1d import Histogram1D

                f16 = np.minimum(np.asarray(hs[-1].frequencies, dtype=float) * 9000.0, 60000.0).astype(np.float16)
                hs[-1] = Histogram1D(np.array(e), f16, errors2=f16.copy(), name=f"h{i}")
    if any(x.total == 0 for x in hs):
        return  # normalising an empty member divides by zero: outside the statement
    how = rng.choice(["members", "members", "facade", "create"])
    if how == "members":
        col = HistogramCollection(*hs)
    else:
        # the other ways of building a collection hold the same members: collection({name: values}, bins) / create(name, values)
        datas = [np.asarray(gen.data_for_bins(rng, pairs, rng.randint(1, 30), outside=False)) for _ in range(k)]
        try:
            with warnings.catch_warnings():
                warnings.simplefilter("ignore")
                if how == "facade":
                    col = physt.collection({f"h{i}": d for i, d in enumerate(datas)}, np.array(e))
                else:
                    col = HistogramCollection(binning=physt.h1(datas[0], np.array(e)).binning.copy())
                    for i, d in enumerate(datas):
                        col.create(f"h{i}", d)
        except Exception as ex:
            rec.fail(monitor="C06.identities", op=f"collection/{how}", symptom=f"building a collection raised {type(ex).__name__}", diff=["raised"], detail={"error": str(ex)[:200]})
            return
        hs = list(col.histograms)
        with attach.quiet():
            for i, (x, d) in enumerate(zip(hs, datas)):
                ref = physt.h1(d, np.array(e))
                if len(hs) != k or not (np.array_equal(np.asarray(x.frequencies), np.asarray(ref.frequencies)) and np.array_equal(np.asarray(x.bins), np.asarray(ref.bins)) and x.name == f"h{i}"):
                    rec.fail(monitor="C06.identities", op=f"collection/{how}", symptom="a member of the collection is not the histogram of its own values over the shared bins", diff=["frequencies"],
                             detail={"member": i, "got": np.asarray(x.frequencies), "expected": np.asarray(ref.frequencies)})
        if any(x.total == 0 for x in hs):
            return
    with attach.quiet():
        before = [snap.snapshot(x) for x in hs]
    inplace = rng.random() < 0.3
    try:
        with warnings.catch_warnings():
            warnings.simplefilter("ignore")
            nb = col.normalize_bins(inplace=inplace)
            na = col.copy().normalize_all(inplace=True) if rng.random() < 0.5 else col.normalize_all()
    except Exception as ex:
        rec.fail(monitor="C06.identities", op="collection.normalize", symptom=f"collection normalisation raised {type(ex).__name__}", diff=["raised"], detail={"error": str(ex)[:200]})
        return
    with attach.quiet():
        tot = np.sum([snap.arr_values(b["frequencies"]).astype(float) for b in before], axis=0)
        shares = np.sum([np.asarray(x.frequencies, dtype=float) for x in nb.histograms], axis=0)
        ok = np.all(np.where(tot > 0, np.abs(shares - 1) < 1e-9, True))
        if not ok:
            rec.fail(monitor="C06.identities", op="normalize_bins", symptom="members' shares in a bin do not sum to 1", diff=["frequencies"], detail={"shares": shares, "totals": tot})
        for x, b in zip(na.histograms, before):
            t0 = float(snap.arr_values(b["frequencies"]).astype(float).sum())
            if t0 > 0 and abs(float(x.total) - 1) > 1e-9:
                rec.fail(monitor="C06.identities", op="normalize_all", symptom="member total is not 1 after normalize_all", diff=["total"], detail={"total": float(x.total)})
            if not inplace and t0 > 0 and b.get("underflow") not in (None, "nan") and b.get("overflow") not in (None, "nan"):
                # what a member missed is divided by the same number as its bins (the proportions stay)
                wu, wo = float(b["underflow"]) / t0, float(b["overflow"]) / t0
                if abs(float(x.underflow) - wu) > 1e-9 * (wu + 1) or abs(float(x.overflow) - wo) > 1e-9 * (wo + 1):
                    rec.fail(monitor="C06.identities", op="normalize_all", symptom="under / overflow of a member were not divided by its total along with the bins", diff=["underflow", "overflow"],
                             detail={"got": [float(x.underflow), float(x.overflow)], "expected": [wu, wo], "dtype_before": b["dtype"]})
        if not inplace:
            for x, b in zip(hs, before):
                if snap.diff(b, snap.snapshot(x)):
                    rec.fail(monitor="C06.identities", op="normalize_bins", symptom="copying collection normalisation modified a member", diff=["operand"], detail={})
    rec.case({"edges": e, "k": k, "tot": tot.tolist()}, k >= 2, cls=f"collection/{how}")


def narrow_total_case(ctx, index, rng: random.Random):
    """Compact integer contents whose bins fit the type while their sum does not: total, normalize() and division still use the true sum."""
    from physt.histogram1d import Histogram1D
    from physt.histogram_nd import Histogram2D

    rec = ctx.rec
    rec.mon("C06.identities")
    dt = rng.choice(["int16", "int32", "float16"])
    top = int(np.iinfo(dt).max) if dt != "float16" else 60000  # float16: every bin below 65504, the sum is not
    d = rng.choice([1, 1, 2])
    shape = [rng.randint(2, 6) for _ in range(d)]
    big = np.array([rng.choice([0, 1, top // 2, top - 1, top, rng.randint(0, top)]) for _ in range(int(np.prod(shape)))], dtype=dt).reshape(shape)
    edges = [np.array(gen.edges(rng, n)) for n in shape]
    exact = int(big.astype(np.float64).sum()) if dt == "float16" else int(big.astype(np.int64).sum())
    if dt == "float16":
        big = big.astype(np.float16)
        exact = float(big.astype(np.float64).sum())
    try:
        with warnings.catch_warnings():
            warnings.simplefilter("ignore")
            h = Histogram1D(edges[0], big.copy()) if d == 1 else Histogram2D(edges, big.copy())
            tot = h.total
            percent = rng.random() < 0.4
            n = h.normalize(percent=percent) if exact > 0 else None
            half = h / 2
    except Exception as e:
        rec.fail(monitor="C06.identities", op="narrow integer contents", symptom=f"total / normalize / division of compact integer contents raised {type(e).__name__}", diff=["raised"],
                 detail={"dtype": dt, "error": str(e)[:160], "contents": big.ravel()[:8]})
        return
    with attach.quiet():
        if (abs(float(tot) - exact) > 1e-3 * exact) if dt == "float16" else (float(tot) != float(exact)):
            rec.fail(monitor="C06.identities", op="total", symptom="total of compact integer contents is not the sum of the bins (wrapped around)", diff=["total"],
                     detail={"dtype": dt, "got": float(tot), "expected": exact})
        if n is not None:
            want = big.astype(float) / exact * (100 if percent else 1)
            if not np.allclose(np.asarray(n.frequencies, dtype=float), want, rtol=1e-12 if dt != "float16" else 4e-3, atol=0) or abs(float(n.total) - (100 if percent else 1)) > (1e-9 if dt != "float16" else 1e-2):
                rec.fail(monitor="C06.identities", op="normalize", symptom="normalize() of compact integer contents does not give total 1 (100) with unchanged proportions", diff=["frequencies"],
                         detail={"dtype": dt, "total_after": float(n.total), "got": np.asarray(n.frequencies).ravel()[:6], "expected": want.ravel()[:6]})
        if not np.array_equal(np.asarray(half.frequencies, dtype=float), big.astype(float) / 2):
            rec.fail(monitor="C06.identities", op="truediv", symptom="division of compact integer contents is not element-wise", diff=["frequencies"], detail={"dtype": dt})
        if not np.array_equal(np.asarray(h.frequencies), big):
            rec.fail(monitor="C06.identities", op="operand", symptom="operand modified", diff=["operand"], detail={})
    rec.case([dt, shape, big.ravel().tolist()], exact > top, cls=f"narrow_total/{dt}/{d}d")


def big_int_factor_case(ctx, index, rng: random.Random):
    """An integer factor whose square times the squared errors leaves int64 while contents, factor and scaled contents are ordinary
    numbers (a bin of a million entries times five million): the squared errors are c*c times the old ones - in whichever type - and
    (h*c)/c gives h back; they are not what is left after a wrap-around."""
    import physt

    rec = ctx.rec
    rec.mon("C06.identities")
    nb = rng.randint(1, 4)
    e = np.arange(nb + 1, dtype=float)
    nd = rng.random() < 0.25
    counts = [rng.choice([1_000_000, 250_000, 12, 3_000_000, 0]) for _ in range(nb)]
    if max(counts) < 1000:
        counts[0] = 1_000_000
    from physt.histogram1d import Histogram1D
    from physt.histogram_nd import Histogram2D

    if nd:
        b = physt.h2(None, None, [e, np.array([0.0, 1.0])])
        h = Histogram2D([x.copy() for x in b.binnings], frequencies=np.asarray(counts, dtype=np.int64).reshape(nb, 1))
    else:
        h = Histogram1D(physt.h1(None, e).binning.copy(), frequencies=np.asarray(counts, dtype=np.int64), underflow=rng.choice([0, 5]))
    base = rng.choice([5_000_000, 4_000_000, 10_000_000, 3_100_000])
    c = rng.choice([base, np.int64(base), np.int64(base)])
    form = rng.choice(["mul", "rmul", "imul"])
    with attach.quiet():
        f0 = np.asarray(h.frequencies, dtype=float).copy()
        e0 = np.asarray(h.errors2, dtype=float).copy()
    try:
        with warnings.catch_warnings():
            warnings.simplefilter("ignore")
            if form == "mul":
                r = h * c
            elif form == "rmul":
                r = c * h
            else:
                r = h.copy()
                r *= c
            back = r / c
    except Exception as ex:
        rec.fail(monitor="C06.identities", op=f"{form}/big_int", symptom=f"valid scaling raised {type(ex).__name__}", diff=["raised"], detail={"factor": repr(c), "counts": counts, "error": str(ex)[:160]})
        rec.case(["big_int", nd, counts, repr(c), form], True, cls="big_int_factor/raised")
        return
    with attach.quiet():
        f1, e1 = np.asarray(r.frequencies, dtype=float), np.asarray(r.errors2, dtype=float)
        if not np.array_equal(f1, f0 * float(base)):
            rec.fail(monitor="C06.identities", op=f"{form}/big_int", symptom="contents are not c times the old contents", diff=["frequencies"], detail={"factor": repr(c), "counts": counts})
        if not np.allclose(e1, e0 * float(base) ** 2, rtol=1e-12, atol=0):
            rec.fail(monitor="C06.identities", op=f"{form}/big_int", symptom="squared errors are not c*c times the old ones (products beyond int64 wrapped around)", diff=["errors2"],
                     detail={"factor": repr(c), "counts": counts, "want": (e0 * float(base) ** 2).ravel()[:4].tolist(), "got": e1.ravel()[:4].tolist(), "dtype": str(r.dtype)})
        fb, eb = np.asarray(back.frequencies, dtype=float), np.asarray(back.errors2, dtype=float)
        if not (np.allclose(fb, f0, rtol=1e-12, atol=0) and np.allclose(eb, e0, rtol=1e-12, atol=0)):
            rec.fail(monitor="C06.identities", op=f"{form}/big_int", symptom="(h*c)/c does not reproduce h", diff=["errors2"], detail={"factor": repr(c), "counts": counts, "got": eb.ravel()[:4].tolist()})
    rec.case(["big_int", nd, counts, repr(c), form], True, cls=f"big_int_factor/{'nd' if nd else '1d'}/{type(c).__name__}/{form}")


def overlapping_flows_case(ctx, index, rng: random.Random):
    """The refusals of the statement hold in this flow of control whatever another one has switched on: while a second thread (or a second
    asyncio task) is inside `enable_free_arithmetics()`, a negative factor / an array operand here is refused all the same."""
    import asyncio
    import threading

    import physt
    from physt.config import config

    rec = ctx.rec
    rec.mon("C06.scale.refusal")
    h = physt.h1(np.array([0.5, 1.5, 1.6, 2.5]), np.array([0.0, 1.0, 2.0, 3.0]))
    ops = {"mul_neg": lambda: h * -2, "rmul_neg": lambda: -2 * h, "div_neg": lambda: h / -2, "imul_neg": lambda: h.copy().__imul__(-2),
           "mul_array": lambda: h * np.array([1.0, 2.0, 3.0]), "div_array": lambda: h / np.array([1.0, 2.0, 4.0])}
    name = rng.choice(sorted(ops))
    how = rng.choice(["thread", "task"])
    accepted = []

    def attempt():
        try:
            with warnings.catch_warnings():
                warnings.simplefilter("ignore")
                ops[name]()
            accepted.append(name)
        except (ValueError, TypeError):
            pass

    if how == "thread":
        inside, done = threading.Event(), threading.Event()

        def other():
            with config.enable_free_arithmetics():
                inside.set()
                done.wait(5)

        t = threading.Thread(target=other)
        t.start()
        inside.wait(5)
        attempt()
        done.set()
        t.join(5)
    else:
        async def main():
            inside, done = asyncio.Event(), asyncio.Event()

            async def other():
                with config.enable_free_arithmetics():
                    inside.set()
                    await done.wait()

            task = asyncio.ensure_future(other())
            await inside.wait()
            attempt()
            done.set()
            await task

        asyncio.run(main())
    if accepted:
        rec.fail(monitor="C06.scale.refusal", op=name, symptom="a negative factor / array operand was accepted because another flow of control had free arithmetics enabled", diff=["not_refused"],
                 detail={"other_flow": how})
    attempt()
    if accepted:
        rec.fail(monitor="C06.scale.refusal", op=name, symptom="a negative factor / array operand was accepted after another flow of control left its free-arithmetics block", diff=["not_refused"], detail={"other_flow": how})
    rec.case(["flows", name, how], True, cls=f"overlapping_flows/{how}/{name}")


def far_scale_case(ctx, index, rng: random.Random):
    """Factors far from one (units: 1e150, 1e-150) whose square is still a float: the statistics a user reads - mean(), variance(),
    std() - stay those of the values, the recorded weight scales; and a scaling that is refused (a negative bin from free arithmetics,
    scaled outside of it) leaves the histogram as it was."""
    import physt
    from fractions import Fraction
    from physt.config import config

    rec = ctx.rec
    rec.mon("C06.scale.stats")
    if rng.random() < 0.35:
        # refused for its contents
        e = gen.edges(rng, rng.randint(2, 5))
        a = physt.h1(np.asarray(gen.data_for_bins(rng, gen.pairs_from_edges(e), 12)), np.array(e), dtype=rng.choice([None, "int32", "float64"]))
        b = physt.h1(np.asarray(gen.data_for_bins(rng, gen.pairs_from_edges(e), 25)), np.array(e), dtype=a.dtype)
        with config.enable_free_arithmetics():
            hneg = a - b
        with attach.quiet():
            has_negative = bool(np.any(np.asarray(hneg.frequencies) < 0))
            s0 = snap.snapshot(hneg)
        c = rng.choice([2, 0.5, 3.0, np.int64(2), np.float32(1.5)])
        form = rng.choice(["imul", "idiv"])
        raised = None
        try:
            with warnings.catch_warnings():
                warnings.simplefilter("ignore")
                if form == "imul":
                    hneg *= c
                else:
                    hneg /= c
        except Exception as ex:
            raised = ex
        with attach.quiet():
            dd = snap.diff(s0, snap.snapshot(hneg))
        if raised is not None and dd:
            rec.fail(monitor="C06.scale.stats", op=form, symptom="a refused in-place scaling changed the histogram", diff=sorted(dd),
                     detail={"factor": repr(c), "error": f"{type(raised).__name__}: {raised}"[:120], "frequencies": np.asarray(a.frequencies).tolist()[:6]})
        if has_negative and raised is None:
            # C19: negative contents exist only where free arithmetics is enabled - scaling them outside of it is refused (up front)
            rec.fail(prop="C19", monitor="C06.scale.stats", op=form, symptom="a histogram holding a negative bin was scaled although free arithmetics is off", diff=["not_refused"], detail={"factor": repr(c)})
        rec.case(["refused", s0["frequencies"], repr(c), form], has_negative and raised is not None, cls=f"refused_for_contents/{form}/{'raised' if raised is not None else 'accepted'}")
        return
    if rng.random() < 0.2:
        # a divisor whose reciprocal is not a float (subnormal): the contents are divided by it exactly, and so are the recorded sums
        c = rng.choice([1e-310, 5e-309, 3e-311])  # (the quotients of the sums stay below the largest float)
        vals = [rng.randint(1, 40) / 8 for _ in range(rng.randint(2, 12))]
        wts_ = np.full(len(vals), rng.choice([1e-12, 1e-10]))
        h = physt.h1(np.asarray(vals), np.array([0.0, 2.5, 6.0]), weights=wts_)
        try:
            with warnings.catch_warnings():
                warnings.simplefilter("ignore")
                with np.errstate(all="ignore"):
                    if rng.random() < 0.5:
                        g = h / c
                    else:
                        g = h.copy()
                        g /= c
        except Exception as ex:
            rec.fail(monitor="C06.scale.stats", op="div/subnormal", symptom=f"dividing by a finite positive scalar raised {type(ex).__name__}", diff=["raised"], detail={"factor": c, "error": str(ex)[:120]})
            return
        with attach.quiet():
            want_w = float(wts_.sum()) / c
            mean = sum(vals) / len(vals)
            got_w, got_m = float(g.statistics.weight), float(g.statistics.mean())
            if not (math.isfinite(want_w) and abs(got_w - want_w) <= 1e-9 * want_w and abs(got_m - mean) <= 1e-9 * abs(mean)):
                rec.fail(monitor="C06.scale.stats", op="div/subnormal", symptom="statistics weight / mean wrong after dividing by a scalar whose reciprocal is not a float", diff=["statistics"],
                         detail={"factor": c, "weight": got_w, "expected_weight": want_w, "mean": got_m, "expected_mean": mean})
        rec.case(["subnormal", vals, c], True, cls="far_scale/subnormal_divisor")
        return
    up = rng.random() < 0.5
    c = rng.choice([1e150, 1e149, 3e150]) if up else rng.choice([1e-150, 1e-149, 2.5e-150])
    mag = rng.choice([1e3, 1e4]) if up else rng.choice([1e-6, 1e-5])
    n = rng.randint(3, 30)
    data = [mag * rng.randint(-64, 64) / 8 for _ in range(n)]
    if len(set(data)) < 2:
        data[0] = data[0] + mag
    lo, hi = min(data), max(data)
    h = physt.h1(np.asarray(data), rng.randint(1, 6), range=(lo, hi + mag))
    fr = [Fraction(x) for x in data]
    mean = sum(fr) / n
    var = float(sum((x - mean) ** 2 for x in fr) / n)
    form = rng.choice(["mul", "rmul", "imul", "div", "idiv"])
    try:
        with warnings.catch_warnings():
            warnings.simplefilter("ignore")
            if form == "mul":
                g = h * c
            elif form == "rmul":
                g = c * h
            elif form == "imul":
                g = h.copy()
                g *= c
            elif form == "div":
                g = h / (1 / c)
            else:
                g = h.copy()
                g /= 1 / c
    except Exception as ex:
        rec.fail(monitor="C06.scale.stats", op=form, symptom=f"scaling by a finite positive factor raised {type(ex).__name__}", diff=["raised"], detail={"factor": c, "error": str(ex)[:120]})
        return
    with attach.quiet():
        try:
            got = {"mean": float(g.statistics.mean()), "variance": float(g.statistics.variance()), "std": float(g.statistics.std())}
        except Exception as ex:
            rec.fail(monitor="C06.scale.stats", op=form, symptom=f"reading the statistics of a scaled histogram raised {type(ex).__name__}", diff=["statistics"],
                     detail={"factor": c, "error": str(ex)[:120], "data": data[:6]})
            rec.case(["far", data, c, form], True, cls=f"far_scale/{'up' if up else 'down'}/{form}")
            return
    want = {"mean": float(mean), "variance": var, "std": math.sqrt(var)}
    size = {"mean": abs(float(mean)) + math.sqrt(var), "variance": var + float(mean) ** 2, "std": math.sqrt(var + float(mean) ** 2)}
    for k in ("mean", "variance", "std"):
        if not (abs(got[k] - want[k]) <= 1e-6 * size[k]):
            rec.fail(monitor="C06.scale.stats", op=form, symptom=f"statistics {k} not invariant under positive rescaling by a factor far from one", diff=["statistics"],
                     detail={"factor": c, "expected": want[k], "got": got[k], "data": data[:6], "n": n})
            break
    rec.case(["far", data, c, form], True, cls=f"far_scale/{'up' if up else 'down'}/{form}")


def run(ctx):
    attach_monitors()
    ctx.run_cases(ctx.scale(80, 500), far_scale_case, salt="far")
    ctx.run_cases(ctx.scale(24, 120), overlapping_flows_case, salt="flows")
    ctx.run_cases(ctx.scale(60, 300), big_int_factor_case, salt="bigint")
    ctx.run_cases(ctx.scale(40, 300), narrow_total_case, salt="narrow")
    ctx.run_cases(ctx.scale(500, 4000), one_case, salt="scale")
    ctx.run_cases(ctx.scale(100, 800), collection_case, salt="collection")
