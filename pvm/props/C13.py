"""C13 - content dtype is consistent and never loses information."""
from __future__ import annotations

import math
import random
import warnings

import numpy as np

from .. import attach, gen, model, snapshot as snap
from ..monitors import algebra
from ..world import World, attach_world

DECIDING_MONITORS = ["C13.world.dtype", "C13.rules", "C13.add.dtype", "C13.scale.dtype", "C13.set_dtype"]
PASSIVE_UNDER_TESTS = True
RULE = ("histories over all supported dtypes (int16/32/64, float16/32/64, long double) on 1D and 2D histograms: construct (with / "
        "without weights, explicit dtype), fill / fill_n with int or float weights, + / - / += / -= with a histogram of another dtype, "
        "* and / by python and numpy scalars, normalize, merge_bins, set_dtype with admissible and inadmissible targets, contents / squared errors assigned through the public setters in any element type, derived objects (accumulate, projection, T, selections, cumulative_frequencies); after every "
        "operation dtype == frequencies.dtype == errors2.dtype (world monitor), the dtype follows the rule for that operation, the "
        "values follow a float64 shadow (no truncation), set_dtype is accepted iff the reference rule admits it and a refusal changes "
        "nothing; non-trivial = history with >= 2 distinct content dtypes and >= 1 weighted fill or mixed-dtype arithmetic; "
        "distinct by hash of the operation log Plus `narrow_count_case`: int16 / int32 bins and missed counters close to the top of the type filled further (fill_n, fill, numpy integer weights, 1D and 2D) and contents / squared errors handed to the constructor that the content type cannot hold. `special_facade_case`: the construction rules through the seven facades of transformed histograms. `stated_missed_case`: non-integral underflow / overflow / inner_missed / missed handed to constructors, setters and documents of integer histograms (reported as given, or refused).")
ASSUMPTIONS = [
    "silent integer wrap-around inside numpy arithmetic is kept out of the histories (small contents for int16); where the library itself sums (merge, marginals, running sums, weights) compact contents near the type's maximum are generated",
    "values are compared with a float64 shadow within the precision of the narrowest dtype involved",
]

DTYPES = ["int16", "int32", "int64", "float16", "float32", "float64"]
if hasattr(np, "longdouble") and np.dtype(np.longdouble).itemsize > 8:
    DTYPES_ALL = DTYPES + ["longdouble"]
else:
    DTYPES_ALL = DTYPES


def _tol(*dtypes) -> float:
    eps = 2.3e-16
    for d in dtypes:
        d = np.dtype(d)
        if d.kind == "f":
            eps = max(eps, float(np.finfo(d).eps))
    return 16 * eps


def missed_values(h):
    """What the histogram recorded outside its bins, where it is a number (it changes type along with the bins)."""
    vals = [h.underflow, h.overflow, h.inner_missed] if hasattr(h, "underflow") else [h.missed]
    if not h.keep_missed and hasattr(h, "underflow"):
        # the three counters cannot be read one by one while the tracking is off: only "nothing recorded" can be judged
        try:
            if float(h.missed) != 0:
                return None
        except Exception:
            return None
        vals = []
    out = []
    for v in vals:
        try:
            v = np.longdouble(v)  # (extended-precision contents have extended-precision counters: a fraction below 1e-16 is one)
        except Exception:
            continue
        if not np.isnan(v):
            out.append(v)
    return out


def set_dtype_admissible(values_f, values_e, src, dst, missed=()) -> bool:
    """Reference rule of the statement: integer target -> everything integral and in range; any narrower target -> in range."""
    src, dst = np.dtype(src), np.dtype(dst)
    if src == dst or np.can_cast(src, dst):
        return True
    info = np.iinfo(dst) if dst.kind in "iu" else np.finfo(dst)
    for a in (values_f, values_e, list(missed)):
        a = np.asarray(a, dtype=np.longdouble)
        if dst.kind in "iu" and src.kind == "f" and np.any(a % 1):
            return False
        if a.size and (np.any(a > info.max) or np.any(a < info.min)):
            return False
    return True


def one_history(ctx, index, rng: random.Random):
    import physt

    rec = ctx.rec
    world: World = ctx.world
    world.clear()
    log = []
    d = rng.choice([1, 1, 2])
    edges = [np.array(gen.regular_edges(rng, rng.randint(2, 5))) for _ in range(d)]
    pairs = [gen.pairs_from_edges(e.tolist()) for e in edges]

    def data(n):
        cols = [gen.data_for_bins(rng, p, n, outside=True) for p in pairs]
        return np.array(cols, dtype=float).T.reshape(n, d)

    def make(dtype=None, weights=None, n=None):
        n = rng.randint(0, 12) if n is None else n
        rows = data(n)
        kw = {}
        if dtype is not None:
            kw["dtype"] = dtype
        if weights == "float":
            kw["weights"] = np.asarray([rng.randint(0, 12) / 4 for _ in range(n)], dtype=float)
        elif weights == "int":
            kw["weights"] = np.asarray([rng.randint(0, 4) for _ in range(n)], dtype=int)
        if d == 1:
            return physt.h1(rows[:, 0], edges[0].copy(), **kw), kw
        return physt.h(rows, [e.copy() for e in edges], **kw), kw

    seen = set()
    weighted_or_mixed = False
    # --- construction rules -----------------------------------------------------------------
    rec.mon("C13.rules")
    dt = rng.choice([None, None] + DTYPES_ALL)
    wk = rng.choice([None, None, "int", "float"])
    must_refuse = dt is not None and np.dtype(dt).kind in "iu" and wk == "float"
    try:
        h, kw = make(dt, wk, n=rng.randint(1, 12) if must_refuse else None)
        if must_refuse:
            rec.fail(monitor="C13.rules", op="construct", symptom="integer histogram with float weights was not refused", diff=["not_refused"],
                     detail={"dim": d, "dtype": dt})
            return
    except Exception as e:
        if not must_refuse:
            rec.fail(monitor="C13.rules", op="construct", symptom=f"valid dtype / weights combination refused: {type(e).__name__}", diff=["raised"],
                     detail={"dim": d, "dtype": dt, "weights": wk, "error": str(e)[:160]})
        rec.case(["refused", d, dt, wk], must_refuse, cls=f"construct_refused/{d}d")
        return
    log.append(f"construct {d}d dtype={dt} weights={wk} -> {h.dtype}")
    got = np.dtype(h.dtype)
    if dt is not None and got != np.dtype(dt):
        rec.fail(monitor="C13.rules", op="construct", symptom="requested dtype not honoured", diff=["dtype"], detail={"requested": dt, "got": str(got), "dim": d})
    if dt is None and wk in (None, "int") and got.kind not in "iu":
        rec.fail(monitor="C13.rules", op="construct", symptom="unweighted / integer-weighted counting did not stay in an integer type", diff=["dtype"], detail={"got": str(got)})
    if dt is None and wk == "float" and got.kind != "f":
        rec.fail(monitor="C13.rules", op="construct", symptom="float weights did not give a float histogram", diff=["dtype"], detail={"got": str(got)})
    world.register(h)
    seen.add(str(got))
    # float64 shadow of the numeric state
    def shadow_of(x):
        return np.asarray(x.frequencies, dtype=np.float64).copy(), np.asarray(x.errors2, dtype=np.float64).copy()

    steps = rng.randint(3, 10 if ctx.quick else 20)
    for _ in range(steps):
        op = rng.choice(["fill_int", "fill_float", "fill_n_int", "fill_n_float", "fill_n_none", "add", "sub", "iadd", "isub", "mul", "div",
                         "normalize", "merge", "set_dtype", "set_dtype", "copy", "assign", "derive", "set_dtype_signed", "free_sub"])
        before_dtype = np.dtype(h.dtype)
        f0, e0 = shadow_of(h)
        rec.mon("C13.rules")
        try:
            with warnings.catch_warnings():
                warnings.simplefilter("ignore")
                if op in ("fill_int", "fill_float"):
                    v = data(1)[0]
                    w = rng.choice([1, 2, 3]) if op == "fill_int" else rng.choice([0.5, 1.25, 2.75, np.float32(0.5), np.float64(1.5)])
                    if before_dtype == np.dtype("int16") and float(f0.max(initial=0)) > 1000:
                        continue
                    ix = h.fill(float(v[0]) if d == 1 else v, w)
                    weighted_or_mixed = weighted_or_mixed or op == "fill_float"
                    after = np.dtype(h.dtype)
                    if op == "fill_float" and after.kind != "f":
                        rec.fail(monitor="C13.rules", op=op, symptom="fill with a float weight did not promote an integer histogram to float", diff=["dtype"],
                                 detail={"before": str(before_dtype), "after": str(after), "weight": repr(w), "log": log[-6:]})
                    if op == "fill_int" and before_dtype.kind in "iu" and after.kind not in "iu":
                        rec.fail(monitor="C13.rules", op=op, symptom="fill with an integer weight left the integer types", diff=["dtype"],
                                 detail={"before": str(before_dtype), "after": str(after), "log": log[-6:]})
                    # value not truncated
                    f1, e1 = shadow_of(h)
                    if f1.shape == f0.shape:
                        delta = float((f1 - f0).sum())
                        inside = ix is not None and (ix not in (-1, len(pairs[0])) if d == 1 else True)
                        if inside and abs(delta - float(w)) > _tol(before_dtype, after) * (abs(float(w)) + float(np.abs(f0).max(initial=0))):
                            rec.fail(monitor="C13.rules", op=op, symptom="weight was truncated / lost when entering it", diff=["frequencies"],
                                     detail={"weight": repr(w), "delta": delta, "before": str(before_dtype), "after": str(after), "log": log[-6:]})
                elif op.startswith("fill_n"):
                    n = rng.randint(0, 6)
                    rows = data(n)
                    ws = None
                    if op == "fill_n_int":
                        ws = np.asarray([rng.randint(0, 3) for _ in range(n)], dtype=rng.choice([np.int64, np.int32]))
                    elif op == "fill_n_float":
                        ws = np.asarray([rng.randint(1, 11) / 4 for _ in range(n)], dtype=rng.choice([np.float64, np.float32]))
                    if before_dtype == np.dtype("int16") and float(f0.max(initial=0)) > 1000:
                        continue
                    h.fill_n(rows[:, 0] if d == 1 else rows, ws)
                    after = np.dtype(h.dtype)
                    weighted_or_mixed = weighted_or_mixed or (op == "fill_n_float" and n > 0)
                    if op == "fill_n_float" and n > 0 and after.kind != "f":
                        rec.fail(monitor="C13.rules", op=op, symptom="fill_n with float weights did not promote an integer histogram to float", diff=["dtype"],
                                 detail={"before": str(before_dtype), "after": str(after), "log": log[-6:]})
                    if op != "fill_n_float" and before_dtype.kind in "iu" and after.kind not in "iu":
                        rec.fail(monitor="C13.rules", op=op, symptom="fill_n with integer / no weights left the integer types", diff=["dtype"],
                                 detail={"before": str(before_dtype), "after": str(after), "log": log[-6:]})
                    f1, e1 = shadow_of(h)
                    fin_in = 0.0
                    if n:
                        bins = [np.asarray(p) for p in pairs]
                        shape, ff, ee, missed, total, nanw, st = model.bin_nd(bins, [True] * d if d == 1 else [bool(b.includes_right_edge) for b in h.binnings], rows, ws)
                        fin_in = float(total - missed)
                    delta = float((f1 - f0).sum()) if f1.shape == f0.shape else None
                    if delta is not None and abs(delta - fin_in) > _tol(before_dtype, after) * (abs(fin_in) + float(np.abs(f0).sum()) + 1):
                        rec.fail(monitor="C13.rules", op=op, symptom="weights were truncated / lost when entering a batch", diff=["frequencies"],
                                 detail={"expected_delta": fin_in, "delta": delta, "before": str(before_dtype), "after": str(after), "log": log[-6:]})
                elif op in ("add", "sub", "iadd", "isub"):
                    odt = rng.choice(DTYPES)
                    owk = rng.choice([None, "float"]) if np.dtype(odt).kind == "f" else rng.choice([None, "int"])
                    o, _ = make(odt, owk, n=rng.randint(0, 6))
                    world.register(o)
                    if op in ("sub", "isub"):
                        o = o * 0  # never more than is there; keeps the other dtype
                        if np.dtype(o.dtype) != np.dtype(odt):
                            o.set_dtype(odt)
                    weighted_or_mixed = weighted_or_mixed or np.dtype(o.dtype) != before_dtype
                    if op == "add":
                        h = h + o if rng.random() < 0.6 else o + h
                    elif op in ("sub", "isub") and rng.random() < 0.3:
                        # the same subtraction while free arithmetics is on: the type rule does not depend on the switch
                        from physt.config import config as _cfg

                        with _cfg.enable_free_arithmetics():
                            if op == "sub":
                                h = h - o
                            else:
                                h -= o
                    elif op == "sub":
                        h = h - o
                    elif op == "iadd":
                        h += o
                    else:
                        h -= o
                    world.register(h)
                    # dtype rule itself is evaluated by the per-call monitor (C13.add.dtype)
                elif op == "mul":
                    c = rng.choice([2, 3, 0.5, 1.5, np.float32(0.5), np.int64(2), np.float64(2.5), np.int16(2)])
                    if before_dtype.kind in "iu" and float(f0.max(initial=0)) * float(c) > 3000:
                        continue
                    h = h * c if rng.random() < 0.5 else c * h
                    world.register(h)
                elif op == "div":
                    h = h / rng.choice([2, 4.0, np.float32(2.0), np.int64(2)])
                    world.register(h)
                elif op == "normalize":
                    if h.total > 0:
                        h = h.normalize()
                        world.register(h)
                        if np.dtype(h.dtype).kind != "f":
                            rec.fail(monitor="C13.rules", op=op, symptom="normalize did not give a float histogram", diff=["dtype"], detail={"after": str(h.dtype)})
                elif op == "merge":
                    with attach.quiet():
                        pre_f_, pre_e_ = np.asarray(h.frequencies, dtype=np.float64).copy(), np.asarray(h.errors2, dtype=np.float64).copy()
                    h = h.merge_bins(2)
                    world.register(h)
                    if np.dtype(h.dtype) != before_dtype:
                        # the sums of merged bins may not fit a compact content type: then, and only then, the type is widened losslessly
                        # (all axes are merged one after the other: an intermediate stage may be what did not fit)
                        from ..monitors.structure import merge_all_axes_widening_justified, merge_widening_justified

                        if not (merge_widening_justified(before_dtype, h.dtype, h.frequencies, h.errors2)
                                or merge_all_axes_widening_justified(before_dtype, h.dtype, pre_f_, pre_e_, 2)):
                            rec.fail(monitor="C13.rules", op=op, symptom="merge_bins changed the dtype", diff=["dtype"], detail={"before": str(before_dtype), "after": str(h.dtype)})
                    pairs = [np.asarray(b).tolist() for b in ([h.bins] if d == 1 else h.bins)]
                elif op == "copy":
                    c = h.copy()
                    if np.dtype(c.dtype) != before_dtype:
                        rec.fail(monitor="C13.rules", op=op, symptom="copy changed the dtype", diff=["dtype"], detail={"before": str(before_dtype), "after": str(c.dtype)})
                    h = c
                    world.register(h)
                elif op == "assign":
                    # contents / squared errors assigned through the public setters, in an element type of the caller's choosing
                    which = rng.choice(["frequencies", "errors2"])
                    adt = rng.choice(DTYPES_ALL)
                    cur = np.asarray(getattr(h, which), dtype=np.float64)
                    vals = np.floor(np.clip(np.nan_to_num(cur, nan=0.0, posinf=100.0), 0, 100)) + (rng.choice([0.0, 0.5]) if np.dtype(adt).kind == "f" else 0)
                    new = vals.astype(adt) if rng.random() < 0.8 else (vals.astype(adt).tolist())
                    setattr(h, which, new)
                    adt_eff = np.asarray(new).dtype
                    after = np.dtype(h.dtype)
                    with attach.quiet():
                        probs = snap.dtype_problems(h)
                        got = np.asarray(getattr(h, which), dtype=np.float64)
                    if probs:
                        rec.fail(monitor="C13.rules", op=f"{which} = <{adt_eff}>", symptom="reported dtype is not the element type of frequencies / errors2 after an assignment",
                                 diff=["dtype"], detail={"problems": probs, "before": str(before_dtype), "assigned": str(adt_eff), "log": log[-6:]})
                    elif not np.array_equal(got, np.asarray(new, dtype=np.float64)):
                        rec.fail(monitor="C13.rules", op=f"{which} = <{adt_eff}>", symptom="assigned values were truncated / changed", diff=[which],
                                 detail={"assigned": np.asarray(new, dtype=float).ravel()[:8], "got": got.ravel()[:8], "before": str(before_dtype)})
                    elif after != np.promote_types(before_dtype, adt_eff) and after != adt_eff and after != before_dtype:
                        rec.fail(monitor="C13.rules", op=f"{which} = <{adt_eff}>", symptom="dtype after an assignment is neither operand type nor their numpy promotion", diff=["dtype"],
                                 detail={"before": str(before_dtype), "assigned": str(adt_eff), "after": str(after)})
                elif op == "derive":
                    # objects derived from the histogram report their own element type as well
                    how = rng.choice(["accumulate", "projection", "T", "index", "cumulative"] if d > 1 else ["index", "slice", "cumulative"])
                    if how == "accumulate":
                        g = h.accumulate(rng.randrange(d))
                    elif how == "projection":
                        g = h.projection(rng.randrange(d))
                    elif how == "T":
                        g = h.T
                    elif how == "index":
                        g = h[rng.randrange(h.shape[0])] if d > 1 else h[: max(1, h.shape[0] - 1)]
                    elif how == "slice":
                        g = h[1:] if h.shape[0] > 1 else h[:]
                    else:
                        g = None
                        if d == 1:
                            c = np.asarray(h.cumulative_frequencies, dtype=np.float64)
                            if before_dtype.kind in "iu" and not np.array_equal(c, np.cumsum(f0)):
                                rec.fail(monitor="C13.rules", op="cumulative_frequencies", symptom="running sums wrapped around / differ from the exact sums", diff=["cumulative_frequencies"],
                                         detail={"dtype": str(before_dtype), "got": c[:8], "expected": np.cumsum(f0)[:8]})
                    if g is not None and hasattr(g, "frequencies"):
                        with attach.quiet():
                            probs = snap.dtype_problems(g)
                            gf = np.asarray(g.frequencies, dtype=np.float64)
                        if probs:
                            rec.fail(monitor="C13.rules", op=how, symptom="reported dtype of a derived histogram is not the element type of its frequencies / errors2",
                                     diff=["dtype"], detail={"problems": probs, "parent": str(before_dtype), "log": log[-6:]})
                        if how == "accumulate" and before_dtype.kind in "iu" and not np.array_equal(gf, np.cumsum(f0, axis=0)) and not np.array_equal(gf, np.cumsum(f0, axis=1)):
                            rec.fail(monitor="C13.rules", op=how, symptom="running sums wrapped around / differ from the exact sums", diff=["frequencies"], detail={"parent": str(before_dtype)})
                        if how == "projection" and before_dtype.kind in "iu" and float(gf.sum()) != float(f0.sum()):
                            rec.fail(monitor="C13.rules", op=how, symptom="marginal sums wrapped around / differ from the exact sums", diff=["frequencies"], detail={"parent": str(before_dtype)})
                    continue
                elif op == "free_sub":
                    # subtraction between narrow content types while free arithmetics is on: numpy's promotion, as without the switch
                    from physt.config import config as _cfg

                    da_, db_ = rng.sample(["int16", "int32", "int64", "float16", "float32", "float64"], 2)
                    a_, _ = make(da_, None, n=rng.randint(1, 6))
                    b_, _ = make(db_, None, n=rng.randint(1, 6))
                    with _cfg.enable_free_arithmetics():
                        if rng.random() < 0.5:
                            r_ = a_ - b_
                        else:
                            r_ = a_.copy()
                            r_ -= b_
                    want_ = np.promote_types(da_, db_)
                    if np.dtype(r_.dtype) != want_ or snap.dtype_problems(r_):
                        rec.fail(monitor="C13.rules", op=f"{da_} - {db_} (free arithmetics)", symptom="dtype of a difference is not numpy's type promotion of the operands", diff=["dtype"],
                                 detail={"a": da_, "b": db_, "result": str(r_.dtype), "expected": str(want_)})
                    continue
                elif op == "set_dtype_signed":
                    # negative contents (made under free arithmetics) and unsigned targets: "within that type's range" has a lower end as well
                    from physt.config import config as _cfg

                    rec.mon("C13.set_dtype")
                    hn = h.copy()
                    negative = rng.random() < 0.7 and float(f0.sum()) > 0
                    if negative:
                        with _cfg.enable_free_arithmetics():
                            hn *= -1
                            hn.errors2 = np.abs(np.asarray(hn.frequencies))  # keep the squared errors small: only the sign decides
                    target = rng.choice(["uint8", "uint16", "uint32", "uint64", "int16", "int32", "int64"])
                    src_dt = np.dtype(hn.dtype)
                    mv_ = missed_values(hn)
                    if mv_ is None:
                        rec.skip("C13.set_dtype", "untracked_counters")
                        continue
                    ok = set_dtype_admissible(hn.frequencies, hn.errors2, src_dt, target, mv_)
                    with attach.quiet():
                        s_before = snap.snapshot(hn)
                    raised = None
                    try:
                        hn.set_dtype(target)
                    except Exception as ex:
                        raised = ex
                    with attach.quiet():
                        s_after = snap.snapshot(hn)
                    if ok and raised is not None:
                        rec.fail(monitor="C13.set_dtype", op="set_dtype", symptom=f"admissible dtype change refused: {type(raised).__name__}", diff=["raised"],
                                 detail={"from": str(src_dt), "to": target, "negative": negative, "error": str(raised)[:120]})
                    elif not ok and raised is None:
                        rec.fail(monitor="C13.set_dtype", op="set_dtype", symptom="lossy dtype change accepted (values below the target type's range wrapped around)",
                                 diff=["not_refused"], detail={"from": str(src_dt), "to": target, "negative": negative, "before": np.asarray(s_before["frequencies"][2] if False else hn.frequencies).ravel()[:6]})
                    elif raised is not None and snap.diff(s_before, s_after):
                        rec.fail(monitor="C13.set_dtype", op="set_dtype", symptom="a refused dtype change modified the histogram", diff=sorted(snap.diff(s_before, s_after)), detail={"to": target})
                    elif raised is None:
                        b = snap.arr_values(s_before["frequencies"]).astype(np.float64)
                        a = snap.arr_values(s_after["frequencies"]).astype(np.float64)
                        if not np.array_equal(a, b, equal_nan=True) or np.dtype(hn.dtype) != np.dtype(target):
                            rec.fail(monitor="C13.set_dtype", op="set_dtype", symptom="values changed by an accepted dtype change", diff=["frequencies"],
                                     detail={"from": str(src_dt), "to": target, "before": b.ravel()[:6], "after": a.ravel()[:6]})
                    continue
                elif op == "set_dtype":
                    rec.mon("C13.set_dtype")
                    target = rng.choice(DTYPES_ALL)
                    if rng.random() < 0.12 and np.dtype(h.dtype).kind == "f" and h.frequencies.size:
                        # "unknown" (NaN) contents are neither integral nor in range: an integer dtype must be refused
                        fr = np.asarray(h.frequencies, dtype=h.dtype).copy()
                        fr.flat[rng.randrange(fr.size)] = np.nan
                        try:
                            h.frequencies = fr
                        except Exception:
                            pass
                        f0, e0 = shadow_of(h)
                    if rng.random() < 0.1 and np.dtype(h.dtype).kind == "f" and h.frequencies.size and target in ("int16", "int32", "int64"):
                        # a content exactly one above the target's largest value (2**15, 2**31, 2**63 are exact floats): out of range
                        bits_ = {"int16": 15, "int32": 31, "int64": 63}[target]
                        if float(2.0**bits_) <= float(np.finfo(np.dtype(h.dtype)).max):
                            fr = np.asarray(h.frequencies, dtype=h.dtype).copy()
                            fr.flat[rng.randrange(fr.size)] = 2.0**bits_
                            try:
                                h.frequencies = fr
                                h.errors2 = np.ones(h.shape, dtype=h.dtype)
                            except Exception:
                                pass
                            f0, e0 = shadow_of(h)
                            before_dtype = np.dtype(h.dtype)
                    if rng.random() < 0.3 and h.total < 1e6:
                        h *= rng.choice([1000, 40000])  # make range refusals reachable
                        if rng.random() < 0.5:
                            # contents out of range while the (custom) squared errors still fit, and the other way round
                            h.errors2 = np.ones(h.shape, dtype=h.dtype)
                        f0, e0 = shadow_of(h)
                        before_dtype = np.dtype(h.dtype)
                    if d == 1 and h.keep_missed and rng.random() < 0.25 and float(h.underflow) == float(h.underflow):
                        # the bins fit the target, what was recorded below them need not (or is not a whole number)
                        try:
                            h.underflow = rng.choice([40000, 3_000_000_000, 7]) if np.dtype(h.dtype).kind in "iu" else rng.choice([0.5, 40000.0, 2.0])
                        except Exception:
                            pass
                    with attach.quiet():
                        s_before = snap.snapshot(h)
                    mv_ = missed_values(h)
                    if mv_ is None:
                        rec.skip("C13.set_dtype", "untracked_counters")
                        continue
                    ok = set_dtype_admissible(h.frequencies, h.errors2, before_dtype, target, mv_)
                    raised = None
                    try:
                        if rng.random() < 0.5:
                            h.set_dtype(target)
                        else:
                            h.dtype = target
                    except Exception as ex:
                        raised = ex
                    with attach.quiet():
                        s_after = snap.snapshot(h)
                    if ok and raised is not None:
                        rec.fail(monitor="C13.set_dtype", op="set_dtype", symptom=f"admissible dtype change refused: {type(raised).__name__}", diff=["raised"],
                                 detail={"from": str(before_dtype), "to": target, "error": str(raised)[:120], "max": float(f0.max(initial=0)), "log": log[-6:]})
                    elif not ok and raised is None:
                        rec.fail(monitor="C13.set_dtype", op="set_dtype", symptom="lossy dtype change accepted (non-integral values or values outside the target range)",
                                 diff=["not_refused"], detail={"from": str(before_dtype), "to": target, "frequencies": f0.ravel()[:8], "errors2": e0.ravel()[:8], "log": log[-6:]})
                    elif raised is not None:
                        dd = snap.diff(s_before, s_after)
                        if dd:
                            rec.fail(monitor="C13.set_dtype", op="set_dtype", symptom="a refused dtype change modified the histogram", diff=sorted(dd), detail={"to": target})
                    else:
                        if np.dtype(h.dtype) != np.dtype(target):
                            rec.fail(monitor="C13.set_dtype", op="set_dtype", symptom="accepted dtype change did not take effect", diff=["dtype"], detail={"to": target, "got": str(h.dtype)})
                        f1, e1 = shadow_of(h)
                        tol = _tol(target, before_dtype)
                        # values below the smallest normal number of a narrower float type may round to subnormals / zero (in range, allowed)
                        atol = float(np.finfo(np.dtype(target)).tiny) if np.dtype(target).kind == "f" else 0.0
                        if not (np.allclose(f1, f0, rtol=tol, atol=atol, equal_nan=True) and np.allclose(e1, e0, rtol=tol, atol=atol, equal_nan=True)):
                            rec.fail(monitor="C13.set_dtype", op="set_dtype", symptom="values changed by an accepted dtype change", diff=["frequencies", "errors2"],
                                     detail={"from": str(before_dtype), "to": target, "before": f0.ravel()[:8], "after": f1.ravel()[:8]})
        except Exception as ex:
            log.append(f"{op} raised {type(ex).__name__}: {str(ex)[:50]}")
            continue
        log.append(f"{op} -> {h.dtype}")
        seen.add(str(np.dtype(h.dtype)))
        # values follow the shadow for the arithmetic ops (scale / add are checked element-wise by the algebra monitors)
    nontrivial = len(seen) >= 2 and weighted_or_mixed
    rec.case(log, nontrivial, cls=f"{d}d/{len(seen)}dtypes", sample={"log": log[:14], "dtypes": sorted(seen)})


def narrow_count_case(ctx, index, rng: random.Random):
    """Counting into a compact integer content type (int16 / int32) whose bins are close to the top of the type: further fills either
    widen the type or keep the exact counts - they never wrap around; contents and squared errors handed to the constructor are kept as
    they are (promoting the type) or refused - never truncated or wrapped."""
    import physt
    from physt.histogram1d import Histogram1D
    from physt.histogram_nd import Histogram2D

    rec = ctx.rec
    rec.mon("C13.rules")
    if rng.random() < 0.35:
        # constructor: given contents / squared errors that are not numbers of the (given or implied) content type
        edges = np.array([0.0, 1.0, 2.0])
        which = rng.choice(["errors2_fraction", "errors2_too_big", "frequencies_fraction_int_dtype"])
        try:
            with warnings.catch_warnings():
                warnings.simplefilter("ignore")
                if which == "errors2_fraction":
                    given_f, given_e = [1, 2], [0.25, rng.choice([0.5, 1.75])]
                    h = Histogram1D(edges, np.array(given_f), errors2=np.array(given_e))
                elif which == "errors2_too_big":
                    given_f, given_e = [100, 265], [10000, 70225]
                    h = Histogram1D(edges, np.array(given_f, dtype=np.int16), errors2=np.array(given_e))
                else:
                    given_f, given_e = [1.5, 2.5], [1.5, 2.5]
                    h = Histogram1D(edges, np.array(given_f), dtype=rng.choice([np.int64, "int32"]))
        except (ValueError, OverflowError, TypeError):
            rec.case(["ctor", which], True, cls=f"narrow/ctor/{which}/refused")
            return
        except Exception as ex:
            rec.fail(monitor="C13.rules", op=f"constructor/{which}", symptom=f"the constructor raised {type(ex).__name__} (neither a result nor a refusal)", diff=["raised"], detail={"error": str(ex)[:140]})
            return
        with attach.quiet():
            gf, ge = np.asarray(h.frequencies, dtype=float), np.asarray(h.errors2, dtype=float)
            if not (np.array_equal(gf, np.asarray(given_f, dtype=float)) and np.array_equal(ge, np.asarray(given_e, dtype=float))):
                rec.fail(monitor="C13.rules", op=f"constructor/{which}", symptom="contents / squared errors given to the constructor were truncated or wrapped into the content type", diff=["frequencies", "errors2"],
                         detail={"given": [given_f, given_e], "stored": [gf.tolist(), ge.tolist()], "dtype": str(h.dtype)})
            for pr in snap.dtype_problems(h):
                rec.fail(monitor="C13.rules", op=f"constructor/{which}", symptom=pr, diff=["dtype"], detail={})
        rec.case(["ctor", which], True, cls=f"narrow/ctor/{which}/{np.dtype(h.dtype)}")
        return
    if rng.random() < 0.1 and np.finfo(np.longdouble).eps < np.finfo(np.float64).eps:
        # extended-precision weights promote the histogram to that type (numpy's promotion) and are summed in it: what float64 would round
        # away stays
        from physt.binnings import NumpyBinning

        tiny = np.longdouble(2) ** -60
        w = np.array([1 + tiny, 2, 1 + 2 * tiny][: rng.randint(2, 3)], dtype=np.longdouble)
        x = np.array([0.5, 0.6, 0.7][: len(w)])
        ed = np.array([0.0, 1.0, 2.0])
        how = rng.choice(["h1", "fill_n", "from_calculate_frequencies"])
        try:
            with warnings.catch_warnings():
                warnings.simplefilter("ignore")
                if how == "h1":
                    h = physt.h1(x, ed, weights=w)
                elif how == "fill_n":
                    h = physt.h1(None, ed, dtype=np.longdouble)
                    h.fill_n(x, weights=w)
                else:
                    h = Histogram1D.from_calculate_frequencies(x, NumpyBinning(ed), weights=w)
        except Exception as ex:
            rec.fail(monitor="C13.rules", op=how, symptom=f"extended-precision weights raised {type(ex).__name__}", diff=["raised"], detail={"error": str(ex)[:140]})
            return
        with attach.quiet():
            want = w.sum()
            got = np.asarray(h.frequencies)[0]
            if np.dtype(h.dtype) != np.dtype(np.longdouble) or np.longdouble(got) != want:
                rec.fail(monitor="C13.rules", op=how, symptom="extended-precision weights were narrowed (dtype is not numpy's promotion, or the sum lost what float64 cannot hold)", diff=["dtype", "frequencies"],
                         detail={"dtype": str(h.dtype), "lost": float(np.longdouble(got) - want)})
        rec.case(["longdouble_weights", how, len(w)], True, cls=f"narrow/longdouble_weights/{how}")
        return
    if rng.random() < 0.15:
        # sums below the *lower* end of a compact integer type (negative contents are legal under free arithmetics; exact templates
        # carry squared errors of zero): the sum is exact, the type widens
        from physt.config import config

        dt = rng.choice(["int16", "int32"])
        low = int(np.iinfo(dt).min)
        val = low // 2 - rng.randint(1, 50)
        ed = np.array([0.0, 1.0, 2.0])
        form = rng.choice(["a+b", "a+=b", "a-b", "sum"])
        try:
            with config.enable_free_arithmetics(), warnings.catch_warnings():
                warnings.simplefilter("ignore")
                a = Histogram1D(ed, np.array([val, 3], dtype=dt), errors2=np.array([0, 3], dtype=dt))
                b = Histogram1D(ed, np.array([val if form != "a-b" else -val, 3], dtype=dt), errors2=np.array([0, 3], dtype=dt))
                if form == "a+b":
                    r = a + b
                elif form == "a+=b":
                    r = a.copy()
                    r += b
                elif form == "a-b":
                    r = a - b
                else:
                    r = sum([a, b])
        except (OverflowError, ValueError):
            rec.case(["negative_sum", dt, form], True, cls=f"narrow/negative_sum/{dt}/{form}/refused")
            return
        except Exception as ex:
            rec.fail(monitor="C13.rules", op=form, symptom=f"adding compact integer histograms raised {type(ex).__name__}", diff=["raised"], detail={"error": str(ex)[:140], "dtype": dt})
            return
        with attach.quiet():
            got = int(np.asarray(r.frequencies)[0])
            if got != 2 * val:
                rec.fail(monitor="C13.rules", op=form, symptom="a sum below the lower end of a compact integer type wrapped around instead of widening the content type", diff=["frequencies"],
                         detail={"dtype_before": dt, "dtype_after": str(r.dtype), "got": got, "expected": 2 * val})
            for pr in snap.dtype_problems(r):
                rec.fail(monitor="C13.rules", op=form, symptom=pr, diff=["dtype"], detail={})
        rec.case(["negative_sum", dt, form], True, cls=f"narrow/negative_sum/{dt}/{form}/{np.dtype(r.dtype)}")
        return
    dt = rng.choice(["int16", "int32"])
    top = int(np.iinfo(dt).max)
    d = rng.choice([1, 1, 2])
    start = top - rng.randint(0, 40)
    k = rng.randint(1, 80)
    how = rng.choice(["fill_n", "fill_n", "fill", "fill_numpy_weight", "fill_n_int_weights", "fill_n_outside"])
    if how == "fill_n_outside":
        # the counter of missed values is what comes close to the top of the type: a batch with values inside and outside is booked as a
        # whole (widening the type) or refused as a whole
        try:
            if d == 1:
                h = Histogram1D(np.array([0.0, 1.0, 2.0]), np.array([5, 3], dtype=dt), overflow=start)
                pts = np.concatenate([np.full(k, 7.5), np.full(4, 0.5)])
            else:
                h = Histogram2D([np.array([0.0, 1.0, 2.0]), np.array([0.0, 1.0])], np.array([[5], [3]], dtype=dt), missed=start)
                pts = np.concatenate([np.full((k, 2), 7.5), np.full((4, 2), 0.5)])
            with attach.quiet():
                s_before = snap.snapshot(h)
            raised = None
            try:
                with warnings.catch_warnings():
                    warnings.simplefilter("ignore")
                    h.fill_n(pts)
            except Exception as ex:
                raised = ex
            with attach.quiet():
                f = np.asarray(h.frequencies).ravel()
                missed_now = float(h.overflow) if d == 1 else float(h.missed)
                if raised is not None:
                    rec.mon("C18.world.atomicity")
                    dd = snap.diff(s_before, snap.snapshot(h), ignore=("dtype",))
                    if dd:
                        rec.fail(prop="C18", monitor="C18.world.atomicity", op=how, symptom=f"fill_n raised {type(raised).__name__} after part of the batch had been booked", diff=sorted(dd),
                                 detail={"dtype": dt, "dim": d, "error": str(raised)[:120], "frequencies": f.tolist(), "missed": missed_now})
                elif int(f[0]) != 9 or missed_now != start + k:
                    rec.fail(monitor="C13.rules", op=how, symptom="counts added to a compact integer histogram wrapped around (or were lost) instead of widening the content type", diff=["frequencies", "missed"],
                             detail={"dtype_before": dt, "dtype_after": str(h.dtype), "start": start, "added": k, "frequencies": f.tolist(), "missed": missed_now, "dim": d})
        except Exception as ex:
            rec.monitor_error("C13.narrow_count_case", ex)
            return
        rec.case(["narrow", dt, d, start, k, how], start + k > top, cls=f"narrow/{dt}/{d}d/{how}/{'raised' if raised is not None else np.dtype(h.dtype)}")
        return
    try:
        if d == 1:
            h = Histogram1D(np.array([0.0, 1.0, 2.0]), np.array([start, 3], dtype=dt))
            pts = np.full(k, 0.5)
        else:
            h = Histogram2D([np.array([0.0, 1.0, 2.0]), np.array([0.0, 1.0])], np.array([[start], [3]], dtype=dt))
            pts = np.full((k, 2), 0.5)
        added = k
        with warnings.catch_warnings():
            warnings.simplefilter("ignore")
            if how == "fill_n":
                h.fill_n(pts)
            elif how == "fill_n_int_weights":
                h.fill_n(pts, weights=np.ones(k, dtype=rng.choice([np.int16, np.int32, np.int64])))
            elif how == "fill":
                for p_ in pts:
                    h.fill(float(p_) if d == 1 else p_)
            else:
                for p_ in pts:
                    h.fill(float(p_) if d == 1 else p_, np.dtype(dt).type(1))
    except (OverflowError, ValueError) as ex:
        rec.case(["narrow", dt, d, start, k, how], True, cls=f"narrow/{dt}/{d}d/{how}/refused")
        return
    except Exception as ex:
        rec.fail(monitor="C13.rules", op=how, symptom=f"counting into a compact integer histogram raised {type(ex).__name__}", diff=["raised"], detail={"error": str(ex)[:140], "dtype": dt})
        return
    with attach.quiet():
        f = np.asarray(h.frequencies).ravel()
        e = np.asarray(h.errors2).ravel()
        want = start + added
        if int(f[0]) != want or int(e[0]) != want or int(f[1]) != 3:
            rec.fail(monitor="C13.rules", op=how, symptom="counts added to a compact integer histogram wrapped around (or were lost) instead of widening the content type", diff=["frequencies", "errors2"],
                     detail={"dtype_before": dt, "dtype_after": str(h.dtype), "start": start, "added": added, "frequencies": f.tolist(), "errors2": e.tolist(), "dim": d})
        for pr in snap.dtype_problems(h):
            rec.fail(monitor="C13.rules", op=how, symptom=pr, diff=["dtype"], detail={})
        if np.dtype(h.dtype).kind not in "iu":
            rec.fail(monitor="C13.rules", op=how, symptom="unweighted counting left the integer types", diff=["dtype"], detail={"after": str(h.dtype)})
    rec.case(["narrow", dt, d, start, k, how], start + added > top, cls=f"narrow/{dt}/{d}d/{how}/{np.dtype(h.dtype)}")


def special_facade_case(ctx, index, rng: random.Random):
    """The construction rules through the facades of the transformed histograms (polar, azimuthal, radial, spherical, ...): a requested
    dtype is honoured, an integer dtype with float weights is refused, float weights give a float histogram."""
    import physt

    rec = ctx.rec
    rec.mon("C13.rules")
    name = rng.choice(["polar", "azimuthal", "radial", "spherical", "spherical_surface", "cylindrical", "cylindrical_surface"])
    n = rng.randint(3, 20)
    dim = 2 if name in ("polar", "azimuthal") else 3
    if name == "radial":
        dim = rng.choice([2, 3])
    pts = np.asarray([[rng.uniform(-3, 3) for _ in range(dim)] for _ in range(n)])
    dt = rng.choice([None] + DTYPES_ALL)
    wk = rng.choice([None, "int", "float", "float"])
    kw = {}
    if dt is not None:
        kw["dtype"] = dt
    if wk == "float":
        kw["weights"] = np.asarray([rng.randint(1, 12) / 4 + 0.125 for _ in range(n)], dtype=float)
    elif wk == "int":
        kw["weights"] = np.asarray([rng.randint(0, 4) for _ in range(n)], dtype=int)
    must_refuse = dt is not None and np.dtype(dt).kind in "iu" and wk == "float"
    h = err = None
    try:
        with warnings.catch_warnings():
            warnings.simplefilter("ignore")
            # (the planar facades and radial take the coordinates column by column)
            args = [pts[:, i] for i in range(dim)] if name in ("polar", "azimuthal", "radial") else [pts]
            h = getattr(physt, name)(*args, **kw)
    except Exception as ex:
        err = ex
    if must_refuse:
        if err is None:
            rec.fail(monitor="C13.rules", op=f"construct/{name}", symptom="integer histogram with float weights was not refused", diff=["not_refused"], detail={"facade": name, "dtype": dt, "got": str(h.dtype)})
    elif err is not None:
        rec.fail(monitor="C13.rules", op=f"construct/{name}", symptom=f"valid dtype / weights combination refused: {type(err).__name__}", diff=["raised"], detail={"facade": name, "dtype": dt, "weights": wk, "error": str(err)[:160]})
    else:
        got = np.dtype(h.dtype)
        if dt is not None and got != np.dtype(dt):
            rec.fail(monitor="C13.rules", op=f"construct/{name}", symptom="requested dtype not honoured", diff=["dtype"], detail={"facade": name, "requested": dt, "got": str(got), "weights": wk})
        if dt is None and wk == "float" and got.kind != "f":
            rec.fail(monitor="C13.rules", op=f"construct/{name}", symptom="float weights did not give a float histogram", diff=["dtype"], detail={"facade": name, "got": str(got)})
        if dt is None and wk in (None, "int") and got.kind not in "iu":
            rec.fail(monitor="C13.rules", op=f"construct/{name}", symptom="unweighted / integer-weighted counting did not stay in an integer type", diff=["dtype"], detail={"facade": name, "got": str(got)})
        with attach.quiet():
            for p_ in snap.dtype_problems(h):
                rec.fail(monitor="C13.rules", op=f"construct/{name}", symptom="reported dtype differs from the element type of the arrays", diff=["dtype"], detail={"facade": name, "problem": p_})
    rec.case(["special", name, dim, dt, wk, pts.tolist()], True, cls=f"special/{name}/{dt}/{wk}/{'refused' if err is not None else 'accepted'}")


def stated_missed_case(ctx, index, rng: random.Random):
    """The weight outside the bins stated directly - constructor arguments (underflow / overflow / inner_missed, missed of an ND
    histogram) or the public setters - on a histogram with integer contents: a non-integral value is reported as it was given (the
    type promotes, as for a float weight in fill) or the call is refused; it is never truncated."""
    import physt
    from physt.histogram1d import Histogram1D
    from physt.histogram_nd import Histogram2D

    rec = ctx.rec
    rec.mon("C13.rules")
    e = np.array(gen.regular_edges(rng, rng.randint(2, 5)))
    nb = len(e) - 1
    dt = rng.choice([None, None, "int64", "int32", "int16"])
    value = rng.choice([0.5, 2.75, 1.25, 3.0, 7, 0.25, 1e-3, 12.5])
    how = rng.choice(["ctor_1d", "ctor_1d", "setter", "setter", "ctor_nd", "from_dict"])
    which = rng.choice(["underflow", "overflow", "inner_missed"])
    freq = np.asarray([rng.randint(0, 9) for _ in range(nb)], dtype=dt or "int64")
    kw = {} if dt is None else {"dtype": dt}
    h = err = None
    try:
        with warnings.catch_warnings():
            warnings.simplefilter("ignore")
            if how == "ctor_1d":
                h = Histogram1D(physt.h1(None, e).binning.copy(), frequencies=freq, **{which: value}, **kw)
                got = getattr(h, which)
            elif how == "setter":
                h = Histogram1D(physt.h1(None, e).binning.copy(), frequencies=freq, **kw)
                setattr(h, which, value)
                got = getattr(h, which)
            elif how == "from_dict":
                src = Histogram1D(physt.h1(None, e).binning.copy(), frequencies=freq, **kw)
                doc = src.to_dict()
                stated = list(doc["missed"])
                stated[["underflow", "overflow", "inner_missed"].index(which)] = value
                doc["missed"] = stated
                h = Histogram1D.from_dict(doc)
                got = getattr(h, which)
            else:
                f2 = np.asarray([[rng.randint(0, 9) for _ in range(nb)] for _ in range(nb)], dtype=dt or "int64")
                b = physt.h2(None, None, [e, e])
                h = Histogram2D([x.copy() for x in b.binnings], frequencies=f2, missed=value, **kw)
                got = h.missed
    except Exception as ex:
        err = ex
    if err is None:
        with attach.quiet():
            if float(got) != float(value):
                rec.fail(monitor="C13.rules", op=f"missed/{how}", symptom="a weight outside the bins stated for an integer histogram is reported as another value (truncated)", diff=["missed"],
                         detail={"how": how, "which": which, "given": value, "reported": float(got), "dtype_requested": dt, "dtype": str(h.dtype)})
            for p_ in snap.dtype_problems(h):
                rec.fail(monitor="C13.rules", op=f"missed/{how}", symptom="reported dtype differs from the element type of the arrays", diff=["dtype"], detail={"problem": p_, "how": how})
    elif float(value) == int(value):
        rec.fail(monitor="C13.rules", op=f"missed/{how}", symptom=f"an integral weight outside the bins was refused: {type(err).__name__}", diff=["raised"], detail={"how": how, "given": value, "error": str(err)[:120]})
    rec.case(["stated_missed", how, which, value, dt, e.tolist()], float(value) != int(value), cls=f"stated_missed/{how}/{dt}/{'refused' if err is not None else 'accepted'}")


def attach_monitors(ctx):
    ctx.world = World(passive=False)
    attach_world(ctx.world)
    algebra.attach_algebra_monitors(("add", "scale"))


def attach_passive():
    """Under the repository's tests: world monitor with automatic registration of every histogram created;
    bystander changes are reported only between objects related by derivation."""
    from ..world import World, attach_world, register_all_new

    w = World(passive=True, max_population=10)
    attach_world(w)
    register_all_new(w)
    algebra.attach_algebra_monitors(("add", "scale"))


def run(ctx):
    attach_monitors(ctx)
    ctx.run_cases(ctx.scale(500, 4000), one_history, salt="dtype")
    ctx.run_cases(ctx.scale(120, 800), narrow_count_case, salt="narrow")
    ctx.run_cases(ctx.scale(150, 800), special_facade_case, salt="special")
    ctx.run_cases(ctx.scale(150, 800), stated_missed_case, salt="stated_missed")
    # the chunk-addition workload of C05 mixes int64 / float64 chunks on adaptive grids: its dtype records belong here
    from . import C05

    ctx.run_cases(ctx.scale(120, 1000), C05.case_adaptive, salt="adaptive")
