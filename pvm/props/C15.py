"""C15 - transformed histograms bin points by their true coordinates."""
from __future__ import annotations

import math
import random
import warnings

import numpy as np

from .. import attach, gen, snapshot as snap

DECIDING_MONITORS = ["C15.transform", "C15.paths", "C15.projection"]
PASSIVE_UNDER_TESTS = False
RULE = ("points in all quadrants / octants, on the axes, at the origin, with signed zeros, singly and in arrays, for the Polar, Radial (2D and "
        "3D source), Azimuthal, Spherical, SphericalSurface and Cylindrical classes: (1) Class.transform must satisfy the inverse formulas "
        "(x = r sin(theta) cos(phi), ...) within 1e-9 and the coordinate ranges; (2) construction through the facade, fill, fill_n and find_bin, "
        "each with raw and with already transformed input (transformed=True), must place every point in the same bin (exact comparison of "
        "contents), and in the bin given by the math module for points farther than 1e-9 from every edge; caller arrays must not be modified; "
        "(3) projections have the class given by the map and marginal contents; wrong dimensionality is refused; "
        "separately passed coordinates of different element types (integer / float32 x with float64 y); projections and their sources re-inspected after one of them grew (adaptive bins); non-trivial = >= 1 point on an axis or with a zero coordinate and >= 3 entry paths compared; distinct by hash of (class, bins, points)")
ASSUMPTIONS = ["points closer than 1e-9 to a bin edge are not judged against the math-module bin (only for path consistency)",
               "the default radius of cylindrical_surface() is the largest point radius (as chosen by the repair of the cylinder-surface cluster)"]

TWO_PI = 2 * math.pi


def true_coords(kind, p):
    x, y = p[0], p[1]
    z = p[2] if len(p) > 2 else 0.0
    phi = math.atan2(y, x)
    if phi < 0:
        phi += TWO_PI
    if kind == "polar":
        return [math.hypot(x, y), phi]
    if kind == "radial":
        return [math.hypot(math.hypot(x, y), z)]
    if kind == "azimuthal":
        return [phi]
    rho = math.hypot(x, y)
    if kind == "spherical":
        return [math.hypot(rho, z), math.atan2(rho, z), phi]
    if kind == "spherical_surface":
        return [math.atan2(rho, z), phi]
    if kind == "cylindrical":
        return [rho, phi, z]
    if kind == "cylindrical_surface":
        return [phi, z]
    raise ValueError(kind)


def inverse_ok(kind, p, t) -> bool:
    """The inverse formulas recover the point (independent of how the forward formula is written)."""
    tol = 1e-9 * (1 + max(abs(v) for v in p))
    x, y = p[0], p[1]
    z = p[2] if len(p) > 2 else 0.0
    if kind == "polar":
        r, phi = t
        return r >= 0 and 0 <= phi <= TWO_PI and abs(r * math.cos(phi) - x) <= tol and abs(r * math.sin(phi) - y) <= tol
    if kind == "radial":
        (r,) = t
        return r >= 0 and abs(r * r - (x * x + y * y + z * z)) <= 1e-9 * (1 + r * r)
    if kind == "azimuthal":
        (phi,) = t
        rho = math.hypot(x, y)
        return 0 <= phi <= TWO_PI and abs(rho * math.cos(phi) - x) <= tol and abs(rho * math.sin(phi) - y) <= tol
    if kind == "spherical":
        r, th, phi = t
        return (r >= 0 and 0 <= th <= math.pi + 1e-15 and 0 <= phi <= TWO_PI and abs(r * math.sin(th) * math.cos(phi) - x) <= tol
                and abs(r * math.sin(th) * math.sin(phi) - y) <= tol and abs(r * math.cos(th) - z) <= tol)
    if kind == "spherical_surface":
        th, phi = t
        r = math.hypot(math.hypot(x, y), z)
        return (0 <= th <= math.pi + 1e-15 and 0 <= phi <= TWO_PI and abs(r * math.sin(th) * math.cos(phi) - x) <= tol
                and abs(r * math.sin(th) * math.sin(phi) - y) <= tol and abs(r * math.cos(th) - z) <= tol)
    if kind == "cylindrical":
        rho, phi, zz = t
        return rho >= 0 and 0 <= phi <= TWO_PI and abs(rho * math.cos(phi) - x) <= tol and abs(rho * math.sin(phi) - y) <= tol and zz == z
    if kind == "cylindrical_surface":
        phi, zz = t
        rho = math.hypot(x, y)
        return 0 <= phi <= TWO_PI and abs(rho * math.cos(phi) - x) <= tol and abs(rho * math.sin(phi) - y) <= tol and zz == z
    return True


def gen_points(rng: random.Random, n: int, dim: int):
    pts = []
    for _ in range(n):
        r = rng.random()
        if r < 0.15:
            p = [0.0] * dim
            p[rng.randrange(dim)] = rng.choice([-1, 1]) * rng.choice([0.5, 1.0, 2.0, 3.5])  # on an axis
        elif r < 0.22:
            p = [rng.choice([0.0, -0.0]) for _ in range(dim)]  # origin with signed zeros
        elif r < 0.35:
            p = [rng.uniform(-3, 3) for _ in range(dim)]
            p[rng.randrange(dim)] = rng.choice([0.0, -0.0])  # in a coordinate plane
        else:
            p = [rng.uniform(-3, 3) for _ in range(dim)]
        pts.append(p)
    return np.array(pts, dtype=float).reshape(n, dim)


def one_case(ctx, index, rng: random.Random):
    from physt import special_histograms as sp

    rec = ctx.rec
    kind = rng.choice(["polar", "radial", "radial3", "azimuthal", "spherical", "spherical_surface", "cylindrical", "cylindrical_surface"])
    dim = 2 if kind in ("polar", "radial", "azimuthal") else 3
    klass = {"polar": sp.PolarHistogram, "radial": sp.RadialHistogram, "radial3": sp.RadialHistogram, "azimuthal": sp.AzimuthalHistogram,
             "spherical": sp.SphericalHistogram, "spherical_surface": sp.SphericalSurfaceHistogram, "cylindrical": sp.CylindricalHistogram,
             "cylindrical_surface": sp.CylindricalSurfaceHistogram}[kind]
    mkind = "radial" if kind == "radial3" else kind
    n = rng.randint(1, 30)
    pts = gen_points(rng, n, dim)
    weighted = rng.random() < 0.4
    w = np.asarray([rng.randint(1, 16) / 4 for _ in range(n)], dtype=float) if weighted else None
    # separately passed coordinates may come in different element types (integer x with real y, float32 x):
    # the values themselves are unchanged by the cast, so every entry path still has to agree
    xcast = None
    if kind in ("polar", "radial", "azimuthal") and rng.random() < 0.3:
        xcast = rng.choice(["int64", "int32", "float32", "list_int"])
        pts[:, 0] = (np.round(pts[:, 0]) + 0.0) if xcast != "float32" else pts[:, 0].astype(np.float32).astype(float)  # + 0.0: no negative zero, which an integer cannot hold

    def first(col):
        if xcast is None:
            return col.copy()
        if xcast == "list_int":
            return [int(v) for v in col]
        return col.astype(xcast)

    desc = {"kind": kind, "xcast": xcast, "points": gen.hexlist(pts.ravel()), "weights": None if w is None else w.tolist()}
    on_axis = bool(np.any(np.sum(pts == 0, axis=1) >= 1))

    # ---- (1) transform: inverse formulas ---------------------------------------------------------
    rec.mon("C15.transform")
    keep = pts.copy()
    try:
        t_all = np.asarray(klass.transform(pts), dtype=float)
        if not np.array_equal(pts, keep, equal_nan=True):
            rec.fail(monitor="C15.transform", op=f"{kind}.transform", symptom="transform modified the caller's array", diff=["input"], detail=desc)
            pts = keep.copy()
        t_all = t_all.reshape(n, -1)
        for i in range(n):
            p = pts[i].tolist()
            single = np.asarray(klass.transform(pts[i].copy() if rng.random() < 0.5 else p), dtype=float).ravel()
            if not np.array_equal(single, t_all[i]):
                rec.fail(monitor="C15.transform", op=f"{kind}.transform", symptom="transform of a single point differs from the same point inside an array", diff=["transform"],
                         detail={**desc, "point": p, "single": single, "in_array": t_all[i]})
            if not inverse_ok(mkind, p, t_all[i].tolist()):
                rec.fail(monitor="C15.transform", op=f"{kind}.transform", symptom="transformed coordinates violate the inverse formulas / coordinate ranges", diff=["transform"],
                         detail={**desc, "point": p, "transformed": t_all[i], "true": true_coords(mkind, p)})
                break
    except Exception as e:
        rec.fail(monitor="C15.transform", op=f"{kind}.transform", symptom=f"transform of valid points raised {type(e).__name__}", diff=["raised"], detail={**desc, "error": str(e)[:160]})
        return
    # very large / very small points (far from overflow of the coordinates themselves): lengths scale, angles stay
    if rng.random() < 0.3 and n:
        sc = rng.choice([2.0**600, 2.0**-600])
        length_ix = {"polar": [0], "radial": [0], "azimuthal": [], "spherical": [0], "spherical_surface": [], "cylindrical": [0, 2], "cylindrical_surface": [1]}[mkind]
        try:
            with np.errstate(all="ignore"):
                t_sc = np.asarray(klass.transform(pts * sc), dtype=float).reshape(n, -1)
            want = t_all.copy()
            for j in length_ix:
                want[:, j] = want[:, j] * sc
            bad_rows = [i for i in range(n) if not np.allclose(t_sc[i], want[i], rtol=1e-12, atol=1e-12)]
            if bad_rows:
                i = bad_rows[0]
                rec.fail(monitor="C15.transform", op=f"{kind}.transform", symptom="transform of a very large / very small point is not the scaled transform (intermediate overflow / underflow)",
                         diff=["transform"], detail={"kind": kind, "point": (pts[i] * sc).tolist(), "got": t_sc[i], "expected": want[i], "scale": sc})
        except Exception as e:
            rec.fail(monitor="C15.transform", op=f"{kind}.transform", symptom=f"transform of very large / small points raised {type(e).__name__}", diff=["raised"], detail={"error": str(e)[:160]})
    # already transformed values of the 1D classes are a plain 1D array: blocks of another shape are refused, not flattened
    if mkind in ("radial", "azimuthal") and rng.random() < 0.3:
        block = np.full(rng.choice([(3, 2), (2, 3), (2, 2, 2)]), 0.5)
        h0 = klass(np.array([0.0, 1.0, 2.0]))
        # untransformed points come as (N, 2) or (N, 3): a block with more axes is not a list of points, however legal its last axis
        block3 = np.full(rng.choice([(4, 5, 2), (2, 2, 3), (3, 1, 2)]), 0.4)
        try:
            with warnings.catch_warnings():
                warnings.simplefilter("ignore")
                h0.fill_n(block3)
            rec.fail(monitor="C15.transform", op=f"{kind}.fill_n", symptom="a block of points with three axes was flattened and booked instead of refused", diff=["not_refused"],
                     detail={"shape": block3.shape, "total": float(h0.total)})
        except Exception:
            pass
        h0 = klass(np.array([0.0, 1.0, 2.0]))
        for how_, call_ in (("fill_n", lambda: h0.fill_n(block.copy(), transformed=True)),
                            ("facade", lambda: (sp.radial if mkind == "radial" else sp.azimuthal)(block.copy(), bins=np.array([0.0, 1.0, 2.0]), transformed=True))):
            try:
                with warnings.catch_warnings():
                    warnings.simplefilter("ignore")
                    call_()
                rec.fail(monitor="C15.transform", op=f"{kind}.{how_}(transformed=True)", symptom="already transformed input of the wrong dimensionality was flattened instead of refused", diff=["not_refused"],
                         detail={"shape": block.shape, "total": float(h0.total)})
            except Exception:
                pass
    # wrong dimensionality refused
    try:
        bad = np.zeros((2, dim + 2))
        klass.transform(bad)
        rec.fail(monitor="C15.transform", op=f"{kind}.transform", symptom="input of the wrong dimensionality was not refused", diff=["not_refused"], detail={"shape": bad.shape})
    except Exception:
        pass

    # ---- (2) entry paths ---------------------------------------------------------------------------
    rec.mon("C15.paths")
    rmax = 4.5 if dim == 2 else 5.5
    r_edges = np.array(sorted({0.0, rmax} | {round(rng.uniform(0.2, rmax - 0.2), 3) for _ in range(rng.randint(0, 4))}))
    phi_n, theta_n = rng.choice([1, 3, 4, 8]), rng.choice([1, 2, 4])
    z_edges = np.array(sorted({-3.5, 3.5} | {round(rng.uniform(-3, 3), 2) for _ in range(rng.randint(0, 3))}))
    kw = {}
    if w is not None:
        kw["weights"] = w.copy()
    finals = {}
    try:
        with warnings.catch_warnings():
            warnings.simplefilter("ignore")
            if kind == "polar":
                make = lambda data, **k: sp.polar(first(data[:, 0]) if not k.get("transformed") else data[:, 0].copy(), data[:, 1].copy(), radial_bins=r_edges.copy(), phi_bins=phi_n, **k)
            elif kind == "radial":
                make = lambda data, **k: sp.radial(first(data[:, 0]), data[:, 1].copy(), bins=r_edges.copy(), **k) if not k.get("transformed") else sp.radial(data.copy(), bins=r_edges.copy(), **k)
            elif kind == "radial3":
                make = lambda data, **k: sp.radial(data.copy(), bins=r_edges.copy(), **k)
            elif kind == "azimuthal":
                make = lambda data, **k: sp.azimuthal(first(data[:, 0]), data[:, 1].copy(), bins=phi_n, **k) if not k.get("transformed") else sp.azimuthal(data.copy(), bins=phi_n, **k)
            elif kind == "spherical":
                make = lambda data, **k: sp.spherical(data.copy(), radial_bins=r_edges.copy(), theta_bins=theta_n, phi_bins=phi_n, **k)
            elif kind == "spherical_surface":
                make = lambda data, **k: sp.spherical_surface(data.copy(), theta_bins=theta_n, phi_bins=phi_n, **k)
            elif kind == "cylindrical_surface":
                make = lambda data, **k: sp.cylindrical_surface(data.copy(), phi_bins=phi_n, z_bins=z_edges.copy(), **k)
            else:
                make = lambda data, **k: sp.cylindrical(data.copy(), rho_bins=r_edges.copy(), phi_bins=phi_n, z_bins=z_edges.copy(), **k)
            a = make(pts, **kw)
            finals["facade"] = a
    except Exception as e:
        rec.fail(monitor="C15.paths", op=f"{kind} facade", symptom=f"facade refused valid points: {type(e).__name__}", diff=["raised"], detail={**desc, "error": str(e)[:200]})
        rec.case(desc, False, cls=f"{kind}/raised")
        return
    with attach.quiet():
        bins = [np.asarray(a.bins)] if a.ndim == 1 else [np.asarray(b) for b in a.bins]
    empty = lambda: a.copy(include_frequencies=False)
    try:
        with warnings.catch_warnings():
            warnings.simplefilter("ignore")
            # fill, raw
            b = empty()
            order = list(range(n))
            rng.shuffle(order)
            rets = {}
            for i in order:
                arg = pts[i].copy() if rng.random() < 0.5 else pts[i].tolist()
                fb = b.find_bin(arg)
                rets[i] = b.fill(arg) if w is None else b.fill(arg, float(w[i]))
                if _norm(fb) != _norm(rets[i]) and not (a.ndim == 1 and fb in (-1, len(bins[0])) and rets[i] in (-1, len(bins[0]))):
                    rec.fail(monitor="C15.paths", op=f"{kind}.fill", symptom="find_bin and fill disagree about the bin of a point", diff=["find_bin"],
                             detail={**desc, "point": pts[i], "find_bin": fb, "fill": rets[i]})
            finals["fill"] = b
            # fill_n, raw
            c = empty()
            arr = pts.copy()
            c.fill_n(arr, None if w is None else w.copy())
            if not np.array_equal(arr, pts):
                rec.fail(monitor="C15.paths", op=f"{kind}.fill_n", symptom="fill_n modified the caller's array", diff=["input"], detail=desc)
            finals["fill_n"] = c
            # a second use of the same array must give the same bins (no in-place transformation)
            c2 = empty()
            c2.fill_n(arr, None if w is None else w.copy())
            finals["fill_n_again"] = c2
            if a.ndim > 1:
                # the batch given column-wise: the same points, one row per coordinate
                c3 = empty()
                c3.fill_n(np.ascontiguousarray(pts.T), None if w is None else w.copy(), columns=True)
                finals["fill_n_columns"] = c3
            # transformed input
            tt = np.asarray(klass.transform(pts.copy()), dtype=float)
            d = empty()
            for i in order:
                tv = tt[i] if a.ndim > 1 else float(np.asarray(tt[i]).ravel()[0])
                fbt = d.find_bin(tv, transformed=True)
                rt = d.fill(tv, transformed=True) if w is None else d.fill(tv, float(w[i]), transformed=True)
                if _norm(rt) != _norm(rets[i]):
                    rec.fail(monitor="C15.paths", op=f"{kind}.fill(transformed=True)", symptom="raw point and its transformed coordinates land in different bins", diff=["return"],
                             detail={**desc, "point": pts[i], "transformed": tt[i], "raw_bin": rets[i], "transformed_bin": rt})
                if _norm(fbt) != _norm(rt):
                    rec.fail(monitor="C15.paths", op=f"{kind}.find_bin(transformed=True)", symptom="find_bin and fill disagree for transformed input", diff=["find_bin"],
                             detail={**desc, "point": pts[i], "find_bin": fbt, "fill": rt})
            finals["fill_t"] = d
            e_ = empty()
            e_.fill_n(tt.copy() if a.ndim > 1 else np.asarray(tt).ravel().copy(), None if w is None else w.copy(), transformed=True)
            finals["fill_n_t"] = e_
            f_ = make(tt.copy() if a.ndim > 1 else np.asarray(tt).ravel().copy(), transformed=True, **kw)
            finals["facade_t"] = f_
    except Exception as e:
        rec.fail(monitor="C15.paths", op=f"{kind} entry path", symptom=f"an entry path refused valid points: {type(e).__name__}", diff=["raised"],
                 detail={**desc, "error": str(e)[:200], "paths_done": sorted(finals)})
    with attach.quiet():
        ref = finals["facade"]
        rf, re_ = np.asarray(ref.frequencies, dtype=float), np.asarray(ref.errors2, dtype=float)
        for name, hh in finals.items():
            if name == "facade":
                continue
            f1, e1 = np.asarray(hh.frequencies, dtype=float), np.asarray(hh.errors2, dtype=float)
            if f1.shape != rf.shape or not np.array_equal(f1, rf) or not np.array_equal(e1, re_):
                rec.fail(monitor="C15.paths", op=f"{kind}: {name} vs facade", symptom="entry paths place the same points in different bins", diff=["frequencies"],
                         detail={**desc, "facade": rf.ravel()[:16], name: f1.ravel()[:16]})
        # math-module bins for clearly interior points
        exp = np.zeros_like(rf)
        judged = 0
        ambiguous = 0
        for i in range(n):
            t = true_coords(mkind, pts[i].tolist())
            idx = []
            amb = False
            for ax, v in enumerate(t):
                bb = bins[ax]
                if np.any(np.abs(bb - v) <= 1e-9 * (1 + abs(v))):
                    amb = True
                    break
                k = [j for j in range(len(bb)) if bb[j, 0] <= v < bb[j, 1]]
                idx.append(k[0] if k else None)
            if amb:
                ambiguous += 1
                continue
            judged += 1
            if None in idx:
                continue
            exp[tuple(idx)] += 1.0 if w is None else float(w[i])
        if ambiguous == 0 and not np.array_equal(exp, rf):
            rec.fail(monitor="C15.paths", op=f"{kind} facade", symptom="points are not in the bins of their true coordinates (math module)", diff=["frequencies"],
                     detail={**desc, "got": rf.ravel()[:16], "expected": exp.ravel()[:16]})
        rec.notes["ambiguous_points"] = rec.notes.get("ambiguous_points", 0) + ambiguous
        rec.notes["judged_points"] = rec.notes.get("judged_points", 0) + judged

    # ---- (3) projections -------------------------------------------------------------------------
    rec.mon("C15.projection")
    cmap = {"polar": {(0,): "RadialHistogram", (1,): "AzimuthalHistogram"},
            "spherical": {(1, 2): "SphericalSurfaceHistogram", (0,): "RadialHistogram"},
            "cylindrical": {(0,): "RadialHistogram", (1,): "AzimuthalHistogram", (0, 1): "PolarHistogram", (1, 2): "CylindricalSurfaceHistogram"}}.get(kind)
    if cmap:
        src = a
        if rng.random() < 0.2:
            # compact integer contents given directly: bins that fit the type, marginals that do not
            dt_ = rng.choice(["int16", "int32"])
            top_ = int(np.iinfo(dt_).max)
            big_ = np.array([rng.choice([0, 1, top_ // 2, top_ - 1, top_]) for _ in range(int(np.prod(a.shape)))], dtype=dt_).reshape(a.shape)
            try:
                with attach.quiet():
                    src = type(a)([b_.copy() for b_ in a.binnings], big_)
                desc = {**desc, "contents": dt_}
            except Exception as e:
                rec.monitor_error("C15.projection.narrow", e)
                src = a
        a_full, a = a, src
        relabelled = False
        if rng.random() < 0.3:
            # the user's own labels for the coordinates: which special type a projection has depends on the coordinates kept, not on
            # what they are called
            with attach.quiet():
                a = a.copy()
                a.axis_names = tuple(rng.choice([f"my_{i}", f"coordinate {i}", "x" * (i + 1)]) for i in range(a.ndim))
            relabelled = True
            desc = {**desc, "axis_names": list(a.axis_names)}
        # all coordinates kept (in any order given): the same special type again - it still books Cartesian points like its parent
        try:
            with warnings.catch_warnings():
                warnings.simplefilter("ignore")
                allp = a.projection(*(list(range(a.ndim)) if rng.random() < 0.5 else list(a.axis_names)))
            if type(allp).__name__ != type(a).__name__:
                rec.fail(monitor="C15.projection", op=f"{kind}.projection(all axes)", symptom="projection does not have the matching special type", diff=["class"],
                         detail={**desc, "got": type(allp).__name__, "expected": type(a).__name__})
        except Exception as e:
            rec.fail(monitor="C15.projection", op=f"{kind}.projection(all axes)", symptom=f"projection raised {type(e).__name__}", diff=["raised"], detail={**desc, "error": str(e)[:160]})
        for axes, cname in cmap.items():
            given = [a.axis_names[i] if rng.random() < 0.5 else i for i in axes]
            if rng.random() < 0.5:
                given = given[::-1]
            try:
                p = a.projection(*given)
            except Exception as e:
                rec.fail(monitor="C15.projection", op=f"{kind}.projection{axes}", symptom=f"projection raised {type(e).__name__}", diff=["raised"], detail={**desc, "error": str(e)[:160]})
                continue
            with attach.quiet():
                if type(p).__name__ != cname:
                    rec.fail(monitor="C15.projection", op=f"{kind}.projection{axes}", symptom="projection does not have the matching special type", diff=["class"],
                             detail={"got": type(p).__name__, "expected": cname})
                dropped = tuple(i for i in range(a.ndim) if i not in axes)
                want = np.asarray(a.frequencies, dtype=float).sum(axis=dropped)
                if not np.array_equal(np.asarray(p.frequencies, dtype=float), want):
                    rec.fail(monitor="C15.projection", op=f"{kind}.projection{axes}", symptom="projection contents are not the marginal contents", diff=["frequencies"], detail=desc)
                if cname == "CylindricalSurfaceHistogram":
                    if abs(float(p.radius) - float(bins[0][-1, 1])) > 0:
                        rec.fail(monitor="C15.projection", op=f"{kind}.projection{axes}", symptom="cylinder-surface projection does not carry the outer radius", diff=["radius"], detail={})
        a = a_full
    rec.case(desc, on_axis and len(finals) >= 3, cls=f"{kind}/{'w' if weighted else 'u'}{'/x:' + xcast if xcast else ''}",
             sample={"kind": kind, "points": pts[:4].tolist(), "paths": sorted(finals), "frequencies": np.asarray(finals["facade"].frequencies).ravel()[:8].tolist()})


def _norm(ix):
    if ix is None:
        return None
    try:
        return tuple(int(i) for i in ix)
    except TypeError:
        return int(ix)


def cylsurf_case(ctx, index, rng: random.Random):
    """The known cluster around CylindricalSurfaceHistogram (default axis names, transform, facade)."""
    from physt import special_histograms as sp

    rec = ctx.rec
    rec.mon("C15.paths")
    pts = gen_points(rng, rng.randint(2, 10), 3)
    which = rng.choice(["facade", "transform", "construct", "radius"])
    try:
        with warnings.catch_warnings():
            warnings.simplefilter("ignore")
            if which == "facade":
                sp.cylindrical_surface(pts, phi_bins=4, z_bins=np.array([-4.0, 0.0, 4.0]))
            elif which == "transform":
                t = sp.CylindricalSurfaceHistogram.transform(pts)
            elif which == "radius":
                h = sp.cylindrical_surface(pts, phi_bins=4, z_bins=np.array([-4.0, 0.0, 4.0]))
                want = float(np.max(np.hypot(pts[:, 0], pts[:, 1])))
                if not isinstance(h.radius, (int, float)) or abs(float(h.radius) - want) > 1e-12 * (1 + want):
                    rec.fail(monitor="C15.paths", op="cylindrical_surface/radius", symptom="default radius of the cylinder surface is not the radius bounding the points", diff=["radius"],
                             detail={"radius": repr(h.radius), "expected": want})
            else:
                sp.CylindricalSurfaceHistogram([np.array([0.0, 3.0, 6.3]), np.array([-1.0, 1.0])])
    except Exception as e:
        rec.fail(monitor="C15.paths", op=f"cylindrical_surface/{which}", symptom=f"cylinder-surface histogram unusable: {type(e).__name__}", diff=["raised"],
                 detail={"error": str(e)[:200], "which": which})
    rec.case(["cylsurf", which, pts.tolist()], True, cls=f"cylindrical_surface/{which}")


def nan_weights_case(ctx, index, rng: random.Random):
    """Facades with NaN rows and weights (dropna=True): rows are dropped with their weights."""
    from physt import special_histograms as sp

    rec = ctx.rec
    rec.mon("C15.paths")
    kind = rng.choice(["polar", "spherical", "azimuthal", "radial", "cylindrical", "spherical_surface"])
    dim = 2 if kind in ("polar", "azimuthal", "radial") else 3
    n = rng.randint(3, 12)
    pts = gen_points(rng, n, dim)
    pts[rng.randrange(n), rng.randrange(dim)] = np.nan
    w = np.asarray([rng.randint(1, 8) / 4 for _ in range(n)], dtype=float)
    good = ~np.isnan(pts).any(axis=1)
    mech = None
    try:
        with warnings.catch_warnings():
            warnings.simplefilter("ignore")
            if kind == "polar":
                h = sp.polar(pts[:, 0], pts[:, 1], radial_bins=np.array([0.0, 2.0, 6.0]), phi_bins=4, weights=w, dropna=True)
            elif kind == "azimuthal":
                h = sp.azimuthal(pts[:, 0], pts[:, 1], bins=4, weights=w, dropna=True)
            elif kind == "radial":
                h = sp.radial(pts[:, 0], pts[:, 1], bins=np.array([0.0, 2.0, 6.0]), weights=w, dropna=True)
            elif kind == "spherical":
                h = sp.spherical(pts, radial_bins=np.array([0.0, 2.0, 6.0]), theta_bins=2, phi_bins=4, weights=w, dropna=True)
            elif kind == "spherical_surface":
                h = sp.spherical_surface(pts, theta_bins=2, phi_bins=4, weights=w, dropna=True)
            else:
                h = sp.cylindrical(pts, rho_bins=np.array([0.0, 2.0, 6.0]), phi_bins=4, z_bins=np.array([-4.0, 0.0, 4.0]), weights=w, dropna=True)
        tot = float(h.total) + (float(h.missed) if not hasattr(h, "underflow") else float(h.underflow) + float(h.overflow))
        if tot != float(w[good].sum()):
            rec.fail(monitor="C15.paths", op=f"{kind}(weights, NaN rows)", symptom="NaN rows were not dropped together with their weights", diff=["total"], mechanism=mech,
                     detail={"total": tot, "expected": float(w[good].sum())})
    except Exception as e:
        rec.fail(monitor="C15.paths", op=f"{kind}(weights, NaN rows)", symptom=f"facade refused NaN rows with weights: {type(e).__name__}", diff=["raised"], mechanism=mech,
                 detail={"error": str(e)[:200]})
    rec.case(["nanw", kind, gen.hexlist(pts.ravel())], True, cls=f"nan_weights/{kind}")


def detached_case(ctx, index, rng: random.Random):
    """find_bin / fill of a transformed histogram keep addressing existing bins after one of its projections
    (or the histogram itself, seen from the projection) has grown."""
    from ..monitors import structure

    def inspect(other):
        probs = []
        f = np.asarray(other.frequencies)
        if tuple(other.shape) != f.shape:
            probs.append(f"bins {tuple(other.shape)} vs contents {f.shape}")
        return probs

    structure.detached_workload(ctx, index, rng, prop="C15", monitor="C15.paths", inspect=inspect, kinds=("cylindrical", "polar", "spherical"))


def alias_case(ctx, index, rng: random.Random):
    """The (deprecated) *_histogram aliases of the facade functions build what the functions they stand for build."""
    from physt import special_histograms as sp

    rec = ctx.rec
    rec.mon("C15.paths")
    name = rng.choice(["radial", "azimuthal", "polar", "spherical", "spherical_surface", "cylindrical", "cylindrical_surface"])
    dim = 2 if name in ("polar", "azimuthal") or (name == "radial" and rng.random() < 0.5) else 3
    pts = np.array([[rng.uniform(-2, 2) for _ in range(dim)] for _ in range(rng.randint(2, 12))])
    try:
        with warnings.catch_warnings():
            warnings.simplefilter("ignore")
            args = tuple(pts[:, i] for i in range(dim)) if name in ("polar", "azimuthal", "radial") else (pts,)
            try:
                want = getattr(sp, name)(*args)
            except Exception:
                rec.skip("C15.paths", "alias_reference_refused")
                return
            got = getattr(sp, name + "_histogram")(*args)
    except Exception as e:
        rec.fail(monitor="C15.paths", op=f"{name}_histogram", symptom=f"the alias of a facade function refused what the function takes: {type(e).__name__}", diff=["raised"], detail={"error": str(e)[:160]})
        return
    with attach.quiet():
        if type(got) is not type(want) or snap.diff(snap.snapshot(got), snap.snapshot(want)):
            rec.fail(monitor="C15.paths", op=f"{name}_histogram", symptom="the alias of a facade function builds another histogram than the function", diff=["class"],
                     detail={"got": type(got).__name__, "expected": type(want).__name__})
    rec.case(["alias", name, pts.tolist()], True, cls=f"alias/{name}")


def run(ctx):
    ctx.run_cases(ctx.scale(21, 70), alias_case, salt="alias")
    ctx.run_cases(ctx.scale(60, 400), detached_case, salt="detached")
    ctx.run_cases(ctx.scale(400, 3000), one_case, salt="paths")
    ctx.run_cases(ctx.scale(30, 150), cylsurf_case, salt="cylsurf")
    ctx.run_cases(ctx.scale(60, 300), nan_weights_case, salt="nanw")
