"""C04 - adaptive fixed-width histograms never lose a value when bins grow."""
from __future__ import annotations

import math
import random
import warnings
from fractions import Fraction

import numpy as np

from .. import attach, gen, model, snapshot as snap
from ..monitors import adaptive as madaptive

DECIDING_MONITORS = ["C04.adaptive.step", "C04.history.final", "C04.factory.coverage"]
PASSIVE_UNDER_TESTS = True
RULE = ("histories of fill / fill_n (mixed, with empty and NaN-containing batches) on adaptive fixed-width histograms, 1-3 "
        "dimensions, started empty or pre-filled, widths {0.1,0.2,0.3,0.7,1,2.5,1e-3,1/3,3.3,random}, align / bin_shift options, "
        "values k*w, decimal literals round(k*w, d), one ulp beside grid points, far values (<= 5000 bins), negatives; every step "
        "is checked by the step monitor, the final state against the exact model over the final bins; plus data-derived "
        "fixed_width / pretty / integer binnings (coverage of their own data); non-trivial = non-dyadic width, >= 1 value within "
        "2 ulp of a grid point, growth to the left and to the right; distinct by hash of (width, options, history) Pre-filled histories also start from `range=` narrower than the data (adaptive bins cover all the data).")
ASSUMPTIONS = [
    "grid / width checks in ulps of the edge magnitude (4 ulp), contiguity and 'old edges stay edges' bit-exact",
    "far values are bounded to 5000 bins so that a run cannot allocate its way out of memory",
]

WIDTHS = [0.1, 0.2, 0.3, 0.7, 1.0, 2.5, 1e-3, 1 / 3, 3.3, 0.1, 0.3, 0.7, 10.0, 0.25]


def attach_monitors():
    madaptive.attach_adaptive_monitors()


def _value(rng: random.Random, w: float, shift: float, centre: float, spread: int):
    """A value near the grid point k*w + shift (or a decimal literal), k within spread bins of centre."""
    k = rng.randint(-spread, spread) + int(round(centre / w))
    mode = rng.random()
    if mode < 0.30:
        v = k * w + shift
    elif mode < 0.50:
        digits = max(0, -int(math.floor(math.log10(w)))) + rng.choice([0, 1])
        v = round(k * w + shift, digits)
    elif mode < 0.65:
        v = float(np.nextafter(k * w + shift, rng.choice([-np.inf, np.inf])))
    elif mode < 0.75:
        v = (k + 0.5) * w + shift
    else:
        v = (k + rng.random()) * w + shift
    return float(v), (mode < 0.65)


def _non_dyadic(w: float) -> bool:
    return (w * 2**20) % 1 != 0


def one_history(ctx, index: int, rng: random.Random):
    import physt

    rec = ctx.rec
    nd = rng.choice([1, 1, 1, 2, 2, 3])
    widths = [rng.choice(WIDTHS) if rng.random() < 0.8 else round(10 ** rng.uniform(-2, 2), rng.randint(1, 4)) for _ in range(nd)]
    widths = [w if w > 0 else 1.0 for w in widths]
    opts = {}
    shift = [0.0] * nd
    integer = False
    if rng.random() < 0.25:
        s = rng.choice([0.5, 0.05, 0.25, 1.7, 0.1])
        if rng.random() < 0.3:
            # the shift given as a float32 / float16 scalar: its float64 value is the shift that counts
            s_arg = rng.choice([np.float32, np.float16])(s)
            s = float(s_arg)
            opts["bin_shift"] = s_arg
        else:
            opts["bin_shift"] = s
        shift = [s] * nd
    align = True
    if rng.random() < 0.15 and "bin_shift" not in opts:
        opts["align"] = False
        align = False
    method = "fixed_width"
    if nd == 1 and rng.random() < 0.12:
        method = "integer"
        widths = [1.0]
        shift = [0.5]
        opts = {}
        align = True
    # the width may arrive as a narrow numpy scalar (its float64 value is the width that counts) ...
    wtype = None
    width_args = list(widths)
    if method == "fixed_width" and rng.random() < 0.15:
        wtype = rng.choice([np.float32, np.float32, np.float16])
        width_args = [wtype(w) for w in widths]
        widths = [float(w) for w in width_args]
        if any(not (w > 0) for w in widths):
            wtype, width_args, widths = None, [1.0] * nd, [1.0] * nd
    # ... and so may the values (scalars and arrays of float32 / float16): each one is a finite value in its own right
    vtype = rng.choice([None, None, None, None, np.float32, np.float32, np.float16])
    centre = [rng.choice([0.0, 0.0, 1.0, -3.0, 100.0, 1e3]) for _ in range(nd)]
    if vtype is np.float16:
        centre = [c if abs(c) < 500 else 1.0 for c in centre]
    # far values: bounded so that the grown histogram stays below ~20000 cells (5000 bins in 1D)
    spread = rng.choice([3, 10, 10, 40, 200 if ctx.quick else 2000])
    if nd == 2:
        spread = min(spread, rng.choice([10, 40, 60]))
    elif nd == 3:
        spread = min(spread, rng.choice([3, 8, 12]))
    prefilled = rng.random() < 0.4
    desc = {"nd": nd, "widths": widths, "width_type": None if wtype is None else wtype.__name__, "value_type": None if vtype is None else vtype.__name__,
            "opts": opts, "method": method, "prefilled": prefilled, "steps": []}
    near_grid = False

    def gen_rows(n):
        nonlocal near_grid
        rows = []
        for _ in range(n):
            row = []
            for ax in range(nd):
                v, ng = _value(rng, widths[ax], shift[ax], centre[ax], spread)
                near_grid = near_grid or ng
                row.append(v)
            rows.append(row)
        out = np.array(rows, dtype=float).reshape(n, nd)
        if vtype is not None:
            with np.errstate(over="ignore"):
                out = out.astype(vtype).astype(float)  # exactly representable in the narrow type
            out[~np.isfinite(out)] = 0.0
        return out

    ledger_rows = np.zeros((0, nd))
    ledger_w = []
    weighted = rng.random() < 0.4
    ranged = False
    try:
        kw = dict(opts)
        if method == "fixed_width":
            kw["bin_width"] = width_args[0] if nd == 1 else list(width_args)
        if prefilled:
            n0 = rng.randint(1, 12)
            init = gen_rows(n0)
            if method == "fixed_width" and align and vtype is None and rng.random() < 0.25:
                # range= on the grid, with a datum exactly on its upper limit (which belongs to the range): the adapted bins hold it too
                ranges = []
                narrow_range = rng.random() < 0.4  # a range that leaves some of the data below it: adaptive bins hold all the data all the same
                for ax in range(nd):
                    w_, s_ = widths[ax], shift[ax]
                    k_lo = math.floor((float(init[:, ax].min()) - s_) / w_) - rng.randint(0, 2)
                    k_hi = math.ceil((float(init[:, ax].max()) - s_) / w_) + rng.randint(1, 2)
                    lo_, hi_ = k_lo * w_ + s_, k_hi * w_ + s_
                    if not (lo_ <= float(init[:, ax].min()) and float(init[:, ax].max()) <= hi_):
                        ranges = None
                        break
                    if narrow_range and k_lo + 3 < k_hi:
                        lo_ = (k_lo + rng.randint(1, 3)) * w_ + s_
                    ranges.append((lo_, hi_))
                if ranges:
                    r_ = rng.randrange(n0)
                    for ax in range(nd):
                        init[r_, ax] = ranges[ax][1]
                    kw["range"] = ranges[0] if nd == 1 else ranges
                    ranged = True
                    desc["range"] = ranges
            via_object = not ranged and vtype is None and n0 >= 2 and rng.random() < 0.2
            if via_object:
                # "the bins of that (adaptive) histogram": the facade is given binning objects made from a part of the data - adaptive
                # bins cover all the data they are constructed with, wherever their bins were when they were handed over
                k0 = rng.randint(1, n0 - 1)
                if nd == 1:
                    base = physt.h1(init[:k0, 0].copy(), method, adaptive=True, **kw)
                    h = physt.h1(init[:, 0].copy(), base.binning)
                else:
                    base = physt.h(init[:k0].copy(), method, adaptive=True, **kw)
                    h = physt.h(init.copy(), list(base.binnings))
                desc["via_binning_object"] = k0
            elif nd == 1:
                h = physt.h1(init[:, 0].copy() if vtype is None else init[:, 0].astype(vtype), method, adaptive=True, **kw)
            else:
                h = physt.h(init.copy() if vtype is None else init.astype(vtype), method, adaptive=True, **kw)
            ledger_rows = np.vstack([ledger_rows, init])
            ledger_w += [1] * n0
            desc["steps"].append(["construct", gen.hexlist(init.ravel())])
        else:
            # "started empty": no data at all, an empty batch, or a batch without a single finite value
            start = rng.choice(["none", "none", "empty", "all_nan"])
            if start == "none":
                first = None
            elif start == "empty":
                first = np.zeros((0,) if nd == 1 else (0, nd))
            else:
                first = np.full((rng.randint(1, 3),) if nd == 1 else (rng.randint(1, 3), nd), np.nan)
            desc["steps"].append([f"construct_{start}", []])
            if nd == 1:
                h = physt.h1(first, method, adaptive=True, **kw)
            else:
                h = physt.h(first, method, adaptive=True, dim=nd, **kw) if first is None else physt.h(first, method, adaptive=True, **kw)
    except Exception as e:
        rec.mon("C04.history.final")
        rec.fail(monitor="C04.history.final", op="construct", symptom=f"adaptive construction refused: {type(e).__name__}", diff=["raised"],
                 detail={"error": str(e)[:200], **desc})
        rec.case(desc, False, cls="raised:construct")
        return
    if prefilled and rng.random() < 0.25:
        # "started empty": the emptied copy of a pre-filled histogram keeps the bins and must behave like a new one
        h = h.copy(include_frequencies=False)
        ledger_rows = np.zeros((0, nd))
        ledger_w = []
        prefilled = False
        desc["steps"].append(["emptied_copy", []])
    # initial state must already be loss-free
    with attach.quiet():
        s0 = snap.snapshot(h, with_stats=False)
    if prefilled:
        rec.mon("C04.history.final")
        miss = [s0[k] for k in (("underflow", "overflow") if nd == 1 else ("missed",))]
        tot = float(np.sum(snap.arr_values(s0["frequencies"]).astype(float)))
        if any(m not in (0, 0.0) for m in miss) or tot != len(ledger_rows):
            rec.fail(monitor="C04.history.final", op="construct", symptom="adaptive construction lost a value", diff=["total", "missed"],
                     detail={"total": tot, "missed": miss, "entered": len(ledger_rows), **desc})
    grew_left = grew_right = False
    nsteps = rng.randint(2, 8 if ctx.quick else 14)
    for step in range(nsteps):
        with attach.quiet():
            before = snap.snapshot(h, with_stats=False)
        kind = rng.choice(["fill", "fill", "fill_n", "fill_n", "fill_n_nan", "fill_n_empty"])
        try:
            if kind == "fill":
                r = gen_rows(1)
                w = rng.randint(0, 24) / 8.0 if weighted else None
                val = float(r[0, 0]) if nd == 1 else (r[0].copy() if rng.random() < 0.5 else r[0].tolist())
                if vtype is not None:
                    val = vtype(r[0, 0]) if nd == 1 else r[0].astype(vtype)
                if w is None:
                    res = h.fill(val)
                else:
                    res = h.fill(val, w)
                ledger_rows = np.vstack([ledger_rows, r])
                ledger_w.append(1 if w is None else w)
                desc["steps"].append(["fill", gen.hexlist(r.ravel()), w])
            else:
                n = 0 if kind == "fill_n_empty" else rng.randint(1, 10)
                r = gen_rows(n)
                if kind == "fill_n_nan" and n:
                    if rng.random() < 0.3:
                        r[:] = np.nan  # a batch without a single finite value
                    else:
                        r[rng.randrange(n), rng.randrange(nd)] = np.nan
                ws = [rng.randint(0, 24) / 8.0 for _ in range(n)] if weighted else None
                arg = r[:, 0].copy() if nd == 1 else r.copy()
                if vtype is not None:
                    arg = arg.astype(vtype)
                if ws is None:
                    h.fill_n(arg)
                else:
                    nw_, _ = gen.narrow_weights(rng, ws, p=0.3)  # e.g. float16 / float32: sums are not taken in that type
                    h.fill_n(arg, nw_ if nw_ is not None else np.asarray(ws))
                m = ~np.isnan(r).any(axis=1) if n else np.zeros(0, dtype=bool)
                ledger_rows = np.vstack([ledger_rows, r[m]])
                ledger_w += [1] * int(m.sum()) if ws is None else [x for x, keep in zip(ws, m) if keep]
                desc["steps"].append([kind, gen.hexlist(r.ravel()), ws])
        except Exception as e:
            rec.mon("C04.history.final")
            rec.fail(monitor="C04.history.final", op=kind, symptom=f"adaptive {kind} refused valid input: {type(e).__name__}", diff=["raised"],
                     detail={"error": str(e)[:200], **desc})
            rec.case(desc, False, cls=f"raised:{kind}")
            return
        with attach.quiet():
            after = snap.snapshot(h, with_stats=False)
        if isinstance(before["bins"], list) and isinstance(after["bins"], list):
            for ax in range(nd):
                b0, b1 = snap.arr_values(before["bins"][ax]), snap.arr_values(after["bins"][ax])
                if len(b0) and len(b1):
                    grew_left = grew_left or b1[0, 0] < b0[0, 0]
                    grew_right = grew_right or b1[-1, 1] > b0[-1, 1]
    # final state against the ledger
    rec.mon("C04.history.final")
    with attach.quiet():
        final = snap.snapshot(h, with_stats=False)
        bins = [snap.arr_values(t) for t in final["bins"]] if isinstance(final["bins"], list) else None
        if bins is None:
            rec.fail(monitor="C04.history.final", op="final", symptom="bins unreadable at the end of the history", diff=["bins"], detail=desc)
        else:
            shape, f, e, missed, total, nanw, st = model.bin_nd(bins, [False] * nd, ledger_rows, np.asarray(ledger_w, dtype=float))
            exp_f = model.dense(shape, f)
            got_f = snap.arr_values(final["frequencies"]).astype(float)
            if got_f.shape != exp_f.shape or not np.array_equal(got_f, exp_f) or missed != 0:
                rec.fail(monitor="C04.history.final", op="final", symptom="final contents differ from a fixed-bin histogram of everything entered over the final bins",
                         diff=["frequencies"], detail={"lost_weight": float(missed), "got_total": float(got_f.sum()), "expected_total": float(total), **desc})
            for name in (("underflow", "overflow") if nd == 1 else ("missed",)):
                if final[name] not in (0, 0.0):
                    rec.fail(monitor="C04.history.final", op="final", symptom=f"{name} is not zero at the end of an adaptive history", diff=[name],
                             detail={name: final[name], **desc})
            if len(ledger_rows):
                for ax in range(nd):
                    mn, mx = float(ledger_rows[:, ax].min()), float(ledger_rows[:, ax].max())
                    b = bins[ax]
                    emptied = ranged or any(st[0] == "emptied_copy" for st in desc["steps"])  # keeps the bins of the histogram it was copied from / of the requested range
                    if emptied:
                        if len(b) == 0 or not (b[0, 0] <= mn and mx < b[-1, 1]):
                            rec.fail(monitor="C04.history.final", op="final", symptom="bins do not cover the values entered", diff=["bins", "coverage"], detail={"axis": ax, **desc})
                    elif len(b) == 0 or not (b[0, 0] <= mn < b[0, 1]) or not (b[-1, 0] <= mx < b[-1, 1]):
                        rec.fail(monitor="C04.history.final", op="final", symptom="bins do not span exactly from the lowest to the highest value entered",
                                 diff=["bins", "span"], detail={"axis": ax, "min": mn.hex(), "max": mx.hex(), "first": b[:1], "last": b[-1:], **desc})
                    if align:
                        for edge in (b[0, 0], b[-1, 1]) if len(b) else ():
                            k = round((edge - shift[ax]) / widths[ax])
                            ideal = k * widths[ax] + shift[ax]
                            if abs(edge - ideal) > 4 * max(madaptive._ulp(edge), madaptive._ulp(shift[ax]), madaptive._ulp(ideal)):
                                rec.fail(monitor="C04.history.final", op="final", symptom="edges are not origin + k*width", diff=["bins"],
                                         detail={"axis": ax, "edge": edge, "ideal": ideal, **desc})
    nontrivial = any(_non_dyadic(w) for w in widths) and near_grid and grew_left and grew_right
    rec.case(desc, nontrivial, cls=f"{nd}d/{method}/{'pre' if prefilled else 'empty'}/{'w' if weighted else 'u'}{'/noalign' if not align else ''}{'/range' if ranged else ''}{'/w:' + wtype.__name__ if wtype else ''}{'/v:' + vtype.__name__ if vtype else ''}",
             sample={"widths": widths, "opts": opts, "prefilled": prefilled, "steps": [[s[0], gen.unhex(s[1])[:6]] for s in desc["steps"][:5]],
                     "final_bins": None if bins is None else [[float(b[0, 0]), float(b[-1, 1]), len(b)] for b in bins if len(b)],
                     "total": float(np.sum(snap.arr_values(final["frequencies"]).astype(float)))})


def factory_case(ctx, index: int, rng: random.Random):
    """Non-adaptive fixed_width / pretty / integer binnings derived from data must cover that data."""
    import physt

    rec = ctx.rec
    rec.mon("C04.factory.coverage")
    method = rng.choice(["fixed_width", "fixed_width", "pretty", "integer"])
    n = rng.randint(2, 40)
    w = rng.choice(WIDTHS)
    centre = rng.choice([0.0, 1.0, -3.0, 100.0, 1e4])
    if method == "integer":
        data = [float(rng.randint(-30, 30) + (0 if rng.random() < 0.7 else rng.choice([0.5, -0.5, 0.25]))) for _ in range(n)]
        kw = {}
        w = 1.0
    else:
        data = [_value(rng, w, 0.0, centre, rng.choice([3, 20, 100]))[0] for _ in range(n)]
        kw = {"bin_width": w} if method == "fixed_width" else {"bin_count": rng.randint(1, 30)}
    if max(data) - min(data) < w:
        data[0] = data[0] + 3 * w  # a range far below the bin width (values a few ulps apart) is degenerate for bin-count based rules
    desc = {"method": method, "kw": kw, "data": gen.hexlist(data)}
    try:
        h = physt.h1(np.asarray(data), method, **kw)
    except Exception as e:
        rec.fail(monitor="C04.factory.coverage", op=f"h1/{method}", symptom=f"data-derived binning refused: {type(e).__name__}", diff=["raised"],
                 detail={"error": str(e)[:200], **desc})
        rec.case(desc, False, cls=f"factory/raised/{method}")
        return
    with attach.quiet():
        bins = np.asarray(h.bins, dtype=float)
        mn, mx = min(data), max(data)
        inside = all(any(l <= v < r for l, r in bins) or v == bins[-1, 1] for v in data)
        if not inside or h.total != n or float(h.underflow) != 0 or float(h.overflow) != 0:
            rec.fail(monitor="C04.factory.coverage", op=f"h1/{method}", symptom="data-derived fixed-width binning does not cover its own data",
                     diff=["coverage"], detail={"first": bins[0], "last": bins[-1], "min": mn.hex(), "max": mx.hex(), "total": h.total,
                                                "underflow": float(h.underflow), "overflow": float(h.overflow), **desc})
        gp = madaptive.grid_problems(bins, None)
        wd = bins[:, 1] - bins[:, 0]
        if gp or np.max(np.abs(wd - wd[0])) > 8 * madaptive._ulp(max(abs(bins[0, 0]), abs(bins[-1, 1]))) + 8 * madaptive._ulp(wd[0]):
            rec.fail(monitor="C04.factory.coverage", op=f"h1/{method}", symptom="bins are not contiguous equal-width bins", diff=["bins"], detail={"problems": gp, **desc})
    rec.case(desc, _non_dyadic(float(bins[0, 1] - bins[0, 0])), cls=f"factory/{method}")


def mixed_axes_case(ctx, index, rng: random.Random):
    """An adaptive fixed-width axis beside an axis with fixed bins (adaptive x over fixed categories in y, the adaptive radius of a
    polar histogram over fixed sectors): with every value inside the fixed axis nothing may be missed - the adaptive axis grows, by
    single fills and by batches alike."""
    import physt
    from physt.binnings import FixedWidthBinning, StaticBinning
    from physt.histogram_nd import Histogram2D

    rec = ctx.rec
    rec.mon("C04.history.final")
    w = rng.choice([0.5, 1.0, 2.5, 0.1])
    yed = np.array([0.0, 1.0, 2.0, 3.0])
    order = rng.choice(["adaptive_first", "static_first"])
    how = rng.choice(["constructor", "facade"])

    def pts(k):
        xs = [w * (rng.randint(-20, 20) + rng.choice([0.0, 0.5, rng.random()])) for _ in range(k)]
        ys = [rng.choice([0.5, 1.5, 2.5, 0.0, 2.999]) for _ in range(k)]
        return np.array(list(zip(xs, ys)) if order == "adaptive_first" else list(zip(ys, xs)), dtype=float).reshape(k, 2)

    first = pts(rng.randint(1, 4))
    try:
        with warnings.catch_warnings():
            warnings.simplefilter("ignore")
            if how == "constructor":
                bs = [FixedWidthBinning(bin_width=w, adaptive=True), StaticBinning(np.stack([yed[:-1], yed[1:]], axis=1))]
                h = Histogram2D(bs if order == "adaptive_first" else bs[::-1])
                h.fill_n(first)
            else:
                spec = ["fixed_width", yed.copy()] if order == "adaptive_first" else [yed.copy(), "fixed_width"]
                h = physt.h(first, spec, bin_width=[w, None] if order == "adaptive_first" else [None, w], adaptive=True)
            everything = [first]
            for _ in range(rng.randint(1, 5)):
                batch = pts(rng.randint(1, 6))
                if rng.random() < 0.5:
                    h.fill_n(batch)
                else:
                    for row in batch:
                        h.fill(row)
                everything.append(batch)
    except Exception as ex:
        rec.fail(monitor="C04.history.final", op="mixed axes", symptom=f"an adaptive axis beside a fixed one raised {type(ex).__name__}", diff=["raised"], detail={"error": str(ex)[:160], "how": how, "order": order})
        return
    allv = np.vstack(everything)
    ax = 0 if order == "adaptive_first" else 1
    with attach.quiet():
        ed = [np.asarray(e_, dtype=float) for e_ in h.edges]
        ref, _, _ = np.histogram2d(allv[:, 0], allv[:, 1], bins=ed)
        # (numpy closes the last bin of every axis: values on the last edge of the fixed axis are not generated)
        problems = []
        if float(h.missed) != 0:
            problems.append(("missed", float(h.missed)))
        if float(h.total) != len(allv):
            problems.append(("total", float(h.total), len(allv)))
        if not (ed[ax][0] <= allv[:, ax].min() and allv[:, ax].max() < ed[ax][-1]):
            problems.append(("span", [float(ed[ax][0]), float(ed[ax][-1])], [float(allv[:, ax].min()), float(allv[:, ax].max())]))
        if np.asarray(h.frequencies).shape == ref.shape and not np.array_equal(np.asarray(h.frequencies, dtype=float), ref):
            problems.append(("contents",))
        if problems:
            rec.fail(monitor="C04.history.final", op="mixed axes", symptom="an adaptive axis beside a fixed one lost values (not all of them are in a bin)", diff=["missed", "total"],
                     detail={"problems": problems[:3], "how": how, "order": order, "width": w})
    rec.case(["mixed", order, how, w, allv.tolist()[:8]], True, cls=f"mixed_axes/{order}/{how}")


def document_then_fill_case(ctx, index, rng: random.Random):
    """A (still empty, or pre-filled) adaptive histogram written to a document and read back grows on the same grid as the original:
    the origin of the grid (shift) belongs to the histogram whether or not it has bins yet."""
    import physt
    import physt.io

    rec = ctx.rec
    rec.mon("C04.history.final")
    w = rng.choice([1.0, 0.5, 2.5, 0.2])
    kind = rng.choice(["integer", "shift", "shift", "plain"])
    shift = 0.0
    d = rng.choice([1, 1, 2])
    vals = np.array([[w * (rng.randint(-8, 8) + rng.random()) for _ in range(d)] for _ in range(rng.randint(1, 6))])
    prefilled = rng.random() < 0.3
    try:
        with warnings.catch_warnings():
            warnings.simplefilter("ignore")
            first = vals[:1] if prefilled else None
            if kind == "integer":
                w, shift = 1.0, 0.5
                h = physt.h1(None if first is None else first[:, 0], "integer", adaptive=True) if d == 1 else physt.h(first, "integer", adaptive=True, dim=2)
            else:
                shift = rng.choice([0.25 * w, 0.5 * w, 0.1]) if kind == "shift" else 0.0
                kw = {"bin_width": w, "adaptive": True, **({"bin_shift": shift} if kind == "shift" else {})}
                h = physt.h1(None if first is None else first[:, 0], "fixed_width", **kw) if d == 1 else physt.h(first, "fixed_width", dim=2, **kw)
            route = rng.choice(["json", "dict", "copy"])
            if route == "json":
                g = physt.io.parse_json(h.to_json())
            elif route == "dict":
                g = type(h).from_dict(h.to_dict())
            else:
                g = h.copy()
            for x in (h, g):
                x.fill_n(vals[:, 0] if d == 1 else vals)
    except Exception as ex:
        rec.fail(monitor="C04.history.final", op="document then fill", symptom=f"an adaptive histogram read from a document could not be filled: {type(ex).__name__}", diff=["raised"],
                 detail={"error": str(ex)[:160], "kind": kind, "d": d})
        return
    with attach.quiet():
        bh = [np.asarray(h.bins)] if d == 1 else [np.asarray(b) for b in h.bins]
        bg = [np.asarray(g.bins)] if d == 1 else [np.asarray(b) for b in g.bins]
        same = all(a.shape == b.shape and np.array_equal(a, b) for a, b in zip(bh, bg)) and np.array_equal(np.asarray(h.frequencies), np.asarray(g.frequencies))
        if not same:
            rec.fail(monitor="C04.history.final", op="document then fill", symptom="an adaptive histogram read back from a document grows on another grid than the original", diff=["bins"],
                     detail={"kind": kind, "route": route, "width": w, "shift": shift, "original": bh[0].ravel()[:6].tolist(), "read_back": bg[0].ravel()[:6].tolist(), "prefilled": prefilled})
        for b in bg:
            k_ = (b[:, 0] - shift) / w
            if len(b) and not np.allclose(k_, np.round(k_), atol=1e-6):
                rec.fail(monitor="C04.history.final", op="document then fill", symptom="bins of the read-back histogram are not on the grid origin + k * width", diff=["bins"],
                         detail={"kind": kind, "route": route, "width": w, "shift": shift, "left_edges": b[:4, 0].tolist()})
                break
    rec.case(["doc_fill", kind, d, w, shift, prefilled], True, cls=f"document_then_fill/{kind}/{d}d/{route}")


def run(ctx):
    ctx.run_cases(ctx.scale(60, 400), mixed_axes_case, salt="mixed")
    ctx.run_cases(ctx.scale(80, 400), document_then_fill_case, salt="docfill")
    attach_monitors()
    ctx.run_cases(ctx.scale(350, 3500), one_history, salt="hist")
    ctx.run_cases(ctx.scale(300, 3000), factory_case, salt="factory")
