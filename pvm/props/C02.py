"""C02 - ND construction: each row counted once, in the cell that contains it."""
from __future__ import annotations

import math
import random
import warnings

import numpy as np

from .. import attach, gen, model
from ..monitors import construct

DECIDING_MONITORS = ["C02.h.post"]
PASSIVE_UNDER_TESTS = True
RULE = ("cases = h / h2 / h3 on (n,d) data, d=2..4, per-axis bins of different classes and counts (edges, gapped pairs, "
        "right-open / right-closed binning objects, int, method names with per-axis argument lists), every column in its own "
        "range so that an axis mix-up is visible; rows with NaN (dropped) and with infinite coordinates of either / both signs (missed); non-trivial = asymmetric shape, >= 1 coordinate exactly on a last edge, "
        ">= 1 row outside the bins; distinct by hash of (bins, rows, weights, entry form) Plus `dtype_case`: a content type given at construction (int16 / int32 / float32 / int64 / float64; 33000-70000 equal rows in one cell, integer weights up to 40000 and beyond 2**32, dyadic float weights): exact sums, refusal or widening instead of wrap-around, missed weight never negative.")
ASSUMPTIONS = [
    "membership is judged on the reported edges and on each binning's own includes_right_edge flag",
    "weights are small dyadic rationals (exact sums, compared with ==); a general-float class is compared within n*eps",
]


def attach_monitors():
    from physt import _facade

    attach.wrap(_facade, "h", construct.HNDMonitor())


def _axis_spec(rng: random.Random, ax: int, big: bool):
    """Returns (bins_item, pairs or None, right_closed or None, kind, extra_kwargs)."""
    from physt import binnings

    kind = rng.choice(["edges", "edges", "gapped", "obj_open", "obj_closed", "int", "fixed_width", "numpy_count", "fw_obj", "fw_range"])
    nb = rng.randint(1, 6 if not big else 14)
    base = 10.0 ** ax * rng.choice([1, 1, 3]) * (1 if rng.random() < 0.8 else -1)
    if kind in ("fw_obj", "fw_range"):
        # prepared fixed-width binnings (right-open unless declared otherwise) and range= arguments: bins are NOT grown from
        # the data, so a coordinate exactly on the last edge must be missed
        w = rng.choice([0.1, 0.25, 0.5, 1.0, 2.5, 0.3]) * abs(base)
        lo = base * 7
        if kind == "fw_obj":
            closed = rng.random() < 0.25
            how = rng.randrange(3)
            if how == 0:
                b = binnings.FixedWidthBinning(bin_width=w, bin_count=nb, min=lo, includes_right_edge=closed)
            elif how == 1:
                b = binnings.fixed_width_binning(None, bin_width=w, range=(lo, lo + nb * w), includes_right_edge=closed)
            else:
                closed = False
                b = binnings.integer_binning(None, range=(int(lo), int(lo) + nb))
            pairs = np.asarray(b.bins, dtype=float).tolist()
            return b, pairs, closed, kind, {}
        b = binnings.fixed_width_binning(None, bin_width=w, range=(lo, lo + nb * w))
        pairs = np.asarray(b.bins, dtype=float).tolist()
        return "fixed_width", pairs, False, kind, {"bin_width": w, "range": (lo, lo + nb * w)}
    if kind in ("edges", "obj_open", "obj_closed", "gapped"):
        if kind == "gapped" and rng.random() < 0.3:
            # gaps far below the edge magnitude are still gaps (exact comparison): rows inside them are missed
            pairs = gen.tiny_gapped_pairs(rng, max(2, nb))
            arr = np.array(pairs)
            closed = rng.random() < 0.5
            return (arr if closed and rng.random() < 0.5 else binnings.StaticBinning(arr, includes_right_edge=closed)), pairs, closed, kind, {}
        if kind == "gapped":
            pairs = gen.gapped_pairs(rng, max(2, nb))
        else:
            pairs = gen.pairs_from_edges(gen.edges(rng, nb))
        # move the axis into its own range
        shift = base * 7 - pairs[0][0]
        span = pairs[-1][1] - pairs[0][0]
        if abs(shift) > 1e9 * span:
            shift = 0.0
        pairs = [[p[0] + shift, p[1] + shift] for p in pairs]
        if not all(p[0] < p[1] for p in pairs) or not all(pairs[i][1] <= pairs[i + 1][0] for i in range(len(pairs) - 1)):
            pairs = gen.pairs_from_edges([base + i for i in range(nb + 1)])
        arr = np.array(pairs)
        if kind == "edges":
            e = np.array([p[0] for p in pairs] + [pairs[-1][1]])
            return e, pairs, True, kind, {}
        if kind == "gapped":
            if rng.random() < 0.5:
                return arr, pairs, True, kind, {}
            closed = rng.random() < 0.5
            return binnings.StaticBinning(arr, includes_right_edge=closed), pairs, closed, kind, {}
        closed = kind == "obj_closed"
        if gen.is_consecutive_pairs(pairs) and rng.random() < 0.4:
            e = np.array([p[0] for p in pairs] + [pairs[-1][1]])
            return binnings.NumpyBinning(e, includes_right_edge=closed), pairs, closed, kind, {}
        return binnings.StaticBinning(arr, includes_right_edge=closed), pairs, closed, kind, {}
    if kind == "int":
        return rng.choice([1, 2, 3, 5, 8]), None, None, kind, {}
    if kind == "fixed_width":
        return "fixed_width", None, None, kind, {"bin_width": rng.choice([0.1, 0.25, 0.5, 1.0, 2.5]) * abs(base)}
    return "numpy", None, None, kind, {"bin_count": rng.choice([1, 2, 4, 7])}


def one_case(ctx, index: int, rng: random.Random):
    import physt

    rec = ctx.rec
    big = not ctx.quick
    d = rng.choice([2, 2, 2, 3, 3, 4])
    form = "h"
    if d == 2 and rng.random() < 0.4:
        form = "h2"
    elif d == 3 and rng.random() < 0.5:
        form = rng.choice(["h3_rows", "h3_cols"])
    nmax = 120 if not big else 600
    n = rng.choice([0, 1, 2, 5, 30, nmax]) if rng.random() < 0.4 else rng.randint(2, nmax)
    specs = [_axis_spec(rng, ax, big) for ax in range(d)]
    for sp_ in specs:
        if hasattr(type(sp_[0]), "numpy_bins"):
            gen.touch_binning(rng, sp_[0])  # e.g. edges read on an earlier histogram over the same binning object
    derived = any(s[1] is None for s in specs)
    if derived:
        n = max(n, 3)
    cols = []
    for ax, (item, pairs, closed, kind, extra) in enumerate(specs):
        if pairs is not None:
            col = gen.data_for_bins(rng, pairs, n, nan_ok=False, edge_bias=0.4)
        else:
            base = 10.0 ** ax * 7
            col = [base + abs(base) * rng.choice([rng.random(), rng.randint(0, 8) / 4]) for _ in range(n)]
            if n >= 2:
                col[0], col[1] = base, base + abs(base) * 2  # distinct values for data-derived bins
        cols.append(col)
    rows = np.array(cols, dtype=float).T.reshape(n, d)
    has_nan = False
    if n > 3 and rng.random() < 0.35 and not derived:
        for _ in range(rng.randint(1, 3)):
            rows[rng.randrange(n), rng.randrange(d)] = float("nan")
        has_nan = True
    has_inf = False
    if n > 3 and rng.random() < 0.15 and not derived:
        # infinite coordinates lie in no cell: the row is missed (not dropped), also when both signs meet in one row
        for _ in range(rng.randint(1, 3)):
            r = rng.randrange(n)
            rows[r, rng.randrange(d)] = rng.choice([np.inf, -np.inf])
            if rng.random() < 0.5:
                a, b = rng.sample(range(d), 2)
                rows[r, a], rows[r, b] = np.inf, -np.inf
        has_inf = True
    wts, wkind = gen.weights(rng, n)
    general = False
    if wts is not None and rng.random() < 0.1:
        wts, wkind, general = [rng.uniform(0, 3) for _ in range(n)], "general", True
    if wts is not None and n == 0:
        wts = None
        wkind = "none"

    # the bins argument: one list item per axis, or a single item for all axes
    bins_arg = [s[0] for s in specs]
    kwargs = {}
    keys = set()
    for s in specs:
        keys |= set(s[4])
    for k in keys:
        kwargs[k] = [s[4].get(k) for s in specs]
    if "range" in kwargs:
        if all(r is None for r in kwargs["range"]):
            del kwargs["range"]
    same_for_all = False
    if all(s[3] == "int" for s in specs) and rng.random() < 0.5:
        bins_arg = specs[0][0]
        specs = [(bins_arg, None, None, "int", {})] * d
        same_for_all = True
    if wts is not None:
        kwargs["weights"] = np.asarray(wts) if rng.random() < 0.7 else list(wts)
        if not general:
            if wkind == "int" and rng.random() < 0.5:
                wts = [w_ * 12 for w_ in wts]  # single weights fit int8 / uint8, their squares and sums do not
                kwargs["weights"] = np.asarray(wts)
            nw_, ndt_ = gen.narrow_weights(rng, wts, p=0.3)
            if nw_ is not None:
                kwargs["weights"], wkind = nw_, f"{wkind}:{ndt_}"
    names = [f"ax{chr(97 + i)}" for i in range(d)]
    if rng.random() < 0.5 and form in ("h", "h3_rows"):
        kwargs["axis_names"] = names
    desc = {"form": form, "d": d, "axes": [s[3] for s in specs], "bins": [None if s[1] is None else gen.hexlist(np.asarray(s[1]).ravel()) for s in specs],
            "right_closed": [s[2] for s in specs], "rows": gen.hexlist(rows.ravel()), "weights": None if wts is None else list(wts),
            "kwargs": {k: (v if not hasattr(v, "shape") else "<array>") for k, v in kwargs.items() if k != "weights"}}
    try:
        if form == "h":
            data = rows if rng.random() < 0.7 else rows.tolist()
            if n == 0:
                data = rows
            h = physt.h(data, bins_arg, **kwargs)
        elif form == "h2":
            c0, c1 = rows[:, 0].copy(), rows[:, 1].copy()
            if rng.random() < 0.3:
                c0, c1 = c0.tolist(), c1.tolist()
            elif n >= 4 and n % 2 == 0 and rng.random() < 0.4:
                # coordinate arrays of more than one dimension, in different memory layouts: rows pair up by index, not by address
                c0, c1 = c0.reshape(2, -1), c1.reshape(2, -1)
                which = rng.randrange(3)
                if which == 0:
                    c0 = np.asfortranarray(c0)
                elif which == 1:
                    c1 = np.ascontiguousarray(c1.T).T
                else:
                    c0, c1 = np.asfortranarray(c0), np.asfortranarray(c1)
                form = "h2/layouts"
            h = physt.h2(c0, c1, bins_arg, **kwargs)
        elif form == "h3_rows":
            h = physt.h3(rows, bins_arg, **kwargs)
        else:
            h = physt.h3([rows[:, 0].copy(), rows[:, 1].copy(), rows[:, 2].copy()], bins_arg, **kwargs)
    except Exception as e:
        rec.mon("C02.h.post")
        rec.case(desc, False, cls=f"raised:{form}")
        rec.fail(monitor="C02.h.post", op=form, symptom=f"valid input refused: {type(e).__name__}", diff=["raised"],
                 detail={"error": str(e)[:300], **desc})
        return
    wflat = None if wts is None else np.asarray(wts)
    with attach.quiet():
        requested = [None if s[1] is None else np.asarray(s[1], dtype=float) for s in specs]
        ok = construct.check_nd(rec, h, rows, wflat, op=form, requested_bins=requested, detail=desc)
        bins = [np.asarray(b, dtype=float) for b in h.bins]
        # per-axis arguments must have reached their own axis; data-derived bins must cover their own column
        fin = rows[~np.isnan(rows).any(axis=1)]
        for ax, s in enumerate(specs):
            if ax >= len(bins):
                break
            b = bins[ax]
            if s[3] in ("fixed_width", "fw_range"):
                w = s[4]["bin_width"]
                if not np.allclose(b[:, 1] - b[:, 0], w, rtol=1e-6, atol=0):
                    rec.fail(monitor="C02.h.post", op=form, symptom="per-axis bin_width did not reach its own axis", diff=["bins"],
                             detail={"axis": ax, "width": w, "bins": b, **desc})
            if s[3] == "numpy_count" and len(b) != s[4]["bin_count"]:
                rec.fail(monitor="C02.h.post", op=form, symptom="per-axis bin_count did not reach its own axis", diff=["bins"],
                         detail={"axis": ax, "bin_count": s[4]["bin_count"], "got": len(b), **desc})
            if s[3] == "int" and len(b) != s[0]:
                rec.fail(monitor="C02.h.post", op=form, symptom="per-axis integer bin count did not reach its own axis", diff=["bins"],
                         detail={"axis": ax, "bins": s[0], "got": len(b), **desc})
            if s[1] is None and len(fin):
                lo, hi = float(fin[:, ax].min()), float(fin[:, ax].max())
                if not (b[0, 0] <= lo and hi <= b[-1, 1]):
                    rec.fail(monitor="C02.h.post", op=form, symptom="bins derived from the data do not cover their own column", diff=["bins"],
                             detail={"axis": ax, "column_range": [lo, hi], "bins_range": [b[0, 0], b[-1, 1]], **desc})
        if "axis_names" in kwargs and tuple(h.axis_names) != tuple(names):
            rec.fail(monitor="C02.h.post", op=form, symptom="axis names not kept in order", diff=["axis_names"], detail={"got": h.axis_names})
        expected_class = "Histogram2D" if d == 2 else "HistogramND"
        if type(h).__name__ != expected_class:
            rec.fail(monitor="C02.h.post", op=form, symptom="wrong histogram class", diff=["class"], detail={"got": type(h).__name__})
    shape = tuple(len(b) for b in bins)
    on_last = any((fin[:, ax] == bins[ax][-1, 1]).any() for ax in range(min(d, len(bins)))) if len(fin) else False
    outside = any(((fin[:, ax] < bins[ax][0, 0]) | (fin[:, ax] > bins[ax][-1, 1])).any() for ax in range(min(d, len(bins)))) if len(fin) else False
    nontrivial = len(set(shape)) > 1 and on_last and outside
    rec.case(desc, nontrivial, cls=f"{form}/d{d}/{wkind}{'/nan' if has_nan else ''}{'/inf' if has_inf else ''}/{'+'.join(sorted(set(s[3] for s in specs)))}",
             sample={"form": form, "shape": shape, "bins": [b.tolist()[:4] for b in bins], "rows": rows.tolist()[:6],
                     "weights": None if wts is None else list(wts)[:6], "missed": float(h.missed), "total": float(h.total)})


def dtype_case(ctx, index: int, rng: random.Random):
    """A content type given at construction: every stored number is the exact sum (rounded into a float type), and sums that do not
    fit an integer type are refused or widened - never wrapped around; the missed weight is never negative."""
    import physt

    rec = ctx.rec
    rec.mon("C02.h.post")
    d = rng.choice([2, 2, 3])
    dt = rng.choice(["int16", "int32", "float32", "int16", "float64", "int64"])
    shape = [rng.randint(1, 3) for _ in range(d)]
    edges = [np.array(gen.edges(rng, k)) for k in shape]
    crowd = rng.random() < 0.4 and dt == "int16"
    n = rng.randint(33000, 70000) if crowd else rng.randint(1, 60)
    cols = []
    for e in edges:
        if crowd:
            inside = rng.random() < 0.7
            x = float(e[0] + (e[1] - e[0]) / 4) if inside else float(e[-1] + 1.0)
            cols.append(np.full(n, x))
        else:
            cols.append(np.asarray(gen.data_for_bins(rng, gen.pairs_from_edges(list(e)), n, nan_ok=False)))
    rows = np.stack(cols, axis=1)
    wkind = rng.choice(["none", "int", "int_big", "dyadic"]) if not crowd else "none"
    if np.dtype(dt).kind in "iu" and wkind == "dyadic":
        wkind = "int"
    wts = None
    if wkind == "int":
        wts = np.asarray([rng.randint(0, 9) for _ in range(n)])
    elif wkind == "int_big":
        wts = np.asarray([rng.choice([1, 150, 300, 20000, 40000]) for _ in range(n)])
    elif wkind == "dyadic":
        wts = np.asarray([rng.randint(0, 64) / 8 * rng.choice([1, 1, 2.0**20]) for _ in range(n)])
    if dt in ("float64", "int64") and not crowd:
        # integer weights whose squares leave 64-bit integers (the contents stay far below 2**53)
        wkind, n = "int_huge", min(n, 3)
        rows = rows[:n]
        wts = np.asarray([rng.choice([2**32, 5_000_000_000, 4_000_000_000]) for _ in range(n)], dtype=np.int64)
    kw = {} if wts is None else {"weights": wts}
    bins = [np.stack([e[:-1], e[1:]], axis=1) for e in edges]
    right_closed = [True] * d

    _, f, e2, missed, total, _, _ = model.bin_nd(bins, right_closed, rows if not crowd else rows[:1], None if wts is None else (wts if not crowd else wts[:1]))
    if crowd:
        # n equal rows: n times the first one
        f = {k: v * n for k, v in f.items()}
        e2 = {k: v * n for k, v in e2.items()}
        missed = missed * n
    biggest = max([float(v) for v in f.values()] + [float(v) for v in e2.values()] + [float(missed), 0.0])
    fits = np.dtype(dt).kind == "f" or biggest <= float(np.iinfo(dt).max)
    desc = {"dtype": dt, "d": d, "n": n, "weights": wkind, "biggest": biggest, "crowd": crowd, "edges": [x.tolist() for x in edges]}
    try:
        with warnings.catch_warnings():
            warnings.simplefilter("ignore")
            h = physt.h(rows, [x.copy() for x in edges], dtype=dt, **kw)
    except (OverflowError, ValueError) as ex:
        if fits:
            rec.fail(monitor="C02.h.post", op="h(dtype=)", symptom=f"construction with a content type that holds every sum refused: {type(ex).__name__}", diff=["raised"], detail={**desc, "error": str(ex)[:160]})
        rec.case(desc, not fits, cls=f"dtype/{dt}/{wkind}/refused")
        return
    except Exception as ex:
        rec.fail(monitor="C02.h.post", op="h(dtype=)", symptom=f"construction raised {type(ex).__name__}", diff=["raised"], detail={**desc, "error": str(ex)[:160]})
        return
    with attach.quiet():
        if crowd:
            res = np.dtype(h.dtype)
            want = model.dense(tuple(shape), f)
            if res.kind in "iu" and biggest > float(np.iinfo(res).max):
                rec.fail(monitor="C02.h.post", op="h(dtype=)", symptom="sums that do not fit the integer content type were stored in it (wrapped around) instead of being refused or widened",
                         diff=["frequencies", "missed"], detail={**desc, "got": np.asarray(h.frequencies).ravel()[:6].tolist(), "missed": float(h.missed)})
            elif not np.array_equal(np.asarray(h.frequencies, dtype=float), want) or float(h.missed) != float(missed):
                rec.fail(monitor="C02.h.post", op="h(dtype=)", symptom="cell contents / missed differ from the weight of the rows", diff=["frequencies", "missed"],
                         detail={**desc, "got": np.asarray(h.frequencies).ravel()[:6].tolist(), "missed": float(h.missed), "expected_missed": float(missed)})
        else:
            construct.check_nd(rec, h, rows, wts, op="h(dtype=)", requested_bins=None, detail=desc)
        if float(h.missed) < 0:
            rec.fail(monitor="C02.h.post", op="h(dtype=)", symptom="negative missed weight from non-negative weights", diff=["missed"], detail={**desc, "missed": float(h.missed)})
    rec.case(desc, True, cls=f"dtype/{dt}/{wkind}/{'fits' if fits else 'too_big'}/{np.dtype(h.dtype)}")


def unbounded_axis_case(ctx, index: int, rng: random.Random):
    """An axis whose last bin is unbounded ([a, inf), declared half-open): every finite coordinate >= a is in it, a coordinate of +inf is
    on its (excluded) right edge and the row is missed - as find_bin says."""
    import physt
    from physt.binnings import StaticBinning

    rec = ctx.rec
    rec.mon("C02.h.post")
    closed = rng.random() < 0.3
    bx = StaticBinning(np.array([[0.0, 1.0], [1.0, np.inf]]), includes_right_edge=closed)
    by = StaticBinning(np.array([[0.0, 1.0], [1.0, 2.0]]))
    rows = np.array([[0.5, 0.5], [5.0, 1.5], [1e300, 0.5], [np.inf, 0.5], [np.inf, 1.5], [0.2, 1.2]][: rng.randint(4, 6)])
    wts = np.asarray([rng.randint(1, 8) / 4 for _ in rows]) if rng.random() < 0.5 else None
    try:
        with warnings.catch_warnings():
            warnings.simplefilter("ignore")
            with np.errstate(all="ignore"):
                h = physt.h(rows, [bx, by], **({} if wts is None else {"weights": wts}))
    except Exception:
        rec.case(["unbounded", closed], False, cls="unbounded_axis/refused")
        return  # infinite coordinates may be refused
    with attach.quiet():
        w = np.ones(len(rows)) if wts is None else wts
        inf_rows = np.isinf(rows[:, 0])
        want_last = float(w[(rows[:, 0] >= 1.0) & (~inf_rows | closed) & (rows[:, 1] < 1.0)].sum())
        want_missed = 0.0 if closed else float(w[inf_rows].sum())
        got_last = float(np.asarray(h.frequencies)[1, 0])
        if got_last != want_last or float(h.missed) != want_missed:
            rec.fail(monitor="C02.h.post", op="h(unbounded last bin)", symptom="a coordinate on the excluded (infinite) right edge of a half-open last bin was counted into it", diff=["frequencies", "missed"],
                     detail={"includes_right_edge": closed, "last_cell": got_last, "expected": want_last, "missed": float(h.missed), "expected_missed": want_missed})
    rec.case(["unbounded", closed, len(rows), wts is not None], True, cls=f"unbounded_axis/{'closed' if closed else 'half_open'}")


def run(ctx):
    ctx.run_cases(ctx.scale(24, 120), unbounded_axis_case, salt="unbounded")
    ctx.run_cases(ctx.scale(150, 1000), dtype_case, salt="dtype")
    attach_monitors()
    ctx.run_cases(ctx.scale(500, 4000), one_case)
