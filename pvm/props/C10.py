"""C10 - merge_bins conserves content and bin boundaries."""
from __future__ import annotations

import random
import warnings

import numpy as np

from .. import attach, gen, snapshot as snap
from ..monitors import structure

DECIDING_MONITORS = ["C10.merge.post", "C10.merge.refusal"]
PASSIVE_UNDER_TESTS = True
RULE = ("1D histograms with 1..40 bins (regular, irregular widths, gapped, edges of large magnitude) and 2-4D histograms with asymmetric shapes, "
        "weighted contents (errors2 != frequencies) and squared errors of their own (non-zero where the content is zero), missed values; merge_bins with every amount 1..n+3, on every single axis and on all axes, "
        "in place and copying, and with min_frequency thresholds from 0 to beyond the total; gaps, non-integral and non-positive amounts must "
        "be refused (in place: leaving the histogram unchanged); every call is checked: new bins are unions of runs of adjacent old bins, "
        "contents / errors2 the run sums, other axes / totals / missed / source untouched; non-trivial = amount not dividing the bin count or "
        "irregular / gapped bins or one axis of an asymmetric ND histogram; distinct by hash of (bins, contents, arguments) Compact float contents (float16 / float32 numbers whose sums are in range but not numbers of the type) must be merged exactly (the type widens).")
ASSUMPTIONS = ["gaps are generated clearly visible relative to the edge magnitude and also far below it (large offsets), never decided by a tolerance in the oracle (exact edge equality)"]


def attach_monitors():
    structure.attach_structure_monitors(("merge",))


def one_case(ctx, index, rng: random.Random):
    import physt

    rec = ctx.rec
    d = rng.choice([1, 1, 1, 2, 2, 3, 4])
    gapped = False
    if d == 1:
        kind = rng.choice(["regular", "irregular", "gapped", "gapped_large"])
        nb = rng.randint(1, 12 if ctx.quick else 40)
        if kind == "gapped":
            pairs = gen.gapped_pairs(rng, max(2, min(nb, 12)))
            gapped = True
        elif kind == "gapped_large":
            # gaps that are small relative to the edge magnitude (timestamps, offsets of 1e6): still gaps
            off = rng.choice([1e6, 1.7e9, 3e7])
            w = rng.choice([1.0, 0.5, 3.0])
            k = max(3, nb)
            pairs = []
            x = off
            for i in range(k):
                pairs.append([x, x + w])
                x = x + w + (rng.choice([0.0, 0.0, w, 2 * w]))
            gapped = not gen.is_consecutive_pairs(pairs)
        elif kind == "irregular":
            pairs = gen.pairs_from_edges(gen.irregular_edges(rng, nb))
        else:
            pairs = gen.pairs_from_edges(gen.regular_edges(rng, nb))
        n = rng.randint(0, 60)
        data = gen.data_for_bins(rng, pairs, n)
        w = np.asarray([rng.randint(1, 24) / 8 for _ in range(n)], dtype=float)
        h = physt.h1(np.asarray(data, dtype=float), np.array(pairs), weights=w)
        if kind in ("regular", "irregular") and rng.random() < 0.15:
            # compact integer / float16 contents given directly: every bin fits the type, the sums of a run need not
            from physt.histogram1d import Histogram1D

            dt_ = rng.choice(["int16", "int32", "float16", "float32", "float16"])
            top_ = 60000 if dt_ == "float16" else (2**30 if dt_ == "float32" else int(np.iinfo(dt_).max))
            big_ = np.array([rng.choice([0, 1, top_ // 2, top_ - 1, top_]) for _ in range(len(pairs))]).astype(dt_)
            if dt_ in ("float16", "float32") and rng.random() < 0.6:
                # every bin is an exact number of the type; the sum of a run (in range) need not be one
                unit_ = 2**11 if dt_ == "float16" else 2**24
                big_ = np.array([unit_ + 2 * rng.randint(0, 40) for _ in range(len(pairs))]).astype(dt_)
            h = Histogram1D(np.array([p[0] for p in pairs] + [pairs[-1][1]]), big_, errors2=big_.copy())
            kind = f"{kind}/{dt_}"
        shape = [len(pairs)]
    else:
        kind = "nd"
        shape = [rng.randint(1, 6) for _ in range(d)]
        if d == 2 and shape[0] == shape[1]:
            shape[1] += rng.randint(1, 3)
        axes_pairs = [gen.pairs_from_edges(gen.edges(rng, k)) for k in shape]
        if rng.random() < 0.25:
            # one axis with a gap: a merge over all axes is refused as a whole (nothing half merged)
            gx = rng.randrange(d)
            axes_pairs[gx] = gen.gapped_pairs(rng, max(2, shape[gx]))
            shape[gx] = len(axes_pairs[gx])
            kind = "nd_gapped"
        n = rng.randint(0, 80)
        rows = np.array([gen.data_for_bins(rng, p, n) for p in axes_pairs], dtype=float).T.reshape(n, d)
        w = np.asarray([rng.randint(1, 24) / 8 for _ in range(n)], dtype=float)
        h = physt.h(rows, [np.array(p) for p in axes_pairs], weights=w, axis_names=[f"a{i}" for i in range(d)])
    custom = False
    if rng.random() < 0.35:
        # squared errors of their own (background subtraction, explicit errors): also non-zero where the content is zero
        e2 = np.asarray([rng.randint(0, 16) / 4 for _ in range(int(np.prod(shape)))], dtype=float).reshape(shape)
        with attach.quiet():
            h.errors2 = e2
        custom = True
    mode = rng.choice(["amount", "amount", "amount", "min_frequency", "bad_amount"])
    axis = rng.choice([None] + list(range(d))) if d > 1 else rng.choice([None, 0])
    if axis is not None and d > 1 and rng.random() < 0.4:
        axis = f"a{axis}"
    inplace = rng.random() < 0.4
    kw = {"axis": axis, "inplace": inplace}
    amount = None
    if mode == "amount":
        nmax = max(shape) + 3
        amount = rng.randint(1, nmax)
        if rng.random() < 0.1:
            amount = float(amount)  # integral float: accepted or refused, either is fine if consistent
            mode = "float_amount"
    elif mode == "min_frequency":
        kw["min_frequency"] = rng.choice([0, 0.5, 1, 2, 5, float(h.total) / 2, float(h.total) + 1])
    else:
        # also amounts that are almost, but not, integers (0.3 / 0.1, one ulp above 2): non-integral all the same
        amount = rng.choice([2.5, 0, -2, 1.5, 0.3 / 0.1, float(np.nextafter(2.0, 3.0)), 4 - 1e-12, float(np.nextafter(1.0, 0.0)), 2 + 1e-10])
    target = h.copy() if inplace else h
    with attach.quiet():
        for b_ in target.binnings:
            gen.touch_binning(rng, b_)  # a tolerant predicate read earlier must not decide an exact question later
    desc = {"d": d, "kind": kind, "shape": shape, "amount": amount, **{k: v for k, v in kw.items()}}
    try:
        with warnings.catch_warnings():
            warnings.simplefilter("ignore")
            if amount is not None:
                if mode == "float_amount":
                    try:
                        target.merge_bins(amount, **kw)
                    except TypeError:
                        pass  # merge_bins(2.0) raising TypeError is a refusal of a debatable input (soundness rule 2)
                else:
                    target.merge_bins(amount, **kw)
            else:
                target.merge_bins(**kw)
    except Exception:
        pass  # judged by the per-call monitor
    nontrivial = (amount is not None and isinstance(amount, int) and shape[0] % max(amount, 1) != 0) or kind in ("irregular", "gapped", "gapped_large") or (d > 1 and axis is not None)
    rec.case([desc, np.asarray(h.frequencies).ravel()[:50].tolist(), [np.asarray(b).ravel()[:20].tolist() for b in ([h.bins] if d == 1 else h.bins)]],
             bool(nontrivial), cls=f"{d}d/{kind}/{mode}{'/inplace' if inplace else ''}{'/custom_errors' if custom else ''}", sample={**desc, "total": float(h.total)})


def negative_run_case(ctx, index, rng):
    """Runs whose sums lie below the lower end of a compact integer content type (negative contents of a difference made under free
    arithmetics, with squared errors of their own): merged exactly, the type widens."""
    from physt.config import config
    from physt.histogram1d import Histogram1D
    from physt.histogram_nd import Histogram2D

    rec = ctx.rec
    rec.mon("C10.merge.post")
    dt = rng.choice(["int16", "int32"])
    low = int(np.iinfo(dt).min)
    v = low // 2 - rng.randint(1, 60)
    d = rng.choice([1, 1, 2])
    try:
        with config.enable_free_arithmetics(), warnings.catch_warnings():
            warnings.simplefilter("ignore")
            if d == 1:
                h = Histogram1D(np.array([0.0, 1.0, 2.0, 3.0]), np.array([v, v, 12], dtype=dt), errors2=np.array([1, 1, 12], dtype=dt))
                m = h.merge_bins(2) if rng.random() < 0.5 else h.copy().merge_bins(2, inplace=True)
                got, want = np.asarray(m.frequencies).tolist(), [2 * v, 12]
            else:
                h = Histogram2D([np.array([0.0, 1.0, 2.0]), np.array([0.0, 1.0])], np.array([[v], [v]], dtype=dt), errors2=np.array([[1], [1]], dtype=dt))
                m = h.merge_bins(2, axis=0)
                got, want = np.asarray(m.frequencies).ravel().tolist(), [2 * v]
    except (OverflowError, ValueError):
        rec.case(["negative_run", dt, d], True, cls=f"negative_run/{dt}/{d}d/refused")
        return
    except Exception as ex:
        rec.fail(monitor="C10.merge.post", op="merge_bins", symptom=f"merging raised {type(ex).__name__}", diff=["raised"], detail={"error": str(ex)[:140]})
        return
    if [int(x) for x in got] != want:
        rec.fail(monitor="C10.merge.post", op="merge_bins", symptom="contents of the merged bins are not the sums of their runs (a sum below the lower end of the content type wrapped around)",
                 diff=["frequencies"], detail={"dtype_before": dt, "dtype_after": str(m.dtype), "got": got, "expected": want})
    rec.case(["negative_run", dt, d, v], True, cls=f"negative_run/{dt}/{d}d/{np.dtype(m.dtype)}")


def select_then_merge_case(ctx, index, rng):
    """A selection that leaves gaps (mask, index array, stepped slice) of a histogram whose binning had been asked is_consecutive()
    before: a merge whose run would cross one of the new gaps is refused, others merge exactly the selected bins."""
    import physt
    from physt.histogram1d import Histogram1D

    rec = ctx.rec
    rec.mon("C10.merge.post")
    nb = rng.randint(4, 8)
    e = gen.edges(rng, nb)
    src = rng.choice(["pairs", "edges", "h1"])
    f = np.array([rng.randint(1, 9) for _ in range(nb)])
    if src == "pairs":
        h = Histogram1D(np.array(gen.pairs_from_edges(e)), f)
    elif src == "edges":
        h = Histogram1D(np.array(e), f)
    else:
        h = physt.h1(np.array([(e[i] + e[i + 1]) / 2 for i in range(nb) for _ in range(int(f[i]))]), np.array(gen.pairs_from_edges(e)))
    if rng.random() < 0.8:
        with warnings.catch_warnings():
            warnings.simplefilter("ignore")
            try:
                _ = h.binning.is_consecutive(), h.binning.numpy_bins
            except Exception:
                pass
    keep = sorted(rng.sample(range(nb), rng.randint(3, nb - 1)))
    how = rng.choice(["mask", "index_array"])
    g = h[np.isin(np.arange(nb), keep)] if how == "mask" else h[np.array(keep)]
    runs = [keep[k : k + 2] for k in range(0, len(keep), 2)]
    crosses = any(len(r) == 2 and r[1] != r[0] + 1 for r in runs)
    kwargs = {"amount": 2} if rng.random() < 0.7 else {"min_frequency": 100}
    if "min_frequency" in kwargs:
        crosses = any(b != a + 1 for a, b in zip(keep[:-1], keep[1:]))  # everything would end in one bin
    try:
        with warnings.catch_warnings():
            warnings.simplefilter("ignore")
            m = g.merge_bins(**kwargs) if rng.random() < 0.5 else g.copy().merge_bins(inplace=True, **kwargs)
        refused = False
    except Exception:
        refused = True
    if crosses and not refused:
        rec.fail(monitor="C10.merge.post", op="merge_bins", symptom="a merge across a gap of a selection was not refused", diff=["not_refused"],
                 detail={"kept_bins": keep, "selection": how, "source": src, "merged_bins": np.asarray(m.bins).tolist()[:6], **kwargs})
    if not crosses and refused and "amount" in kwargs:
        rec.fail(monitor="C10.merge.post", op="merge_bins", symptom="a merge of adjacent selected bins was refused", diff=["raised"], detail={"kept_bins": keep, "selection": how})
    rec.case(["select_then_merge", e, keep, how, src, sorted(kwargs)], crosses, cls=f"select_then_merge/{how}/{'crosses' if crosses else 'adjacent'}")


def run(ctx):
    ctx.run_cases(ctx.scale(40, 200), negative_run_case, salt="negrun")
    ctx.run_cases(ctx.scale(100, 600), select_then_merge_case, salt="selmerge")
    attach_monitors()
    ctx.run_cases(ctx.scale(600, 5000), one_case)
