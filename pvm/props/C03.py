"""C03 - incremental filling (fill / fill_n) equals batch construction."""
from __future__ import annotations

import math
import random

import numpy as np

from .. import attach, gen, model, snapshot as snap
from ..monitors import construct, fill as mfill

DECIDING_MONITORS = ["C03.fill.delta", "C03.fill_n.delta", "C03.history.equiv"]
PASSIVE_UNDER_TESTS = True
RULE = ("histories: one data set entered (a) at construction, (b) by fill one value at a time in a random permutation, "
        "(c) by fill_n over a random partition (with empty chunks and NaNs), (d) by a mixture, on 1D (regular/irregular/gapped) "
        "and 2-3D (right-open / right-closed axes) fixed bins, keep_missed on/off, weights none/int/dyadic; every fill / fill_n is "
        "checked by the per-call delta monitor and find_bin agreement, final states of all paths are compared; "
        "non-trivial = >= 2 entry paths compared, >= 1 value outside the bins, >= 1 value on / one ulp beside an edge The ND construction path is entered through h(..., keep_missed=) and from_calculate_frequencies; the flag the histogram reports and the missed weight are compared with fill / fill_n.")
ASSUMPTIONS = [
    "exact comparison for int64/float64 contents with dyadic weights; statistics are compared only where the statement speaks of them (tracking of missed values switched off: values outside the bins change nothing)",
    "under / overflow of gapped bins are compared across entry paths like everything else: unknown (NaN) once a value fell into a gap, the exact weights otherwise",
    "fill(NaN) is judged against 'NaN is skipped' (known finding fill.nan_value, the only one left)",
]


def attach_monitors():
    mfill.attach_fill_monitors()


def _numeric_state(h, one_d):
    s = snap.snapshot(h, with_stats=False)
    keys = ["frequencies", "errors2"] + (["underflow", "overflow"] if one_d else ["missed"])
    out = {}
    for k in keys:
        v = s[k]
        if isinstance(v, tuple):
            out[k] = snap.arr_values(v).astype(float).tolist()
        else:
            out[k] = v
    return out


def _partition(rng, n):
    cuts = sorted(rng.randint(0, n) for _ in range(rng.randint(0, 5)))
    idx = [0] + cuts + [n]
    return [(idx[i], idx[i + 1]) for i in range(len(idx) - 1)]


def case_1d(ctx, index, rng: random.Random):
    import physt
    from physt.histogram1d import Histogram1D
    from physt import binnings

    rec = ctx.rec
    kind = rng.choice(["edges", "edges", "irregular", "gapped", "single"])
    nb = 1 if kind == "single" else rng.randint(1, 10)
    if kind == "gapped":
        pairs = gen.gapped_pairs(rng, max(2, nb))
    elif kind == "irregular":
        pairs = gen.pairs_from_edges(gen.irregular_edges(rng, nb))
    else:
        pairs = gen.pairs_from_edges(gen.edges(rng, nb))
    edges32 = False
    if rng.random() < 0.12:
        # bin edges that arrive as float32 (they are what they are, e.g. float32(0.1)); the values stay python floats / float64
        p32 = np.array(pairs).astype(np.float32)
        if np.all(p32[:, 0] < p32[:, 1]) and np.all(p32[1:, 0] >= p32[:-1, 1]) and np.all(np.isfinite(p32)):
            pairs = p32.astype(float).tolist()
            edges32 = True
    gapped = not gen.is_consecutive_pairs(pairs)
    n = rng.choice([0, 1, 3, 8, 20, 40 if ctx.quick else 120])
    with_nan = rng.random() < 0.3
    data = gen.data_for_bins(rng, pairs, n, nan_ok=with_nan)
    wts, wkind = gen.weights(rng, n)
    keep_missed = rng.random() < 0.65
    float_contents = wts is not None and wkind in ("dyadic", "zeros_some")
    # gapped bins + integer contents cannot hold the NaN under/overflow markers (known finding D01): use float contents there
    dtype = None
    if gapped and not float_contents:
        if rng.random() < 0.4:
            dtype = "float64"
    int_gap = gapped and not float_contents and dtype is None
    bins_arr = np.array(pairs) if not edges32 else np.array(pairs).astype(np.float32)
    desc = {"dim": 1, "edges_type": "float32" if edges32 else "float64", "bins": gen.hexlist(bins_arr.ravel()), "data": gen.hexlist(data), "weights": None if wts is None else list(wts),
            "keep_missed": keep_missed, "dtype": dtype, "gapped": gapped}

    def fresh():
        kw = {"keep_missed": keep_missed}
        if dtype:
            kw["dtype"] = dtype
        how = rng.randrange(4)
        if how == 3 and not int_gap:
            kt = dict(kw)
            if gapped:
                kt["dtype"] = "float64"
            t = physt.h1(np.asarray([v for v in data[: max(1, n // 2)] if not math.isnan(v)], dtype=float), bins_arr.copy(), **kt)
            t = t.copy(include_frequencies=False)  # the emptied copy of a filled histogram
            if gapped and not dtype and not float_contents:
                return Histogram1D(binnings.StaticBinning(bins_arr.copy()), **kw)
            return t
        if how in (0, 3):
            return Histogram1D(binnings.StaticBinning(bins_arr.copy()), **kw)
        if how == 1:
            return physt.h1(None, bins_arr.copy(), **kw)
        return Histogram1D(bins_arr.copy(), **kw)

    def mech_for(exc):
        if int_gap and isinstance(exc, ValueError) and "NaN" in str(exc):
            return "1d.gap.int_dtype.nan_missed"
        return None

    # values may arrive as float32 (scalars and arrays): every path sees the same, exactly representable, values
    vtype = float
    if rng.random() < 0.15:
        vtype = np.float32
        data = [float(np.float32(v)) for v in data]
        desc["value_type"] = "float32"
        desc["data"] = gen.hexlist(np.asarray(data, dtype=float))
    finals = {}
    # (a) construction
    try:
        kw = {"keep_missed": keep_missed}
        if dtype:
            kw["dtype"] = dtype
        if wts is not None:
            kw["weights"] = np.asarray(wts)
        ha = physt.h1(np.asarray(data, dtype=vtype), bins_arr.copy(), **kw)
        finals["construct"] = _numeric_state(ha, True)
    except Exception as e:
        rec.mon("C03.history.equiv")
        rec.fail(monitor="C03.history.equiv", op="h1", symptom=f"construction refused a valid input: {type(e).__name__}", diff=["raised"],
                 mechanism=mech_for(e), detail={"error": str(e)[:200], **desc})
    # (b) fill one at a time, random permutation
    order = list(range(n))
    rng.shuffle(order)
    hb = fresh()
    via_lshift = wts is None and rng.random() < 0.2
    try:
        for i in order:
            v = data[i] if vtype is float else np.float32(data[i])
            if via_lshift:
                hb << v
            elif wts is None:
                hb.fill(v)
            else:
                w = wts[i]
                nw_, _ = gen.narrow_weights(rng, [w], p=0.2)
                hb.fill(v, nw_[0] if nw_ is not None else (w if rng.random() < 0.5 else type(w)(w)))
        finals["fill"] = _numeric_state(hb, True)
    except Exception as e:
        rec.mon("C03.history.equiv")
        rec.fail(monitor="C03.history.equiv", op="fill", symptom=f"fill refused a valid value: {type(e).__name__}", diff=["raised"],
                 mechanism=mech_for(e), detail={"error": str(e)[:200], **desc})
    # (c) fill_n over a random partition of a random permutation
    perm = list(range(n))
    rng.shuffle(perm)
    hc = fresh()
    try:
        for a, b in _partition(rng, n):
            chunk = [data[i] for i in perm[a:b]]
            cw = None if wts is None else [wts[i] for i in perm[a:b]]
            vals = np.asarray(chunk, dtype=vtype) if (rng.random() < 0.7 or vtype is not float) else list(chunk)
            if cw is None:
                hc.fill_n(vals)
            else:
                nw_, _ = gen.narrow_weights(rng, cw, p=0.3)  # the same weights in a narrow element type
                hc.fill_n(vals, nw_ if nw_ is not None else (np.asarray(cw) if rng.random() < 0.7 else list(cw)))
        finals["fill_n"] = _numeric_state(hc, True)
    except Exception as e:
        rec.mon("C03.history.equiv")
        rec.fail(monitor="C03.history.equiv", op="fill_n", symptom=f"fill_n refused a valid batch: {type(e).__name__}", diff=["raised"],
                 mechanism=mech_for(e), detail={"error": str(e)[:200], **desc})
    # (d) mixture: construct from a prefix, then fill / fill_n the rest
    if n >= 2:
        cut = rng.randint(0, n)
        try:
            kw = {"keep_missed": keep_missed}
            if dtype:
                kw["dtype"] = dtype
            if wts is not None:
                kw["weights"] = np.asarray(wts[:cut])
            hd = physt.h1(np.asarray(data[:cut], dtype=float), bins_arr.copy(), **kw)
            rest = list(range(cut, n))
            mid = rng.randint(0, len(rest))
            for i in rest[:mid]:
                hd.fill(data[i]) if wts is None else hd.fill(data[i], wts[i])
            chunk = [data[i] for i in rest[mid:]]
            cw = None if wts is None else np.asarray([wts[i] for i in rest[mid:]])
            hd.fill_n(np.asarray(chunk, dtype=float), cw)
            finals["mixed"] = _numeric_state(hd, True)
        except Exception as e:
            rec.mon("C03.history.equiv")
            rec.fail(monitor="C03.history.equiv", op="mixed", symptom=f"mixed history refused valid input: {type(e).__name__}", diff=["raised"],
                     mechanism=mech_for(e), detail={"error": str(e)[:200], **desc})
    _compare_paths(rec, finals, desc, data, True, nan_in_fill=with_nan and any(math.isnan(x) for x in data))
    if not keep_missed:
        # tracking switched off: values outside the bins change nothing at all - the recorded statistics included (whichever way
        # the values came in, they are those of the values that are in a bin)
        with attach.quiet():
            ins = [(float(v), 1.0 if wts is None else float(wts[i])) for i, v in enumerate(data)
                   if not math.isnan(v) and any((a <= v < b) or (k == len(pairs) - 1 and v == b) for k, (a, b) in enumerate(pairs))]
            want_w = sum(w for _, w in ins)
            want_s = sum(v * w for v, w in ins)
            for nme, hh in (("construct", locals().get("ha")), ("fill", locals().get("hb")), ("fill_n", locals().get("hc")), ("mixed", locals().get("hd"))):
                if hh is None or nme not in finals:
                    continue
                st_ = hh.statistics
                gw, gs = float(st_.weight), float(st_.sum)
                if math.isnan(gw):
                    continue  # invalid statistics claim nothing
                scale_ = sum(abs(v * w) for v, w in ins) + 1e-300
                if abs(gw - want_w) > 1e-9 * (want_w + 1e-300) or abs(gs - want_s) > 1e-9 * scale_:
                    rec.fail(monitor="C03.history.equiv", op=nme, symptom="with tracking of missed values switched off, values outside the bins changed the recorded statistics", diff=["statistics"],
                             detail={"weight": gw, "expected_weight": want_w, "sum": gs, "expected_sum": want_s, **desc})
    all_edges = sorted(set(bins_arr.ravel().tolist()))
    fin = [v for v in data if not math.isnan(v)]
    adjacent = any(gen.is_edge_adjacent(v, all_edges) for v in fin)
    outside = any(v < pairs[0][0] or v > pairs[-1][1] for v in fin)
    rec.case(desc, len(finals) >= 2 and adjacent and outside, cls=f"1d/{kind}/{wkind}/{'keep' if keep_missed else 'nokeep'}",
             sample={"bins": bins_arr.tolist()[:5], "data": data[:10], "weights": None if wts is None else wts[:10], "keep_missed": keep_missed,
                     "paths": sorted(finals), "final": finals.get("fill_n")})


def _compare_paths(rec, finals, desc, data, one_d, nan_in_fill):
    rec.mon("C03.history.equiv")
    names = sorted(finals)
    if len(names) < 2:
        return
    ref_name = "fill_n" if "fill_n" in finals else names[0]
    ref = finals[ref_name]
    for nme in names:
        if nme == ref_name:
            continue
        d = [k for k in ref if finals[nme][k] != ref[k]]
        if d:
            # fill(NaN) is counted as overflow / missed by fill (known finding): paths containing single fills of NaN differ by it
            mech = None
            if nan_in_fill and nme in ("fill", "mixed") and set(d) <= {"overflow", "missed"}:
                mech = "fill.nan_value"
            rec.fail(monitor="C03.history.equiv", op=f"{nme} vs {ref_name}", symptom="entry paths give different final histograms",
                     diff=d, mechanism=mech, detail={"a": finals[nme], "b": ref, **desc})


def case_nd(ctx, index, rng: random.Random):
    import physt
    from physt import binnings
    from physt.histogram_nd import Histogram2D, HistogramND

    rec = ctx.rec
    d = rng.choice([2, 2, 3])
    axes = []
    for ax in range(d):
        nb = rng.randint(1, 5)
        r = rng.random()
        if r < 0.2:
            pairs = gen.gapped_pairs(rng, max(2, nb))
        elif r < 0.3:
            pairs = gen.tiny_gapped_pairs(rng, max(2, nb))
        else:
            pairs = gen.pairs_from_edges(gen.edges(rng, nb))
        closed = rng.random() < 0.5
        axes.append((pairs, closed))
    n = rng.choice([0, 1, 4, 12, 30 if ctx.quick else 80])
    cols = [gen.data_for_bins(rng, p, n, edge_bias=0.45) for p, _ in axes]
    rows = np.array(cols, dtype=float).T.reshape(n, d)
    with_nan = n > 2 and rng.random() < 0.3
    if with_nan:
        for _ in range(rng.randint(1, 2)):
            rows[rng.randrange(n), rng.randrange(d)] = float("nan")
    wts, wkind = gen.weights(rng, n)
    if n == 0:
        wts, wkind = None, "none"
    keep_missed = rng.random() < 0.65
    desc = {"dim": d, "bins": [gen.hexlist(np.asarray(p).ravel()) for p, _ in axes], "right_closed": [c for _, c in axes],
            "rows": gen.hexlist(rows.ravel()), "weights": None if wts is None else list(wts), "keep_missed": keep_missed}

    if rng.random() < 0.12:
        # an axis whose edges arrive as float32 (values stay python floats / float64)
        ax32 = rng.randrange(len(axes))
        p32 = np.array(axes[ax32][0]).astype(np.float32)
        if np.all(p32[:, 0] < p32[:, 1]) and np.all(p32[1:, 0] >= p32[:-1, 1]):
            axes[ax32] = (p32, axes[ax32][1])
    # the binning class of every axis is part of the case: consecutive axes may be numpy-style binnings (right-open or right-closed)
    axis_class = ["numpy" if (gen.is_consecutive_pairs(p) and rng.random() < 0.5) else "static" for p, _ in axes]
    touch_seed = rng.randrange(10**9)

    def mkbins():
        out = []
        trng = random.Random(touch_seed)
        for (p, c), k in zip(axes, axis_class):
            if k == "numpy":
                b = binnings.NumpyBinning(np.array([q[0] for q in p] + [p[-1][1]]), includes_right_edge=c)
            else:
                b = binnings.StaticBinning(np.array(p), includes_right_edge=c)
            gen.touch_binning(trng, b)
            out.append(b)
        return out

    def fresh():
        klass = Histogram2D if d == 2 else HistogramND
        if rng.random() < 0.3:
            # the emptied copy of a filled histogram is a starting point as good as a new one
            t = klass(mkbins(), keep_missed=keep_missed)
            if n:
                t.fill_n(rows[: max(1, n // 2)].copy())
            return t.copy(include_frequencies=False)
        return klass(mkbins(), keep_missed=keep_missed)

    finals = {}
    try:
        kw = {}
        if wts is not None:
            kw["weights"] = np.asarray(wts)
        if rng.random() < 0.5 or with_nan:  # (rows with NaN are dropped by the facade only)
            ha = physt.h(rows.copy(), mkbins(), keep_missed=keep_missed, **kw)
        else:
            ha = (Histogram2D if d == 2 else HistogramND).from_calculate_frequencies(rows.copy(), mkbins(), keep_missed=keep_missed, **kw)
        if bool(ha.keep_missed) != keep_missed:
            rec.mon("C03.history.equiv")
            rec.fail(monitor="C03.history.equiv", op="h", symptom="the keep_missed switch given at construction is not the one the histogram reports", diff=["keep_missed"],
                     detail={"asked": keep_missed, "got": bool(ha.keep_missed)})
        finals["construct"] = _numeric_state(ha, False)
    except Exception as e:
        rec.mon("C03.history.equiv")
        rec.fail(monitor="C03.history.equiv", op="h", symptom=f"construction refused a valid input: {type(e).__name__}", diff=["raised"],
                 detail={"error": str(e)[:200], **desc})
    order = list(range(n))
    rng.shuffle(order)
    hb = fresh()
    try:
        for i in order:
            v = rows[i].copy() if rng.random() < 0.6 else rows[i].tolist()
            if wts is None:
                hb.fill(v)
            else:
                hb.fill(v, wts[i])
        finals["fill"] = _numeric_state(hb, False)
    except Exception as e:
        rec.mon("C03.history.equiv")
        rec.fail(monitor="C03.history.equiv", op="fill", symptom=f"fill refused a valid point: {type(e).__name__}", diff=["raised"],
                 detail={"error": str(e)[:200], **desc})
    perm = list(range(n))
    rng.shuffle(perm)
    hc = fresh()
    try:
        for a, b in _partition(rng, n):
            chunk = rows[perm[a:b]].reshape(-1, d)
            cw = None if wts is None else np.asarray([wts[i] for i in perm[a:b]])
            if cw is None:
                hc.fill_n(chunk if rng.random() < 0.7 else chunk.tolist() if len(chunk) else chunk)
            else:
                hc.fill_n(chunk, cw)
        finals["fill_n"] = _numeric_state(hc, False)
    except Exception as e:
        rec.mon("C03.history.equiv")
        rec.fail(monitor="C03.history.equiv", op="fill_n", symptom=f"fill_n refused a valid batch: {type(e).__name__}", diff=["raised"],
                 detail={"error": str(e)[:200], **desc})
    _compare_paths(rec, finals, desc, rows, False, nan_in_fill=with_nan)
    fin = rows[~np.isnan(rows).any(axis=1)]
    adjacent = False
    outside = False
    for ax, (p, _) in enumerate(axes):
        ed = sorted({x for pr in p for x in pr})
        if len(fin):
            adjacent = adjacent or any(gen.is_edge_adjacent(float(v), ed) for v in fin[:, ax])
            outside = outside or bool(((fin[:, ax] < p[0][0]) | (fin[:, ax] > p[-1][1])).any())
    rec.case(desc, len(finals) >= 2 and adjacent and outside, cls=f"{d}d/{wkind}/{'keep' if keep_missed else 'nokeep'}",
             sample={"bins": [np.asarray(p).tolist()[:3] for p, _ in axes], "right_closed": [c for _, c in axes], "rows": rows.tolist()[:6],
                     "weights": None if wts is None else wts[:6], "paths": sorted(finals), "final_missed": finals.get("fill_n", {}).get("missed")})


def run(ctx):
    attach_monitors()
    ctx.run_cases(ctx.scale(350, 3000), case_1d, salt="1d")
    ctx.run_cases(ctx.scale(250, 2000), case_nd, salt="nd")
